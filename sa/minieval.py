"""A concrete evaluator for the pure arithmetic / comparison fragment of the analysed code.

Used for properties whose code touches values only through comparisons and simple arithmetic (clamps, scale-and-offset
conversions, selections): the rule enumerates a finite grid that covers every ordering / every grid point and this module
evaluates the *source text under analysis* on it - with the checker's own interpreter, never by importing or calling the
repository's code.  Anything outside the fragment raises Unsupported (reported as ANALYSIS-ERROR by the caller).

Supported: constants, names (environment, then module constants through the folder), attribute chains given as atoms,
unary / binary / boolean / comparison operators, conditional expressions, calls of min / max / round / int / float / abs / len /
bool, tuples, assignments, augmented assignments, if, one-shot `while True: ... break` (what helper inlining produces), return.
"""
from __future__ import annotations

import ast
import operator
from typing import Any, Callable, Optional

from .model import EnumVal, Module, NotConst, Repo, dotted, norm_text

_PLAIN = (int, float, bool, str, bytes, type(None), EnumVal)


_GLOBAL_OBJECTS: dict = {}


class Unsupported(Exception):
    pass


class _Return(Exception):
    def __init__(self, value):
        self.value = value


class _Break(Exception):
    pass


class _PyRaise(Exception):
    """an exception of the interpreted program (only the class name is tracked)"""

    def __init__(self, name):
        self.name = name


class _Continue(Exception):
    pass


class _Stop(Exception):
    def __init__(self, value):
        self.value = value


_BIN = {ast.Add: operator.add, ast.Sub: operator.sub, ast.Mult: operator.mul, ast.Div: operator.truediv, ast.FloorDiv: operator.floordiv, ast.Mod: operator.mod, ast.Pow: operator.pow, ast.LShift: operator.lshift, ast.RShift: operator.rshift, ast.BitAnd: operator.and_, ast.BitOr: operator.or_, ast.BitXor: operator.xor}
_CMP = {ast.In: lambda a, b: a in b, ast.NotIn: lambda a, b: a not in b, ast.Eq: operator.eq, ast.NotEq: operator.ne, ast.Lt: operator.lt, ast.LtE: operator.le, ast.Gt: operator.gt, ast.GtE: operator.ge, ast.Is: operator.is_, ast.IsNot: operator.is_not}
_FUN = {"min": min, "max": max, "round": round, "int": int, "float": float, "abs": abs, "len": len, "bool": bool, "divmod": divmod, "sum": sum, "any": any, "all": all}


class _Cursor:
    """iterator over a constant sequence (optionally cycling): the state of `iter(seq)` / `itertools.cycle(seq)`"""

    def __init__(self, items, cycle):
        self.items, self.cycle, self.pos = items, cycle, 0

    def next(self):
        if self.pos >= len(self.items):
            if not self.cycle:
                raise StopIteration
            self.pos = 0
        v = self.items[self.pos]
        self.pos += 1
        return v

    def state(self):
        return ("cursor", self.pos % len(self.items) if self.cycle and self.items else self.pos)


class FakeObj:
    """A stand-in value with named attributes (and a class name for isinstance tests)."""

    def __init__(self, cls: str = "", **attrs):
        self.__dict__["_cls"] = cls
        self.__dict__.update(attrs)

    def __repr__(self):
        return f"<{self._cls} {', '.join(f'{k}={v!r}' for k, v in self.__dict__.items() if k != '_cls')}>"


def freeze(v, depth=0):
    """hashable snapshot of an evaluator value (for state exploration)"""
    if isinstance(v, _PLAIN):
        return v
    if depth > 4:
        return "<deep>"
    if isinstance(v, _Cursor):
        return v.state()
    if isinstance(v, FakeObj):
        return (v._cls,) + tuple(sorted((k, freeze(x, depth + 1)) for k, x in v.__dict__.items() if k not in ("_cls", "_ci")))
    if isinstance(v, (list, tuple)):
        return tuple(freeze(x, depth + 1) for x in v)
    if isinstance(v, dict):
        return tuple(sorted((repr(k), freeze(x, depth + 1)) for k, x in v.items()))
    return repr(v)


_PURE_TEXT_METHODS = ("count", "startswith", "endswith", "find", "rfind", "index", "split", "rsplit", "partition", "rpartition", "strip", "lstrip", "rstrip", "lower", "upper", "isdigit", "isalnum", "isascii", "decode", "encode", "replace", "splitlines", "removeprefix", "removesuffix")


class Mini:
    def __init__(self, repo: Repo, module: Module, atoms: Optional[dict] = None, cls=None, lenient: bool = False):
        # lenient: a statement whose value lies outside the fragment binds an opaque stand-in instead of aborting (for
        # evaluating one attribute of a constructor that also sets up unrelated state)
        self.lenient = lenient
        self.selfattrs: dict = {}  # attributes of `self` assigned by the evaluated code (shared across helper calls)
        """atoms: normalised expression text -> concrete value (e.g. 'self.min_target_temperature' -> 16)."""
        self.repo, self.module, self.atoms, self.cls = repo, module, atoms or {}, cls
        self.depth = 0

    # -- expressions
    def ev(self, e: ast.expr, env: dict) -> Any:
        t = norm_text(e)
        if isinstance(e, ast.Attribute) and isinstance(e.value, ast.Name) and e.value.id == "self" and isinstance(env.get("self"), FakeObj):
            # a method of a helper object is being evaluated: `self` is that object
            obj = env["self"]
            if e.attr in obj.__dict__:
                return obj.__dict__[e.attr]
            raise Unsupported(f"{t}: the helper object has no attribute {e.attr}")
        if t in self.atoms:
            return self.atoms[t]
        if isinstance(e, ast.Attribute) and t in self.selfattrs:
            return self.selfattrs[t]  # an attribute assigned earlier in the evaluated code (self.x = ...)
        if isinstance(e, ast.Attribute) and t in env:
            return env[t]
        if isinstance(e, ast.Constant):
            return e.value
        if isinstance(e, ast.Name):
            if e.id in env:
                return env[e.id]
            if e.id in _GLOBAL_OBJECTS.get(id(self.repo), {}).get(self.module.name, {}):
                return _GLOBAL_OBJECTS[id(self.repo)][self.module.name][e.id]
            try:
                v = self.repo.fold(self.module, e)
            except NotConst:
                raise Unsupported(f"unknown name {e.id}")
            if isinstance(v, _PLAIN):
                return v
            if type(v).__name__ == "StructVal":
                # a module-level struct.Struct: the standard library's own packer (checker-owned, not code of the package)
                import struct as _struct

                return _struct.Struct(v.fmt)
            if type(v).__name__ == "DCVal" and all(isinstance(x, _PLAIN) for x in v.fields.values()):
                # a module-level dataclass instance is ONE object shared by every reader (mutations and identity are visible)
                obj = FakeObj(v.cls.name, **dict(v.fields))
                _GLOBAL_OBJECTS.setdefault(id(self.repo), {}).setdefault(self.module.name, {})[e.id] = obj
                return obj
            if isinstance(v, (list, tuple)) and all(isinstance(x, _PLAIN) for x in v):
                return list(v) if isinstance(v, list) else tuple(v)
            if isinstance(v, dict) and all(isinstance(k, _PLAIN) and isinstance(x, _PLAIN) for k, x in v.items()):
                return dict(v)
            raise Unsupported(f"name {e.id} is not a plain constant")
        if isinstance(e, ast.Attribute):
            try:
                base = self.ev(e.value, env)
            except Unsupported:
                base = None
            if isinstance(base, FakeObj):
                if e.attr in base.__dict__:
                    return base.__dict__[e.attr]
                raise Unsupported(f"{t}: the stand-in object has no attribute {e.attr}")
            if type(base).__name__ == "Struct" and e.attr in ("size", "format"):
                return getattr(base, e.attr)
            if isinstance(base, EnumVal) and e.attr in ("value", "name"):
                return getattr(base, e.attr)
            try:
                v = self.repo.fold(self.module, e)
            except NotConst:
                raise Unsupported(f"attribute {t} is not an atom")
            if isinstance(v, _PLAIN):
                return v
            raise Unsupported(f"attribute {t} is not a plain constant")
        if isinstance(e, ast.UnaryOp):
            v = self.ev(e.operand, env)
            if isinstance(e.op, ast.Not):
                return not v
            if isinstance(e.op, ast.USub):
                return -v
            if isinstance(e.op, ast.UAdd):
                return +v
            if isinstance(e.op, ast.Invert):
                return ~v
        if isinstance(e, ast.BinOp) and type(e.op) in _BIN:
            return _BIN[type(e.op)](self.ev(e.left, env), self.ev(e.right, env))
        if isinstance(e, ast.BoolOp):
            if isinstance(e.op, ast.And):
                v = True
                for x in e.values:
                    v = self.ev(x, env)
                    if not v:
                        return v
                return v
            v = False
            for x in e.values:
                v = self.ev(x, env)
                if v:
                    return v
            return v
        if isinstance(e, ast.Compare):
            left = self.ev(e.left, env)
            for op, c in zip(e.ops, e.comparators):
                right = self.ev(c, env)
                if type(op) not in _CMP:
                    raise Unsupported(f"comparison {type(op).__name__}")
                if not _CMP[type(op)](left, right):
                    return False
                left = right
            return True
        if isinstance(e, ast.IfExp):
            return self.ev(e.body, env) if self.ev(e.test, env) else self.ev(e.orelse, env)
        if isinstance(e, ast.Dict) and all(k is not None for k in e.keys):
            return {self.ev(k, env): self.ev(v, env) for k, v in zip(e.keys, e.values)}
        if isinstance(e, (ast.Tuple, ast.List)):
            items = []
            for x in e.elts:
                if isinstance(x, ast.Starred):
                    items.extend(self.ev(x.value, env))
                else:
                    items.append(self.ev(x, env))
            return tuple(items) if isinstance(e, ast.Tuple) else items
        if isinstance(e, (ast.ListComp, ast.GeneratorExp, ast.SetComp)) and len(e.generators) == 1 and not e.generators[0].is_async:
            g = e.generators[0]
            out = []
            for item in list(self.ev(g.iter, env)):
                env2 = dict(env)
                self._bind(g.target, item, env2)
                if all(self.ev(c, env2) for c in g.ifs):
                    out.append(self.ev(e.elt, env2))
            return out
        if isinstance(e, ast.DictComp) and len(e.generators) == 1 and not e.generators[0].is_async:
            g = e.generators[0]
            out = {}
            for item in list(self.ev(g.iter, env)):
                env2 = dict(env)
                self._bind(g.target, item, env2)
                if all(self.ev(c, env2) for c in g.ifs):
                    out[self.ev(e.key, env2)] = self.ev(e.value, env2)
            return out
        if isinstance(e, ast.Subscript) and not isinstance(e.slice, ast.Slice):
            base, idx = self.ev(e.value, env), self.ev(e.slice, env)
            try:
                return base[idx]
            except Exception as ex:
                raise Unsupported(f"subscript {t}: {ex}")
        if isinstance(e, ast.Subscript) and isinstance(e.slice, ast.Slice):
            base = self.ev(e.value, env)
            if isinstance(base, (bytes, bytearray, str, list, tuple)):
                lo, hi, st = (self.ev(x, env) if x is not None else None for x in (e.slice.lower, e.slice.upper, e.slice.step))
                if all(x is None or (isinstance(x, int) and not isinstance(x, bool)) for x in (lo, hi, st)):
                    return base[lo:hi:st]
            raise Unsupported(f"slice {t}")
        if isinstance(e, ast.Call):
            d = dotted(e.func) or ""
            if d == "isinstance" and len(e.args) == 2:
                v = self.ev(e.args[0], env)
                ci = self.repo.resolve_class(self.module, e.args[1]) if dotted(e.args[1]) else None
                if isinstance(v, FakeObj) and ci is not None:
                    return v._cls == ci.name
                raise Unsupported(f"isinstance on {t}")
            if d.split(".")[-1] == "deque" and len(e.args) <= 1 and not e.keywords:
                return list(self.ev(e.args[0], env)) if e.args else []
            if d in ("range", "reversed", "list", "tuple", "enumerate", "sorted") and not e.keywords:
                args = [self.ev(a, env) for a in e.args]
                try:
                    r = {"range": range, "reversed": reversed, "list": list, "tuple": tuple, "enumerate": enumerate, "sorted": sorted}[d](*args)
                except Exception as ex:
                    raise Unsupported(f"{d}(): {ex}")
                return list(r) if d != "tuple" else tuple(r)
            if isinstance(e.func, ast.Attribute) and e.func.attr in ("items", "keys", "values", "get") and not e.keywords:
                try:
                    obj = self.ev(e.func.value, env)
                except Unsupported:
                    obj = None
                if isinstance(obj, dict):
                    args = [self.ev(a, env) for a in e.args]
                    r = getattr(obj, e.func.attr)(*args)
                    return list(r) if e.func.attr != "get" else r
            if isinstance(e.func, ast.Attribute) and e.func.attr in ("popleft", "pop", "append", "appendleft", "copy", "clear", "index") and not e.keywords:
                try:
                    obj = self.ev(e.func.value, env)
                except Unsupported:
                    obj = None
                if isinstance(obj, list):
                    args = [self.ev(a, env) for a in e.args]
                    try:
                        if e.func.attr == "popleft":
                            return obj.pop(0)
                        if e.func.attr == "appendleft":
                            obj.insert(0, args[0])
                            return None
                        return getattr(obj, e.func.attr)(*args)
                    except IndexError as ex:
                        raise _PyRaise("IndexError")
            if (self.repo.qual(self.module, e.func) or "") == "datetime.timedelta" and not e.args and all(k.arg in ("days", "hours", "minutes", "seconds") for k in e.keywords):
                import datetime as _dt

                kw = {k.arg: self.ev(k.value, env) for k in e.keywords}
                if all(isinstance(v, (int, float)) and not isinstance(v, bool) for v in kw.values()):
                    return _dt.timedelta(**kw)  # the checker's own value
                raise Unsupported(f"{t}: non-numeric timedelta argument")
            if (self.repo.qual(self.module, e.func) or "") == "datetime.time" and len(e.args) <= 2 and all(k.arg in ("hour", "minute", "second") for k in e.keywords):
                import datetime as _dt

                args = [self.ev(a_, env) for a_ in e.args]
                kw = {k.arg: self.ev(k.value, env) for k in e.keywords}
                if all(isinstance(v, int) and not isinstance(v, bool) for v in list(args) + list(kw.values())):
                    try:
                        return _dt.time(*args, **kw)
                    except ValueError:
                        raise _PyRaise("ValueError")
                raise Unsupported(f"{t}: non-integer time argument")
            if isinstance(e.func, ast.Attribute) and e.func.attr == "total_seconds" and not e.args and not e.keywords:
                import datetime as _dt

                try:
                    obj = self.ev(e.func.value, env)
                except Unsupported:
                    obj = None
                if isinstance(obj, _dt.timedelta):
                    return obj.total_seconds()
            if d in ("bytearray", "bytes", "str") and all(k.arg for k in e.keywords):
                args = [self.ev(a, env) for a in e.args]
                kw = {k.arg: self.ev(k.value, env) for k in e.keywords}
                if all(isinstance(v, (bytes, bytearray, str, int, list, tuple)) and not isinstance(v, bool) for v in list(args) + list(kw.values())):
                    try:
                        return {"bytearray": bytearray, "bytes": bytes, "str": str}[d](*args, **kw)
                    except (ValueError, UnicodeError, TypeError) as ex:
                        raise _PyRaise(type(ex).__name__)
                raise Unsupported(f"{t}: constructor argument outside the fragment")
            if isinstance(e.func, ast.Attribute) and e.func.attr in ("extend", "append") and not e.keywords and len(e.args) == 1:
                try:
                    obj = self.ev(e.func.value, env)
                except Unsupported:
                    obj = None
                if isinstance(obj, bytearray):
                    getattr(obj, e.func.attr)(self.ev(e.args[0], env))  # the checker's own buffer object
                    return None
            if isinstance(e.func, ast.Attribute) and e.func.attr in _PURE_TEXT_METHODS and all(k.arg for k in e.keywords):
                # pure methods of concrete bytes / str values (the checker's own values, nothing of the repository runs)
                try:
                    obj = self.ev(e.func.value, env)
                except Unsupported:
                    obj = None
                if isinstance(obj, (bytes, bytearray, str)):
                    args = [self.ev(a, env) for a in e.args]
                    kw = {k.arg: self.ev(k.value, env) for k in e.keywords}
                    try:
                        r = getattr(obj, e.func.attr)(*args, **kw)
                    except (ValueError, UnicodeError) as ex:
                        raise _PyRaise(type(ex).__name__)
                    except Exception as ex:
                        raise Unsupported(f"{t}: {ex}")
                    return list(r) if isinstance(r, list) else r
            if isinstance(e.func, ast.Attribute) and e.func.attr in ("pack", "unpack", "unpack_from") and not e.keywords:
                try:
                    recv = self.ev(e.func.value, env)
                except Unsupported:
                    recv = None
                if type(recv).__name__ == "Struct":
                    args = []
                    for a in e.args:
                        if isinstance(a, ast.Starred):
                            args.extend(self.ev(a.value, env))
                        else:
                            args.append(self.ev(a, env))
                    try:
                        r = getattr(recv, e.func.attr)(*[bytes(a) if isinstance(a, bytearray) and e.func.attr != "pack" else a for a in args])
                    except Exception as ex:  # struct.error, TypeError: what the running code would raise as well
                        raise _PyRaise(type(ex).__name__)
                    return r
            if d in ("iter",) and len(e.args) == 1 and not e.keywords:
                v = self.ev(e.args[0], env)
                if isinstance(v, FakeObj) and getattr(v, "_ci", None) is not None and "__iter__" in v._ci.methods:
                    return self.call(v._ci.methods["__iter__"], [], {}, 1, self_obj=v)
                if isinstance(v, (list, tuple, range)):
                    return _Cursor(list(v), False)
                raise Unsupported("iter() of a value that is not a constant sequence")
            if (self.repo.qual(self.module, e.func) or "") == "itertools.cycle" and len(e.args) == 1 and not e.keywords:
                v = self.ev(e.args[0], env)
                if isinstance(v, (list, tuple, range)) and len(v) > 0:
                    return _Cursor(list(v), True)
                raise Unsupported("itertools.cycle() of a value that is not a constant sequence")
            if d == "next" and 1 <= len(e.args) <= 2 and not e.keywords:
                v = self.ev(e.args[0], env)
                if isinstance(v, _Cursor):
                    try:
                        return v.next()
                    except StopIteration:
                        if len(e.args) == 2:
                            return self.ev(e.args[1], env)
                        raise _PyRaise("StopIteration")
                if isinstance(v, FakeObj) and getattr(v, "_ci", None) is not None and "__next__" in v._ci.methods:
                    return self.call(v._ci.methods["__next__"], [], {}, 1, self_obj=v)
                raise Unsupported("next() of a value that is not an iterator known to the evaluator")
            if isinstance(e.func, ast.Attribute) and not (isinstance(e.func.value, ast.Name) and e.func.value.id == "self" and not isinstance(env.get("self"), FakeObj)):
                recv = self._try_ev(e.func.value, env)
                if isinstance(recv, FakeObj) and getattr(recv, "_ci", None) is not None and e.func.attr in recv._ci.methods:
                    # method of a helper object
                    return self.call(recv._ci.methods[e.func.attr], [self.ev(a, env) for a in e.args], {k.arg: self.ev(k.value, env) for k in e.keywords}, 1, self_obj=recv)
            if d.split(".")[-1] == "replace" and len(e.args) == 1 and (self.repo.qual(self.module, e.func) or "") == "dataclasses.replace":
                obj = self.ev(e.args[0], env)
                if isinstance(obj, FakeObj):
                    vals = {k: v for k, v in obj.__dict__.items() if k != "_cls"}
                    vals.update({k.arg: self.ev(k.value, env) for k in e.keywords if k.arg})
                    return FakeObj(obj._cls, **vals)  # a NEW object
                raise Unsupported("dataclasses.replace of a non-object")
            if d in _FUN and not e.keywords:
                return _FUN[d](*[self.ev(a, env) for a in e.args])
            if d in _FUN and d == "round" and all(k.arg == "ndigits" for k in e.keywords):
                return round(*[self.ev(a, env) for a in e.args], **{k.arg: self.ev(k.value, env) for k in e.keywords})
            ci = self.repo.resolve_class(self.module, e.func) if d else None
            if ci is not None and ci.is_dataclass and not ci.is_enum():
                names = [n for n, _, _ in ci.fields]
                fields = {}
                for i, a in enumerate(e.args):
                    if i < len(names):
                        fields[names[i]] = self.ev(a, env)
                for k in e.keywords:
                    if k.arg:
                        fields[k.arg] = self.ev(k.value, env)
                    else:
                        extra = self.ev(k.value, env)
                        if not isinstance(extra, dict) or not all(isinstance(x, str) for x in extra):
                            raise Unsupported(f"** of a non-mapping: {t[:60]}")
                        fields.update(extra)
                return FakeObj(ci.name, **fields)
            if ci is not None and not ci.is_dataclass and not ci.is_enum() and ci.module.name == self.module.name and ci.name.startswith("_"):
                # a private helper class of the module: an object with its own attributes, built by running __init__
                obj = FakeObj(ci.name)
                obj.__dict__["_ci"] = ci
                for k, v in ci.attrs.items():
                    try:
                        obj.__dict__[k] = self.ev(v, {})
                    except Unsupported:
                        pass
                if "__init__" in ci.methods:
                    self.call(ci.methods["__init__"], [self.ev(a, env) for a in e.args], {k.arg: self.ev(k.value, env) for k in e.keywords}, 1, self_obj=obj)
                return obj
            # helper of the same module / class: evaluate its body
            fn = None
            if isinstance(e.func, ast.Name) and e.func.id in self.module.functions:
                fn, skip = self.module.functions[e.func.id], 0
            elif isinstance(e.func, ast.Attribute) and isinstance(e.func.value, ast.Name) and e.func.value.id == "self" and self.cls is not None and e.func.attr in self.cls.methods:
                fn, skip = self.cls.methods[e.func.attr], 1
            else:
                s = self.repo.resolve(self.module, e.func) if d else None
                if s is not None and s.kind == "function":
                    sub = Mini(self.repo, s.module, self.atoms)
                    sub.depth = self.depth
                    return sub.call(s.node, [self.ev(a, env) for a in e.args], {k.arg: self.ev(k.value, env) for k in e.keywords}, 0)
            if fn is not None:
                return self.call(fn, [self.ev(a, env) for a in e.args], {k.arg: self.ev(k.value, env) for k in e.keywords}, skip)
        raise Unsupported(f"expression {type(e).__name__}: {t[:60]}")

    def call(self, fn, args: list, kwargs: dict, skip: int, self_obj=None):
        self.depth += 1
        if self.depth > 8:
            raise Unsupported("helper recursion")
        try:
            params = [a.arg for a in fn.args.args][skip:]
            env = dict(zip(params, args))
            env.update(kwargs)
            if self_obj is not None:
                env["self"] = self_obj
            for p, d in zip(params[len(params) - len(fn.args.defaults):], fn.args.defaults):
                if p not in env:
                    env[p] = self.ev(d, {})
            try:
                self.run(fn.body, env)
            except _Return as r:
                return r.value
            return None
        finally:
            self.depth -= 1

    # -- statements
    def run(self, stmts, env: dict, stop: Optional[Callable[[ast.stmt], Optional[ast.expr]]] = None):
        """Executes statements; `stop(stmt)` may return an expression: evaluation stops there and its value is raised as _Stop."""
        for s in stmts:
            if stop is not None:
                e = stop(s)
                if e is not None:
                    raise _Stop(self.ev(e, env))
            if isinstance(s, ast.Expr):
                c = s.value
                # mutations of list-like state (locals or atoms): append / extend / popleft / ... ; other calls (logging) are skipped
                if isinstance(c, ast.Call) and isinstance(c.func, ast.Attribute) and c.func.attr in ("append", "extend", "appendleft", "popleft", "pop", "clear", "remove", "insert") and not c.keywords:
                    try:
                        obj = self.ev(c.func.value, env)
                    except Unsupported:
                        obj = None
                    if isinstance(obj, bytearray) and c.func.attr in ("append", "extend", "clear", "insert"):
                        getattr(obj, c.func.attr)(*[self.ev(a_, env) for a_ in c.args])  # the checker's own buffer object
                    if isinstance(obj, list):
                        args = [self.ev(a_, env) for a_ in c.args]
                        try:
                            if c.func.attr == "appendleft":
                                obj.insert(0, args[0])
                            elif c.func.attr == "popleft":
                                obj.pop(0)
                            else:
                                getattr(obj, c.func.attr)(*args)
                        except IndexError:
                            raise _PyRaise("IndexError")
                        except ValueError:
                            raise _PyRaise("ValueError")
                continue  # logging etc. - no effect on the values
            if isinstance(s, ast.Pass):
                continue
            if isinstance(s, (ast.Assign, ast.AnnAssign)):
                if isinstance(s, ast.AnnAssign) and s.value is None:
                    continue
                try:
                    v = self.ev(s.value, env)
                except Unsupported:
                    if not self.lenient:
                        raise
                    v = FakeObj("<opaque>")
                for t in (s.targets if isinstance(s, ast.Assign) else [s.target]):
                    if isinstance(t, ast.Attribute) and isinstance(t.value, ast.Name) and t.value.id == "self" and isinstance(env.get("self"), FakeObj):
                        env["self"].__dict__[t.attr] = v
                    elif isinstance(t, ast.Attribute) and norm_text(t) in self.atoms:
                        self.atoms[norm_text(t)] = v  # state named as an atom is rebound
                    elif isinstance(t, ast.Attribute) and isinstance(t.value, ast.Name) and t.value.id == "self":
                        self.selfattrs[norm_text(t)] = v
                        env[norm_text(t)] = v
                    elif isinstance(t, ast.Attribute) and isinstance(self._try_ev(t.value, env), FakeObj):
                        self._try_ev(t.value, env).__dict__[t.attr] = v  # attribute store on a stand-in object (in place)
                    else:
                        self._bind(t, v, env)
                continue
            if isinstance(s, ast.AugAssign) and isinstance(s.target, ast.Attribute) and norm_text(s.target) in self.selfattrs and type(s.op) in _BIN:
                k = norm_text(s.target)
                self.selfattrs[k] = _BIN[type(s.op)](self.selfattrs[k], self.ev(s.value, env))
                continue
            if isinstance(s, ast.AugAssign) and isinstance(s.target, ast.Name) and type(s.op) in _BIN:
                cur = env[s.target.id] if s.target.id in env else self.ev(s.target, env)
                val = self.ev(s.value, env)
                env[s.target.id] = (list(cur) + list(val)) if isinstance(cur, list) and isinstance(s.op, ast.Add) else _BIN[type(s.op)](cur, val)
                continue
            if isinstance(s, ast.If):
                self.run(s.body if self.ev(s.test, env) else s.orelse, env, stop)
                continue
            if isinstance(s, (ast.For,)) and not s.orelse:
                try:
                    seq = list(self.ev(s.iter, env))
                except (Unsupported, TypeError):
                    if not self.lenient:
                        raise
                    continue
                for item in seq:
                    self._bind(s.target, item if not isinstance(item, list) else tuple(item) if isinstance(s.target, ast.Tuple) else item, env)
                    try:
                        self.run(s.body, env, stop)
                    except _Break:
                        break
                    except _Continue:
                        continue
                continue
            if isinstance(s, ast.While) and not s.orelse:
                n = 0
                while self.ev(s.test, env):
                    n += 1
                    if n > 64:
                        raise Unsupported("loop does not terminate within 64 iterations")
                    try:
                        self.run(s.body, env, stop)
                    except _Break:
                        break
                    except _Continue:
                        continue
                continue
            if isinstance(s, ast.Delete) and len(s.targets) == 1 and isinstance(s.targets[0], ast.Subscript):
                tgt = s.targets[0]
                base, idx = self.ev(tgt.value, env), self.ev(tgt.slice, env)
                try:
                    del base[idx]
                except Exception as ex:
                    raise Unsupported(f"del: {ex}")
                continue
            if isinstance(s, ast.Try) and not s.finalbody:
                try:
                    self.run(s.body, env, stop)
                except _PyRaise as ex:
                    for h in s.handlers:
                        names = [dotted(x) for x in (h.type.elts if isinstance(h.type, ast.Tuple) else [h.type])] if h.type is not None else ["*"]
                        if "*" in names or ex.name in [(n or "").split(".")[-1] for n in names] or "Exception" in names:
                            self.run(h.body, env, stop)
                            break
                    else:
                        raise
                else:
                    self.run(s.orelse, env, stop)
                continue
            if isinstance(s, ast.Continue):
                raise _Continue()
            if isinstance(s, ast.Break):
                raise _Break()
            if isinstance(s, ast.Return):
                raise _Return(self.ev(s.value, env) if s.value is not None else None)
            if isinstance(s, ast.Raise):
                name = (dotted(s.exc.func if isinstance(s.exc, ast.Call) else s.exc) or "?").split(".")[-1] if s.exc is not None else "?"
                raise _PyRaise(name)
            raise Unsupported(f"statement {type(s).__name__}: {norm_text(s)[:60]}")

    def _try_ev(self, e, env):
        try:
            return self.ev(e, env)
        except Unsupported:
            return None

    def _bind(self, t, v, env):
        if isinstance(t, ast.Name):
            env[t.id] = v
        elif isinstance(t, (ast.Tuple, ast.List)) and isinstance(v, (tuple, list)) and len(v) == len(t.elts) and not any(isinstance(x, ast.Starred) for x in t.elts):
            for tt, vv in zip(t.elts, v):
                self._bind(tt, vv, env)
        elif isinstance(t, (ast.Tuple, ast.List)) and isinstance(v, (tuple, list)) and sum(isinstance(x, ast.Starred) for x in t.elts) == 1 and len(v) >= len(t.elts) - 1:
            k = next(i for i, x in enumerate(t.elts) if isinstance(x, ast.Starred))
            after = len(t.elts) - k - 1
            for tt, vv in zip(t.elts[:k], v[:k]):
                self._bind(tt, vv, env)
            self._bind(t.elts[k].value, list(v[k: len(v) - after]), env)
            for tt, vv in zip(t.elts[k + 1:], v[len(v) - after:] if after else []):
                self._bind(tt, vv, env)
        elif isinstance(t, (ast.Tuple, ast.List)) and isinstance(v, (tuple, list)):
            raise _PyRaise("ValueError")  # wrong number of values to unpack
        else:
            raise Unsupported("assignment target")

    # -- entry points
    def function_value(self, fn, args: dict, skip_self: bool = False):
        """Return value of fn for the given parameter values."""
        env = dict(args)
        try:
            self.run(fn.body, env)
        except _Return as r:
            return r.value
        except _PyRaise as ex:
            return ("raise", ex.name)
        return None

    def value_at(self, fn, args: dict, stop: Callable[[ast.stmt], Optional[ast.expr]]):
        """Runs fn until `stop(stmt)` returns an expression and gives that expression's value there; ('no-stop', None) when not reached."""
        env = dict(args)
        try:
            self.run(fn.body, env, stop)
        except _Stop as s:
            return ("value", s.value)
        except _Return as r:
            return ("returned", r.value)
        except _PyRaise as ex:
            return ("raised", ex.name)
        return ("no-stop", None)
