"""Obligations, verdicts, evidence files, known findings."""
from __future__ import annotations

import ast
import json
import os
import time
from dataclasses import asdict, dataclass, field
from typing import Any, Optional

from .model import AnalysisError, Module, Repo, norm_text

VERIF = os.path.dirname(os.path.dirname(os.path.abspath(__file__)))

HOLDS, VIOLATION, KNOWN = "HOLDS", "VIOLATION", "KNOWN-FINDING"


@dataclass
class Obligation:
    rule: str
    construct: str  # stable, line-free identification of the instance
    verdict: str
    file: str = ""
    line: int = 0
    expected: str = ""
    found: str = ""
    detail: str = ""
    stmt: str = ""  # normalised statement text (for triage keys)

    def key(self) -> tuple:
        return (self.rule, self.file, self.construct)

    def brief(self) -> str:
        loc = f"{self.file}:{self.line}" if self.file else ""
        s = f"[{self.verdict}] {self.rule} {self.construct} @ {loc}"
        if self.verdict != HOLDS:
            s += f" expected: {self.expected} ; found: {self.found}"
        elif self.detail:
            s += f" -- {self.detail}"
        return s


class Ctx:
    """What a rule module gets: the program model plus obligation recording."""

    def __init__(self, repo: Repo, pid: str, tier: str = "quick"):
        self.repo = repo
        self.pid = pid
        self.tier = tier
        self.obligations: list[Obligation] = []
        self.analysed: dict = {"functions": set(), "files": set()}
        self._effects = None

    @property
    def effects(self):
        if self._effects is None:
            from .effects import Effects

            self._effects = Effects(self.repo)
        return self._effects

    # -- recording -----------------------------------------------------
    def _loc(self, module: Optional[Module], node: Optional[ast.AST]):
        f = module.relpath if module is not None else ""
        ln = getattr(node, "lineno", 0) if node is not None else 0
        if module is not None:
            self.analysed["files"].add(f)
        return f, ln

    def holds(self, rule, construct, module=None, node=None, detail=""):
        f, ln = self._loc(module, node)
        self.obligations.append(Obligation(rule, construct, HOLDS, f, ln, detail=detail))

    def violation(self, rule, construct, module=None, node=None, expected="", found="", detail=""):
        f, ln = self._loc(module, node)
        st = norm_text(node)[:200] if isinstance(node, ast.AST) else ""
        self.obligations.append(Obligation(rule, construct, VIOLATION, f, ln, expected, found, detail, st))

    def check(self, ok: bool, rule, construct, module=None, node=None, expected="", found="", detail=""):
        if ok:
            self.holds(rule, construct, module, node, detail or expected)
        else:
            self.violation(rule, construct, module, node, expected, found, detail)
        return ok

    def fn(self, module: Module, qual: str):
        self.analysed["functions"].add(f"{module.name}.{qual}")
        self.analysed["files"].add(module.relpath)
        return module.get_function(qual)

    def require(self, cond, msg):
        if not cond:
            raise AnalysisError(msg)


def load_known() -> list:
    p = os.path.join(VERIF, "known_findings.json")
    if not os.path.exists(p):
        return []
    with open(p) as fh:
        return [f for f in json.load(fh).get("findings", []) if f.get("status") == "known"]


def apply_known(pid: str, obs: list) -> None:
    known = load_known()
    for o in obs:
        if o.verdict != VIOLATION:
            continue
        for k in known:
            if k.get("property") == pid and k.get("rule") == o.rule and k.get("file") == o.file and k.get("construct") == o.construct:
                o.verdict = KNOWN
                o.detail = (o.detail + " | " if o.detail else "") + "listed in known_findings.json: " + k.get("witness", "")
                break


def write_evidence(pid: str, tier: str, level: str, ctx: Optional[Ctx], obs: list, wall: float, extra: dict, floors: dict, assumptions: list, explanation: str, status: str = "ok") -> str:
    seed = int(os.environ.get("VERIF_SEED", "0") or 0)
    viol = [o for o in obs if o.verdict == VIOLATION]
    known = [o for o in obs if o.verdict == KNOWN]
    per_rule: dict = {}
    for o in obs:
        per_rule.setdefault(o.rule, {"instances": 0, "holds": 0, "violations": 0, "known": 0})
        per_rule[o.rule]["instances"] += 1
        per_rule[o.rule][{"HOLDS": "holds", "VIOLATION": "violations", "KNOWN-FINDING": "known"}[o.verdict]] += 1
    for r, fl in floors.items():
        per_rule.setdefault(r, {"instances": 0, "holds": 0, "violations": 0, "known": 0})
        per_rule[r]["floor"] = fl
    distinct = len({(o.rule, o.file, o.construct) for o in obs})
    samples = [asdict(o) for o in (viol + known)[:10]]
    seen_rules = set()
    for o in obs:
        if o.rule not in seen_rules and o.verdict == HOLDS:
            seen_rules.add(o.rule)
            samples.append(asdict(o))
    coverage = {
        "explanation": explanation,
        "evaluations": len(obs),
        "distinct_nontrivial": distinct,
        "rule": "one evaluation = one rule instance (a function, call site, table entry, bit field, CFG path set or folded constant) "
        "checked on /repo's current source; distinct = distinct (rule, file, construct) triples; every instance names a concrete construct, "
        "so all are non-trivial",
        "samples": samples[:40],
        "rules": per_rule,
        "files_analysed": sorted(ctx.analysed["files"]) if ctx else [],
        "functions_analysed": sorted(ctx.analysed["functions"]) if ctx else [],
        "modules_parsed": len(ctx.repo.modules) if ctx else 0,
        "status": status,
    }
    coverage.update(extra or {})
    ev = {
        "property_id": pid,
        "tier": tier,
        "seed": seed,
        "level": level,
        "coverage": coverage,
        "assumptions": assumptions,
        "wall_s": round(wall, 3),
        "violations": len(viol),
        "known_findings": len(known),
    }
    os.makedirs(os.path.join(VERIF, "evidence"), exist_ok=True)
    path = os.path.join(VERIF, "evidence", f"{pid}.json")
    tmp = path + ".tmp"
    with open(tmp, "w") as fh:
        json.dump(ev, fh, indent=1, default=str)
    os.replace(tmp, path)
    return path


def write_replay(pid: str, idx: int, o: Obligation, tier: str) -> str:
    d = os.path.join(VERIF, "evidence", "violations")
    os.makedirs(d, exist_ok=True)
    safe = "".join(ch if ch.isalnum() else "_" for ch in f"{o.rule}_{o.construct}")[:80]
    path = os.path.join(d, f"{pid}_{idx:02d}_{safe}.json")
    with open(path, "w") as fh:
        json.dump(
            {
                "property": pid,
                "tier": tier,
                "rule": o.rule,
                "construct": o.construct,
                "file": o.file,
                "line": o.line,
                "statement": o.stmt,
                "expected": o.expected,
                "found": o.found,
                "detail": o.detail,
                "how_to_replay": f"cd /verif && ./check {pid} quick   # re-analyses /repo's current source; the same construct is reported while it is unchanged",
            },
            fh,
            indent=1,
        )
    return path
