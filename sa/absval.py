"""Constant propagation over abstract values produced by sa/bits.py: given concrete values for the source bits,
evaluate bit vectors, affine maps, guards and guarded alternatives.  Operates on the analysis result only."""
from __future__ import annotations

from fractions import Fraction

from . import bits as B
from .model import AnalysisError


class Undefined(Exception):
    """The value depends on a source that was not assigned."""


def bv_value(v: B.BV, src) -> int:
    out = 0
    for i, b in enumerate(v.bits):
        if b == 1:
            out |= 1 << i
        elif isinstance(b, tuple):
            bit = src(b[1], b[2])
            if bit is None:
                raise Undefined(f"{b[1]}[{b[2]}]")
            out |= (bit & 1) << i
    return out


def cond_value(c, src, repo) -> bool:
    if c == B.TRUE:
        return True
    if c == B.FALSE:
        return False
    k = c[0]
    if k == "bit":
        bit = src(c[1][1], c[1][2])
        if bit is None:
            raise Undefined(str(c[1]))
        return bool(bit) == c[2]
    if k == "not":
        return not cond_value(c[1], src, repo)
    if k == "and":
        return cond_value(c[1], src, repo) and cond_value(c[2], src, repo)
    if k == "or":
        return cond_value(c[1], src, repo) or cond_value(c[2], src, repo)
    if k == "eq":
        return bv_value(c[1], src) == c[2]
    if k == "cmp":
        v = bv_value(c[2], src)
        return {"<": v < c[3], "<=": v <= c[3], ">": v > c[3], ">=": v >= c[3]}[c[1]]
    if k == "lincmp":
        l = c[2]
        v = lin_value(l, src)
        return {"<": v < c[3], "<=": v <= c[3], ">": v > c[3], ">=": v >= c[3], "==": v == c[3], "!=": v != c[3]}[c[1]]
    if k == "in_enum":
        raw = c[2]
        v = bv_value(raw, src) if isinstance(raw, B.BV) else raw.v
        ci = next((x for m in repo.modules.values() for x in m.classes.values() if x.name == c[1] and x.is_enum()), None)
        if ci is None:
            raise AnalysisError(f"enum {c[1]} not found")
        return v in ci.enum_members(repo).values() or ci.has_missing_hook()
    raise Undefined(f"condition {k}")


def lin_value(l: B.Lin, src) -> Fraction:
    if not isinstance(l.raw, B.BV):
        raise Undefined("affine map of a non-bit source")
    return Fraction(bv_value(l.raw, src)) * l.mul + l.add


def concretize(v, src, repo):
    """-> ('none',) | ('raise', exc) | ('int', n) | ('num', Fraction) | ('enum', cls, raw, member|None) | ('bool', b) | ('obj', cls, {...})"""
    if isinstance(v, B.Choice):
        for c, x in v.alts:
            if cond_value(c, src, repo):
                return concretize(x, src, repo)
        return ("none",)
    if isinstance(v, B.Py):
        return ("none",) if v.v is None else ("const", v.v)
    if isinstance(v, B.Raised):
        return ("raise", v.exc)
    if isinstance(v, B.BV):
        return ("int", bv_value(v, src))
    if isinstance(v, B.Lin):
        return ("num", lin_value(v, src))
    if isinstance(v, B.BoolV):
        return ("bool", cond_value(v.cond, src, repo))
    if isinstance(v, B.EnumV):
        raw = bv_value(v.raw, src) if isinstance(v.raw, B.BV) else v.raw.v
        members = v.cls.enum_members(repo)
        name = next((n for n, val in members.items() if val == raw), None)
        if name is None and not v.cls.has_missing_hook():
            return ("raise", "ValueError")
        return ("enum", v.cls.name, raw, name)
    if isinstance(v, B.Obj):
        return ("obj", v.cls, {k: concretize(x, src, repo) for k, x in v.fields.items()})
    raise Undefined(type(v).__name__)
