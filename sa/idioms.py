"""E8b - extractor for the 'deadline loop' idiom used by the heartbeat monitor and the AT4 group-status poll.

    while True:                                       # outer, unconditional
        try:
            async with asyncio.timeout(T0) as t:      # deadline armed on entry of every outer iteration
                while True:                           # inner, unconditional
                    await EV.wait()
                    t.reschedule(NOW + T1)
                    EV.clear()
        except TimeoutError:
            <handler>

The extractor fills the slots from the code; rules then compare the slots with what the property requires.
"""
from __future__ import annotations

import ast
from dataclasses import dataclass, field
from typing import Optional

from .model import AnalysisError, dotted, norm_text, unparse, walk_no_nested
from .q import Fn


@dataclass
class DeadlineLoop:
    fn: Fn
    outer: Optional[ast.While] = None
    try_stmt: Optional[ast.Try] = None
    with_stmt: Optional[ast.AsyncWith] = None
    timeout_call: Optional[ast.Call] = None
    t0: Optional[ast.expr] = None
    tvar: Optional[str] = None
    inner: Optional[ast.While] = None
    wait: Optional[ast.stmt] = None
    event: Optional[str] = None
    reschedule: Optional[ast.Call] = None
    clear: Optional[ast.stmt] = None
    handler: Optional[ast.ExceptHandler] = None
    problems: list = field(default_factory=list)


def _is_true(e) -> bool:
    return isinstance(e, ast.Constant) and e.value is True


def extract(fn: Fn) -> DeadlineLoop:
    dl = DeadlineLoop(fn)
    repo, m = fn.repo, fn.module
    body = [s for s in fn.node.body if not (isinstance(s, ast.Expr) and isinstance(s.value, ast.Constant))]
    outer = next((s for s in body if isinstance(s, ast.While)), None)
    if outer is None:
        dl.problems.append("no outer while loop")
        return dl
    dl.outer = outer
    if not _is_true(outer.test):
        dl.problems.append(f"outer loop condition is `{unparse(outer.test)}`, not True: monitoring can end")
    for x in walk_no_nested(fn.node):
        if isinstance(x, ast.Return) or (isinstance(x, ast.Break) and not _inside(x, dl, "inner_only")):
            pass
    tr = next((s for s in outer.body if isinstance(s, ast.Try)), None)
    if tr is None:
        dl.problems.append("no try statement in the outer loop")
        return dl
    dl.try_stmt = tr
    ws = next((s for s in tr.body if isinstance(s, (ast.AsyncWith, ast.With))), None)
    if ws is None:
        dl.problems.append("the try body does not enter a timeout context")
        return dl
    dl.with_stmt = ws
    item = ws.items[0]
    c = item.context_expr
    if not (isinstance(c, ast.Call) and repo.qual(m, c.func) in ("asyncio.timeout", "asyncio.timeouts.timeout")):
        dl.problems.append(f"context manager is `{unparse(c)}`, not asyncio.timeout(...)")
        return dl
    if not isinstance(ws, ast.AsyncWith):
        dl.problems.append("asyncio.timeout must be entered with `async with`")
    dl.timeout_call = c
    dl.t0 = c.args[0] if c.args else next((k.value for k in c.keywords if k.arg == "delay"), None)
    dl.tvar = item.optional_vars.id if isinstance(item.optional_vars, ast.Name) else None
    inner = next((s for s in ws.body if isinstance(s, ast.While)), None)
    if inner is None:
        dl.problems.append("no inner loop inside the timeout context")
        return dl
    dl.inner = inner
    if not _is_true(inner.test):
        dl.problems.append(f"inner loop condition is `{unparse(inner.test)}`, not True")
    for s in inner.body:
        if isinstance(s, ast.Expr) and isinstance(s.value, ast.Await) and isinstance(s.value.value, ast.Call) and (dotted(s.value.value.func) or "").endswith(".wait"):
            dl.wait = s
            dl.event = ".".join(dotted(s.value.value.func).split(".")[:-1])
        for x in ast.walk(s):
            if isinstance(x, ast.Call) and dl.tvar and dotted(x.func) == f"{dl.tvar}.reschedule":
                dl.reschedule = x
        if isinstance(s, ast.Expr) and isinstance(s.value, ast.Call) and dl.event and dotted(s.value.func) == f"{dl.event}.clear":
            dl.clear = s
    for h in tr.handlers:
        names = [dotted(t) or "" for t in (h.type.elts if isinstance(h.type, ast.Tuple) else [h.type])] if h.type is not None else []
        if any(n.split(".")[-1] == "TimeoutError" for n in names):
            dl.handler = h
    if dl.handler is None:
        dl.problems.append("no `except TimeoutError` handler")
    # no way out of the monitoring: return/break anywhere in the outer loop
    for x in ast.walk(outer):
        if isinstance(x, ast.Return):
            dl.problems.append(f"return at line {x.lineno} ends the monitoring loop")
        if isinstance(x, ast.Break):
            dl.problems.append(f"break at line {x.lineno} leaves a monitoring loop")
    return dl


def _inside(x, dl, what):
    return False


def stmt_index(body, stmt) -> int:
    for i, s in enumerate(body):
        if s is stmt or any(y is stmt for y in ast.walk(s)):
            return i
    return -1
