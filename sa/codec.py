"""Drives the bit-provenance interpreter over a codec class and turns the results into field descriptors."""
from __future__ import annotations

import ast
from dataclasses import dataclass, field
from fractions import Fraction
from typing import Optional

from . import bits as B
from .model import AnalysisError, ClassInfo, Module, Repo, StructVal, dotted, norm_text, unparse


@dataclass
class Desc:
    """Closed-form description of one decoded field / encoded attribute."""

    kind: str  # uint | enum | bool | affine | obj | cases | const | none | opaque | set | dict
    bits: list = field(default_factory=list)  # [(result bit position, source name, source bit)]
    enum: Optional[str] = None
    mul: Optional[Fraction] = None
    add: Optional[Fraction] = None
    const: object = None
    sub: dict = field(default_factory=dict)  # for obj/dict/set
    cases: list = field(default_factory=list)  # [(cond text, Desc)]
    ones: int = 0  # constant one-bits of a uint

    def key(self):
        """Comparable normal form."""
        if self.kind in ("uint", "enum", "bool", "affine"):
            return (self.kind, tuple(self.bits), self.enum, self.mul, self.add, self.ones)
        if self.kind == "const":
            return ("const", repr(self.const))
        if self.kind in ("obj", "dict", "set"):
            return (self.kind, self.enum, tuple(sorted((k, v.key()) for k, v in self.sub.items())))
        if self.kind == "cases":
            return ("cases", tuple((c, d.key()) for c, d in self.cases))
        return (self.kind,)

    def brief(self) -> str:
        if self.kind in ("uint", "enum", "bool", "affine"):
            s = fmt_bits(self.bits)
            extra = f" {self.enum}" if self.enum else ""
            if self.kind == "affine":
                extra += f" *{self.mul}+{self.add}"
            if self.ones:
                extra += f" |0x{self.ones:X}"
            return f"{self.kind}{extra}[{s}]"
        if self.kind == "const":
            return f"const {self.const!r}"
        if self.kind in ("obj", "dict", "set"):
            return f"{self.kind} {self.enum or ''}{{" + ", ".join(f"{k}: {v.brief()}" for k, v in self.sub.items()) + "}"
        if self.kind == "cases":
            return "cases(" + " | ".join(f"{c} => {d.brief()}" for c, d in self.cases) + ")"
        return self.kind


def fmt_bits(bits) -> str:
    """'slot0[7:6]->[1:0]' style rendering of contiguous runs."""
    if not bits:
        return ""
    runs = []
    cur = None
    for pos, name, k in sorted(bits, key=lambda b: (b[1], b[2])):
        if cur and cur[0] == name and cur[2] + 1 == k and cur[4] + 1 == pos:
            cur[2], cur[4] = k, pos
        else:
            if cur:
                runs.append(cur)
            cur = [name, k, k, pos, pos]
    runs.append(cur)
    return ", ".join(f"{n}[{hi}:{lo}]->[{phi}:{plo}]" if hi != lo else f"{n}[{lo}]->[{plo}]" for n, lo, hi, plo, phi in runs)


def cond_text(c) -> str:
    if c == B.TRUE:
        return "else"
    if c[0] == "bit":
        return f"{'' if c[2] else 'not '}{c[1][1]}[{c[1][2]}]"
    if c[0] == "not":
        return f"not({cond_text(c[1])})"
    if c[0] in ("and", "or"):
        return f"({cond_text(c[1])} {c[0]} {cond_text(c[2])})"
    if c[0] == "eq":
        return f"{describe(c[1]).brief()}==0x{c[2]:X}"
    if c[0] == "in_enum":
        return f"{describe(c[2]).brief()} in {c[1]}"
    if c[0] == "lincmp":
        return f"{describe(c[2]).brief()}{c[1]}{float(c[3])}"
    if c[0] == "cmp":
        return f"{describe(c[2]).brief()}{c[1]}{c[3]}"
    return " ".join(str(x) for x in c)


def describe(v) -> Desc:
    if isinstance(v, B.BV):
        if v.is_const():
            return Desc("const", const=v.value())
        return Desc("uint", bits=[(p, n, k) for p, n, k in v.sources()], ones=v.ones())
    if isinstance(v, B.EnumV):
        raw = v.raw
        if isinstance(raw, B.BV) and not raw.is_const():
            return Desc("enum", bits=[(p, n, k) for p, n, k in raw.sources()], enum=v.cls.name, ones=raw.ones())
        if isinstance(raw, B.BV):
            return Desc("const", const=f"{v.cls.name}({raw.value()})")
        return Desc("opaque")
    if isinstance(v, B.BoolV):
        c = v.cond
        if c[0] == "bit" and c[2]:
            return Desc("bool", bits=[(0, c[1][1], c[1][2])])
        if c in (B.TRUE, B.FALSE):
            return Desc("const", const=(c == B.TRUE))
        if c[0] == "truthy":
            return Desc("bool", bits=[(0, c[1], 0)])
        if c[0] == "not" and c[1][0] == "eq" and c[1][2] == 0:
            d = describe(c[1][1])
            return Desc("bool", bits=d.bits, enum="nonzero")
        return Desc("cases", cases=[(cond_text(c), Desc("const", const=True)), ("else", Desc("const", const=False))])
    if isinstance(v, B.Lin):
        raw = v.raw
        if isinstance(raw, B.BV):
            return Desc("affine", bits=[(p, n, k) for p, n, k in raw.sources()], mul=v.mul, add=v.add, ones=raw.ones())
        if isinstance(raw, B.Sym):
            return Desc("affine", bits=[(0, raw.name, 0)], mul=v.mul, add=v.add, enum="trunc" if v.trunc else None)
    if isinstance(v, B.Py):
        return Desc("none") if v.v is None else Desc("const", const=v.v)
    if isinstance(v, B.Obj):
        return Desc("obj", enum=v.cls, sub={k: describe(x) for k, x in v.fields.items()})
    if isinstance(v, B.DictV):
        return Desc("dict", sub={repr(k.v) if isinstance(k, B.Py) else repr(k): describe(x) for k, x in v.items})
    if isinstance(v, B.SetV):
        sub = {}
        for el, c in v.items:
            key = str(el.value()) if isinstance(el, B.BV) and el.is_const() else repr(el)
            sub[key] = describe(B.BoolV(c))
        return Desc("set", sub=sub)
    if isinstance(v, B.Choice):
        return Desc("cases", cases=[(cond_text(c), describe(x)) for c, x in v.alts])
    if isinstance(v, B.Raised):
        return Desc("const", const=f"raise {v.exc}")
    if isinstance(v, B.Sym):
        return Desc("uint", bits=[(0, v.name, 0)], enum="sym")
    if isinstance(v, B.Tup):
        return Desc("obj", enum="tuple", sub={str(i): describe(x) for i, x in enumerate(v.items)})
    return Desc("opaque")


# ----------------------------------------------------------------------------------------------


def _record_calls(repo: Repo, module: Module, stmt: ast.AST):
    """Calls inside stmt constructing a dataclass of this package with >= 2 keyword arguments (the decoded record)."""
    out = []
    for n in ast.walk(stmt):
        if isinstance(n, ast.Call) and dotted(n.func) and (len(n.keywords) >= 2 or any(isinstance(a, ast.Starred) for a in n.args)):
            ci = repo.resolve_class(module, n.func)
            if ci is not None and ci.is_dataclass and ci.name not in ("MessageDecodeResult", "HeaderDecodeResult", "HeaderEncodeResult"):
                out.append((n, ci))
    return out


def _find_body_with(fn, pred):
    """Innermost statement list of fn that directly contains a statement satisfying pred (searching into loops/ifs)."""
    best = None

    def rec(stmts, depth):
        nonlocal best
        if any(pred(s) for s in stmts):
            if best is None or depth >= best[1]:
                best = (stmts, depth)
        for s in stmts:
            for name in ("body", "orelse"):
                sub = getattr(s, name, None)
                if isinstance(sub, list) and sub and isinstance(sub[0], ast.stmt):
                    rec(sub, depth + 1)

    rec(fn.body, 0)
    return best[0] if best else None


def _has_call(stmt, attr_names) -> bool:
    for n in ast.walk(stmt):
        if isinstance(n, ast.Call) and isinstance(n.func, ast.Attribute) and n.func.attr in attr_names:
            return True
    return False


def decoder_fields(repo: Repo, module: Module, clsname: str, method: str = "decode"):
    """-> (record ClassInfo, {field: absval}, problems[list of str], struct or None)"""
    ci = module.get_class(clsname)
    fn = ci.methods.get(method)
    if fn is None:
        raise AnalysisError(f"{module.relpath}: {clsname}.{method} vanished")
    ev = B.Ev(repo, module, ci)
    problems = []

    def direct(s):
        if isinstance(s, (ast.For, ast.While, ast.If, ast.With, ast.Try)):
            return False
        return bool(_record_calls(repo, module, s))

    body = _find_body_with(fn, direct)
    if body is None:
        raise AnalysisError(f"{module.relpath}: {clsname}.{method}: no record construction found")
    # environment: parameters symbolic; loop variables symbolic
    env = {}
    for a in fn.args.args[1:]:
        env[a.arg] = B.Sym(a.arg, repo.resolve_class(module, a.annotation) if a.annotation is not None and dotted(a.annotation) else None)
    for n in ast.walk(fn):
        # loop variables (statement loops and comprehensions, plain or tuple targets) stand for themselves
        tg = n.target if isinstance(n, (ast.For, ast.comprehension)) else None
        if tg is not None:
            for x in ast.walk(tg):
                if isinstance(x, ast.Name):
                    env.setdefault(x.id, B.Sym(x.id))
    # statements before `body` in enclosing lists that are simple assignments (e.g. offsets) are executed best-effort
    record = None
    for s in _linear_prefix(fn, body):
        _exec_best_effort(ev, s, env, module, problems)
    for s in body:
        calls = _record_calls(repo, module, s) if direct(s) else []
        if calls:
            call, rci = calls[0]
            fields = {}
            for k in call.keywords:
                try:
                    fields[k.arg] = ev.ev(k.value, env, module)
                except B.Unsupported as ex:
                    problems.append(f"{k.arg}: {ex}")
            names = [n for n, _, _ in rci.fields]
            pos = []
            for a in call.args:
                try:
                    if isinstance(a, ast.Starred):
                        sv = ev.ev(a.value, env, module)
                        if not isinstance(sv, B.Tup):
                            raise B.Unsupported("* of a non-tuple value")
                        pos.extend(sv.items)
                    else:
                        pos.append(ev.ev(a, env, module))
                except B.Unsupported as ex:
                    problems.append(f"positional argument {len(pos)}: {ex}")
                    pos.append(None)
            for i, a in enumerate(pos):
                if i < len(names) and a is not None:
                    fields[names[i]] = a
            record = (rci, fields)
            break
        _exec_best_effort(ev, s, env, module, problems)
    if record is None:
        raise AnalysisError(f"{module.relpath}: {clsname}.{method}: record construction not reached")
    st = next((n[1] for n in ev.notes if n[0] == "unpack"), None)
    return record[0], record[1], problems, st, ev.notes


def _linear_prefix(fn, body):
    """Simple assignment statements that precede `body` on the way from the function start (enclosing blocks only)."""
    out = []

    def rec(stmts):
        if stmts is body:
            return True
        for i, s in enumerate(stmts):
            for name in ("body", "orelse"):
                sub = getattr(s, name, None)
                if isinstance(sub, list) and sub and isinstance(sub[0], ast.stmt):
                    if rec(sub):
                        pre = [x for x in stmts[:i] if isinstance(x, (ast.Assign, ast.AnnAssign, ast.AugAssign))]
                        out[:0] = pre
                        return True
        return False

    rec(fn.body)
    return out


def _exec_best_effort(ev, s, env, module, problems):
    if isinstance(s, (ast.Assign, ast.AnnAssign, ast.If, ast.AugAssign)):
        saved = dict(env)
        try:
            out = ev.run([s], env, module, B.TRUE)
            if out["returns"]:
                env.clear(); env.update(saved)
        except B.Unsupported as ex:
            env.clear(); env.update(saved)
            for n in ast.walk(s):
                if isinstance(n, ast.Name) and isinstance(n.ctx, ast.Store):
                    env[n.id] = B.Sym(n.id)


def _message_class(repo: Repo, module: Module, ann: ast.expr) -> Optional[ClassInfo]:
    """The non-request message class of an annotation like `XMessage | XRequest`."""
    cands = []

    def rec(a):
        if isinstance(a, ast.BinOp) and isinstance(a.op, ast.BitOr):
            rec(a.left)
            rec(a.right)
        else:
            ci = repo.resolve_class(module, a)
            if ci is not None:
                cands.append(ci)

    rec(ann)
    full = [c for c in cands if c.fields or any(repo.resolve_class(c.module, b) is not None and repo.resolve_class(c.module, b).fields for b in c.bases if dotted(b))]
    return full[0] if full else (cands[0] if cands else None)


def _elem_class(repo: Repo, module: Module, ann: ast.expr) -> Optional[ClassInfo]:
    if isinstance(ann, ast.Subscript) and (dotted(ann.value) or "").split(".")[-1] in ("Sequence", "list", "List"):
        return repo.resolve_class(module, ann.slice)
    return None


def encoder_slots(repo: Repo, module: Module, clsname: str, method: str = "encode", want_fmt: Optional[str] = None):
    """-> (Packed, problems, record var description). Evaluates the per-record struct pack of an encoder."""
    ci = module.get_class(clsname)
    fn = ci.methods.get(method)
    if fn is None:
        raise AnalysisError(f"{module.relpath}: {clsname}.{method} vanished")
    if clsname == "HeaderEncoder" and method == "encode":
        # headers: the bytes as built (possibly from several packs and constant prefixes joined together)
        return header_encoding(repo, module)[0], []
    ev = B.Ev(repo, module, ci)
    problems = []
    def packs_here(stmts):
        best = 0
        for s_ in stmts:
            if isinstance(s_, (ast.For, ast.While, ast.If)):
                continue
            for n_ in ast.walk(s_):
                if isinstance(n_, ast.Call) and isinstance(n_.func, ast.Attribute) and n_.func.attr in ("pack", "pack_into"):
                    st_ = repo.try_fold(module, n_.func.value)
                    if isinstance(st_, StructVal) and (want_fmt is None or st_.fmt == want_fmt):
                        best = max(best, st_.size)
        return best

    cands = []

    def rec(stmts):
        sz = packs_here(stmts)
        if sz:
            cands.append((sz, stmts))
        for s_ in stmts:
            for name in ("body", "orelse"):
                sub = getattr(s_, name, None)
                if isinstance(sub, list) and sub and isinstance(sub[0], ast.stmt):
                    rec(sub)

    rec(fn.body)
    body = max(cands, key=lambda c: c[0])[1] if cands else None
    if body is None:
        # the per-record packing may sit in a helper that is mapped over the records: b"".join(self._enc(r) for r in message.records)
        for n_ in ast.walk(fn):
            if isinstance(n_, (ast.GeneratorExp, ast.ListComp)) and len(n_.generators) == 1 and isinstance(n_.generators[0].target, ast.Name):
                e_ = n_.elt
                if isinstance(e_, ast.Call) and isinstance(e_.func, ast.Attribute) and isinstance(e_.func.value, ast.Name) and e_.func.value.id == "self" and e_.func.attr in ci.methods and len(e_.args) == 1 and isinstance(e_.args[0], ast.Name) and e_.args[0].id == n_.generators[0].target.id and method == "encode":
                    return encoder_slots(repo, module, clsname, e_.func.attr, want_fmt)
        raise AnalysisError(f"{module.relpath}: {clsname}.{method}: no struct pack found")
    params = fn.args.args[1:]
    env = {}
    msg_param = params[-1]
    mci = _message_class(repo, ci.module, msg_param.annotation) if msg_param.annotation is not None else None
    env[msg_param.arg] = B.Sym(msg_param.arg, mci)
    for p in params[:-1]:
        env[p.arg] = B.Sym(p.arg)
    # loop variables typed by the element class of the iterated message field
    for n in ast.walk(fn):
        if isinstance(n, ast.For) and isinstance(n.target, ast.Name) and isinstance(n.iter, ast.Attribute) and isinstance(n.iter.value, ast.Name) and n.iter.value.id == msg_param.arg and mci is not None:
            ec = None
            for fname, ann, _ in ev._all_fields(mci):
                if fname == n.iter.attr:
                    ec = _elem_class(repo, mci.module, ann)
            env[n.target.id] = B.Sym(n.target.id, ec)
    for s in _linear_prefix(fn, body):
        _exec_best_effort(ev, s, env, module, problems)
    packed = None
    for s in body:
        if _has_call(s, ("pack", "pack_into")) and not isinstance(s, (ast.For, ast.While, ast.If)):
            for n in ast.walk(s):
                if isinstance(n, ast.Call) and isinstance(n.func, ast.Attribute) and n.func.attr == "pack":
                    st = ev.const(module, n.func.value)
                    if isinstance(st, StructVal) and (want_fmt is None or st.fmt == want_fmt) and packed is None:
                        args = []
                        for a in n.args:
                            try:
                                args.append(ev.ev(a, env, module))
                            except B.Unsupported as ex:
                                problems.append(f"pack arg {norm_text(a)[:40]}: {ex}")
                                args.append(None)
                        packed = B.Packed(st, args)
            if packed is not None:
                break
        if isinstance(s, (ast.Assign, ast.AnnAssign, ast.AugAssign)) or (isinstance(s, ast.If) and not _has_call(s, ("pack", "pack_into")) and not any(isinstance(x, (ast.Return, ast.Raise)) for x in ast.walk(s))):
            try:
                ev.run([s], env, module, B.TRUE)
            except B.Unsupported as ex:
                problems.append(f"{norm_text(s)[:50]}: {ex}")
                for n in ast.walk(s):
                    if isinstance(n, ast.Name) and isinstance(n.ctx, ast.Store):
                        env[n.id] = None
    if packed is None:
        raise AnalysisError(f"{module.relpath}: {clsname}.{method}: pack call not evaluated")
    return packed, problems


# ------------------------------------------------------------------------------------------ header encoders: bytes as built
def flatten_bytes(v) -> B.Packed:
    """One virtual Packed for a byte string built from struct packs and constant bytes joined with `+` (standard-size big-endian
    formats have no alignment, so the concatenation of two packs is the pack of the concatenated formats)."""
    if isinstance(v, B.Packed):
        return v
    parts = v.parts if isinstance(v, B.Cat) else [v]
    fmt, args = "", []
    for p in parts:
        if isinstance(p, B.Packed):
            f = p.struct.fmt
            if not f or f[0] not in "!>":
                raise AnalysisError(f"struct format {f!r} is not big-endian standard size: concatenation not modelled")
            fmt += f[1:]
            args += list(p.args)
        elif isinstance(p, B.Py) and isinstance(p.v, (bytes, bytearray)):
            fmt += f"{len(p.v)}s"
            args.append(B.Py(bytes(p.v)))
        else:
            raise AnalysisError(f"byte string part {type(p).__name__} is not a struct pack or constant bytes")
    return B.Packed(StructVal("!" + fmt), args)


def byte_descr(v) -> list:
    """Per byte of a built byte string: a tuple of its 8 bit sources (0 | 1 | (name, k)), or a tag for values outside the bit domain."""
    if isinstance(v, B.Span):
        return byte_descr(v.base)[v.lo:v.hi]
    if isinstance(v, B.Cat):
        out = []
        for p in v.parts:
            out += byte_descr(p)
        return out
    if isinstance(v, B.Py) and isinstance(v.v, (bytes, bytearray)):
        return [tuple((b >> k) & 1 for k in range(8)) for b in v.v]
    if isinstance(v, B.Packed):
        st = v.struct
        out = [tuple([0] * 8) for _ in range(st.size)]
        for sl, a in zip(st.slots, v.args):
            if isinstance(a, B.Py) and isinstance(a.v, (bytes, bytearray)):
                for i in range(sl.size):
                    by = a.v[i] if i < len(a.v) else 0
                    out[sl.offset + i] = tuple((by >> k) & 1 for k in range(8))
            elif isinstance(a, B.BV):
                for j in range(sl.size):
                    idx = j if st.byteorder == "little" else sl.size - 1 - j
                    out[sl.offset + idx] = tuple(a.bit(8 * j + k) for k in range(8))
            else:
                for j in range(sl.size):
                    out[sl.offset + j] = ("value", repr(a), j)
        return out
    if isinstance(v, B.Sym):
        return [("opaque", v.name)]
    raise AnalysisError(f"byte layout of {type(v).__name__} is not modelled")


def header_encoding(repo: Repo, module: Module):
    """(header bytes as one Packed, byte descriptors of header_bytes, byte descriptors of checksum_data) of HeaderEncoder.encode,
    evaluated in the bit domain - however many struct packs and concatenations build the header."""
    ci = module.get_class("HeaderEncoder")
    fn = ci.methods.get("encode") if ci else None
    if fn is None or len(fn.args.args) != 2:
        raise AnalysisError(f"{module.relpath}: HeaderEncoder.encode(self, header) vanished")
    hp = fn.args.args[1]
    hci = repo.resolve_class(module, hp.annotation) if hp.annotation is not None else None
    ev = B.Ev(repo, module, ci)
    try:
        res = ev.invoke(fn, module, [B.Sym(hp.arg, hci)], {}, skip_self=True)
    except B.Unsupported as ex:
        raise AnalysisError(f"{module.relpath}: HeaderEncoder.encode left the bit domain: {ex}")
    if not (isinstance(res, B.Obj) and "header_bytes" in res.fields and "checksum_data" in res.fields):
        raise AnalysisError(f"{module.relpath}: HeaderEncoder.encode does not return one HeaderEncodeResult(header_bytes=, checksum_data=)")
    hb, cd = res.fields["header_bytes"], res.fields["checksum_data"]
    return flatten_bytes(hb), byte_descr(hb), byte_descr(cd)
