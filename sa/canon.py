"""Canonicalisation of a parsed module before any rule looks at it.

Rules are written against the *roles* the pinned tree gives to its private names (`_message_queue`, `_heartbeat_tasks`,
`_drain_message_queue` ...).  A maintainer may rename such a name, extract a block into a new private helper, or write a
test in an equivalent form; none of that changes behaviour, so none of it may change a verdict.  This module therefore
rewrites the AST - semantics-preservingly - into the vocabulary the rules know:

1. rename detection: a private name of the reference census (sa/spec/reference_symbols.json, generated from the clean tree)
   that vanished is matched with a new private name of the same scope by the similarity of their usage contexts (the way
   `git` detects renames); an unambiguous match is renamed back.  Ambiguity leaves the tree alone.
2. helper inlining: a private function/method that the reference does not know is inlined at its call sites when that is
   possible without changing evaluation order (expression functions; procedures called as a statement / assignment / return).
3. small expression normal forms (len() tests, constant-on-the-left comparisons, negated comparisons).

Positions (lineno/col) of the original nodes are kept, so reports still point at the real source.
"""
from __future__ import annotations

import ast
import copy
import json
import os
from typing import Optional

_REF = None


def reference():
    global _REF
    if _REF is None:
        p = os.path.join(os.path.dirname(os.path.abspath(__file__)), "spec", "reference_symbols.json")
        try:
            _REF = json.load(open(p, encoding="utf-8"))
        except OSError:
            _REF = {}
    return _REF


def _dotted(node):
    parts = []
    while isinstance(node, ast.Attribute):
        parts.append(node.attr)
        node = node.value
    if isinstance(node, ast.Name):
        parts.append(node.id)
        return ".".join(reversed(parts))
    return None


def _is_private(name: str) -> bool:
    return name.startswith("_") and not (name.startswith("__") and name.endswith("__"))


# ---------------------------------------------------------------------------------------------- census / features
def _value_kind(v: Optional[ast.AST]) -> str:
    if v is None:
        return "none"
    if isinstance(v, ast.Constant):
        return f"const:{type(v.value).__name__}"
    if isinstance(v, (ast.List, ast.ListComp)):
        return "list"
    if isinstance(v, (ast.Dict, ast.DictComp)):
        return "dict"
    if isinstance(v, (ast.Set, ast.SetComp)):
        return "set"
    if isinstance(v, ast.Call):
        d = _dotted(v.func) or "?"
        return "call:" + d.split(".")[-1]
    if isinstance(v, ast.Name):
        return "name"
    if isinstance(v, ast.Attribute):
        return "attr"
    return type(v).__name__


class _Census(ast.NodeVisitor):
    """Collects, per scope (module / class), the private names and a bag of usage-context tokens for each."""

    def __init__(self, tree: ast.Module):
        self.mod_names: dict[str, set] = {}  # module-level names (functions, constants, classes) -> tokens
        self.mod_kinds: dict[str, str] = {}
        self.classes: dict[str, dict] = {}
        self._collect(tree)

    def _tok_add(self, bag: dict, name: str, tok: str):
        bag.setdefault(name, set()).add(tok)

    def _collect(self, tree):
        for st in tree.body:
            if isinstance(st, (ast.FunctionDef, ast.AsyncFunctionDef)):
                self.mod_kinds[st.name] = "func"
                self.mod_names.setdefault(st.name, set()).update(self._fn_tokens(st))
            elif isinstance(st, ast.ClassDef):
                self.mod_kinds[st.name] = "class"
                self.mod_names.setdefault(st.name, set())
                self.classes[st.name] = self._class(st)
            elif isinstance(st, (ast.Assign, ast.AnnAssign)):
                tg = st.targets if isinstance(st, ast.Assign) else [st.target]
                for t in tg:
                    if isinstance(t, ast.Name):
                        self.mod_kinds[t.id] = "const"
                        self.mod_names.setdefault(t.id, set()).add("def:" + _value_kind(st.value))
        # uses of module-level names inside functions / classes
        for st in tree.body:
            owner = getattr(st, "name", None)
            for n in ast.walk(st):
                if isinstance(n, ast.Name) and n.id in self.mod_names and not (isinstance(st, (ast.Assign, ast.AnnAssign)) and isinstance(n.ctx, ast.Store)):
                    ctx_fn = self._enclosing(st, n)
                    self.mod_names[n.id].add(f"use:{ctx_fn}")

    def _enclosing(self, top, node) -> str:
        # name of the innermost function/class chain containing node (cheap: search)
        path = []

        def rec(cur, acc):
            if cur is node:
                path.extend(acc)
                return True
            for ch in ast.iter_child_nodes(cur):
                nxt = acc + [cur.name] if isinstance(cur, (ast.FunctionDef, ast.AsyncFunctionDef, ast.ClassDef)) else acc
                if rec(ch, nxt):
                    return True
            return False

        rec(top, [])
        return ".".join(path) or "<module>"

    def _fn_tokens(self, fn) -> set:
        toks = {"async" if isinstance(fn, ast.AsyncFunctionDef) else "sync", f"params:{len(fn.args.args) + len(fn.args.kwonlyargs)}"}
        for n in ast.walk(fn):
            if isinstance(n, ast.Call):
                d = _dotted(n.func)
                if d:
                    toks.add("calls:" + d)
            elif isinstance(n, ast.Attribute) and isinstance(n.value, ast.Name) and n.value.id in ("self", "cls"):
                toks.add("attr:" + n.attr)
            elif isinstance(n, ast.Raise) and n.exc is not None:
                d = _dotted(n.exc.func if isinstance(n.exc, ast.Call) else n.exc)
                if d:
                    toks.add("raises:" + d)
            elif isinstance(n, ast.Await):
                toks.add("awaits")
        return toks

    def _class(self, cls: ast.ClassDef) -> dict:
        methods, attrs, kinds = {}, {}, {}
        for st in cls.body:
            if isinstance(st, (ast.FunctionDef, ast.AsyncFunctionDef)):
                methods.setdefault(st.name, set()).update(self._fn_tokens(st))
            elif isinstance(st, (ast.Assign, ast.AnnAssign)):
                tg = st.targets if isinstance(st, ast.Assign) else [st.target]
                for t in tg:
                    if isinstance(t, ast.Name):
                        attrs.setdefault(t.id, set()).add("classdef:" + _value_kind(st.value))
        for st in cls.body:
            if not isinstance(st, (ast.FunctionDef, ast.AsyncFunctionDef)):
                continue
            parents = {}
            for p in ast.walk(st):
                for ch in ast.iter_child_nodes(p):
                    parents[id(ch)] = p
            for n in ast.walk(st):
                if not (isinstance(n, ast.Attribute) and isinstance(n.value, ast.Name) and n.value.id in ("self", "cls", cls.name)):
                    continue
                par = parents.get(id(n))
                name = n.attr
                if isinstance(par, ast.Call) and par.func is n:
                    # method call self.name(...)
                    methods.setdefault(name, set()) if name in methods else None
                    if name in methods:
                        methods[name].add(f"calledby:{st.name}")
                        continue
                    tok = "invoke"
                elif isinstance(n.ctx, ast.Store):
                    v = par.value if isinstance(par, (ast.Assign, ast.AnnAssign, ast.AugAssign)) else None
                    tok = "store:" + _value_kind(v)
                elif isinstance(n.ctx, ast.Del):
                    tok = "del"
                elif isinstance(par, ast.Attribute) and par.value is n:
                    gp = parents.get(id(par))
                    tok = ("call." if isinstance(gp, ast.Call) and gp.func is par else "get.") + par.attr
                elif isinstance(par, ast.Call):
                    tok = "arg:" + ((_dotted(par.func) or "?").split(".")[-1])
                elif isinstance(par, (ast.If, ast.While, ast.BoolOp, ast.UnaryOp, ast.IfExp)):
                    tok = "test"
                elif isinstance(par, ast.Subscript):
                    tok = "subscript"
                elif isinstance(par, (ast.For, ast.AsyncFor, ast.comprehension)):
                    tok = "iter"
                elif isinstance(par, ast.Compare):
                    tok = "compare"
                elif isinstance(par, ast.Await):
                    tok = "await"
                elif isinstance(par, ast.Return):
                    tok = "return"
                else:
                    tok = "load"
                if name in methods and not isinstance(n.ctx, ast.Store):
                    methods[name].add(f"ref:{st.name}:{tok}")
                else:
                    attrs.setdefault(name, set()).add(f"{st.name}:{tok}")
        return {"methods": methods, "attrs": attrs}


def import_table(tree: ast.Module, modname: str = "", is_package: bool = False) -> dict:
    """local name -> fully qualified target, for the module-level import statements"""
    out = {}
    for stmt in tree.body:
        if isinstance(stmt, ast.Import):
            for a in stmt.names:
                if a.asname:
                    out[a.asname] = a.name
                else:
                    out[a.name.split(".")[0]] = a.name.split(".")[0]
        elif isinstance(stmt, ast.ImportFrom):
            base = stmt.module or ""
            if stmt.level:
                pkg = (modname if is_package else modname.rsplit(".", 1)[0]).split(".")
                pkg = pkg[: len(pkg) - (stmt.level - 1)]
                base = ".".join(pkg + ([stmt.module] if stmt.module else []))
            for a in stmt.names:
                out[a.asname or a.name] = f"{base}.{a.name}"
    return out


def census(tree: ast.Module, modname: str = "", is_package: bool = False) -> dict:
    c = _Census(tree)
    return {
        "imports": import_table(tree, modname, is_package),
        "names": {k: sorted(v) for k, v in c.mod_names.items()},
        "kinds": c.mod_kinds,
        "classes": {cn: {"methods": {k: sorted(v) for k, v in d["methods"].items()}, "attrs": {k: sorted(v) for k, v in d["attrs"].items()}} for cn, d in c.classes.items()},
    }


# ---------------------------------------------------------------------------------------------- rename detection
def _mask(tokens, stable: set, mapping: dict) -> set:
    """Tokens mention names; private names that are not stable are masked so that simultaneous renames do not hide each other.
    Every contextual token `<method>:<use>` also contributes its context-free form `*:<use>` (a helper may have been inlined)."""
    out = set()

    def atom(a):
        q = mapping.get(a, a)
        return "_?" if _is_private(q) and q not in stable else q

    for t in tokens:
        pieces = t.split(":")
        masked = [".".join(atom(a) for a in p.split(".")) for p in pieces]
        out.add(":".join(masked))
        if len(masked) >= 2 and masked[0] not in ("calls", "attr", "raises", "params", "def", "use", "classdef", "calledby", "ref"):
            out.add("*:" + ":".join(masked[1:]))
    return out


def _match(ref_bags: dict, cur_bags: dict, all_ref: set, all_cur: set, mapping: dict, floor: float = 0.45, margin: float = 0.12) -> dict:
    """ref_bags/cur_bags: name -> tokens, restricted to vanished / new names. Returns cur_name -> ref_name."""
    stable = (all_ref & all_cur) | set(mapping.values())
    scores = []
    for rn, rt in ref_bags.items():
        a = _mask(rt, stable, {})
        for cn, ct in cur_bags.items():
            b = _mask(ct, stable, mapping)
            if not a or not b:
                continue
            j = len(a & b) / len(a | b)
            scores.append((j, rn, cn))
    scores.sort(reverse=True)
    out, used_r, used_c = {}, set(), set()
    for j, rn, cn in scores:
        if j < floor or rn in used_r or cn in used_c:
            continue
        # margin against the best competing candidate for either side
        rivals = [s for s, r2, c2 in scores if (r2 == rn) != (c2 == cn) and r2 not in used_r and c2 not in used_c]
        if rivals and max(rivals) > j - margin:
            continue
        out[cn] = rn
        used_r.add(rn)
        used_c.add(cn)
    return out


def detect_renames(cur: dict, ref: dict) -> dict:
    """Returns {"module": {cur: ref}, "classes": {cls: {"methods": {...}, "attrs": {...}}}} for private names only."""
    res = {"module": {}, "classes": {}}
    for _round in range(2):
        # module level
        rn, cn = ref.get("names", {}), cur.get("names", {})
        van = {k: set(v) for k, v in rn.items() if k not in cn and _is_private(k) and ref["kinds"].get(k) != "class"}
        new = {k: set(v) for k, v in cn.items() if k not in rn and _is_private(k) and cur["kinds"].get(k) != "class"}
        # same kind only
        for kind in ("func", "const"):
            m = _match({k: v for k, v in van.items() if ref["kinds"].get(k) == kind}, {k: v for k, v in new.items() if cur["kinds"].get(k) == kind and k not in res["module"]}, set(rn), set(cn), res["module"])
            res["module"].update(m)
        for cls, rc in ref.get("classes", {}).items():
            cc = cur.get("classes", {}).get(cls)
            if cc is None:
                continue
            slot = res["classes"].setdefault(cls, {"methods": {}, "attrs": {}})
            both = dict(slot["methods"])
            both.update(slot["attrs"])
            all_ref = set(rc["methods"]) | set(rc["attrs"])
            all_cur = set(cc["methods"]) | set(cc["attrs"])
            for kind in ("methods", "attrs"):
                van = {k: set(v) for k, v in rc[kind].items() if k not in cc[kind] and _is_private(k) and k not in slot[kind].values()}
                new = {k: set(v) for k, v in cc[kind].items() if k not in rc[kind] and _is_private(k) and k not in slot[kind]}
                # a name that moved kind (attr <-> method) is not a rename
                van = {k: v for k, v in van.items() if k not in all_cur}
                new = {k: v for k, v in new.items() if k not in all_ref}
                m = _match(van, new, all_ref, all_cur, both)
                slot[kind].update(m)
                both.update(m)
    return res


class _Renamer(ast.NodeTransformer):
    def __init__(self, ren: dict):
        self.ren = ren
        self.cls_stack = []
        self.applied = []

    def visit_ClassDef(self, node):
        self.cls_stack.append(node.name)
        self.generic_visit(node)
        self.cls_stack.pop()
        return node

    def _cls_map(self):
        if not self.cls_stack:
            return {}
        slot = self.ren["classes"].get(self.cls_stack[0], {})
        m = dict(slot.get("methods", {}))
        m.update(slot.get("attrs", {}))
        return m

    def visit_FunctionDef(self, node):
        if len(self.cls_stack) == 1 and not getattr(self, "_in_fn", 0):
            m = self.ren["classes"].get(self.cls_stack[0], {}).get("methods", {})
            if node.name in m:
                self.applied.append((f"{self.cls_stack[0]}.{node.name}", m[node.name]))
                node.name = m[node.name]
        elif not self.cls_stack and not getattr(self, "_in_fn", 0) and node.name in self.ren["module"]:
            self.applied.append((node.name, self.ren["module"][node.name]))
            node.name = self.ren["module"][node.name]
        self._in_fn = getattr(self, "_in_fn", 0) + 1
        self.generic_visit(node)
        self._in_fn -= 1
        return node

    visit_AsyncFunctionDef = visit_FunctionDef

    def visit_Attribute(self, node):
        self.generic_visit(node)
        if isinstance(node.value, ast.Name):
            if self.cls_stack and node.value.id in ("self", "cls", self.cls_stack[0]):
                m = self._cls_map()
                if node.attr in m:
                    node.attr = m[node.attr]
            elif node.value.id in self.ren["classes"]:
                slot = self.ren["classes"][node.value.id]
                m = dict(slot.get("methods", {}))
                m.update(slot.get("attrs", {}))
                if node.attr in m:
                    node.attr = m[node.attr]
        return node

    def visit_Name(self, node):
        if node.id in self.ren["module"]:
            node.id = self.ren["module"][node.id]
        return node


# ---------------------------------------------------------------------------------------------- moved definitions
def _self_used(fn) -> bool:
    return any(isinstance(x, ast.Name) and x.id == "self" for b in fn.body for x in ast.walk(b))


def move_back(tree: ast.Module, ref: dict, notes: list) -> ast.Module:
    """A private method that became a module-level function of the same name (or the reverse, also as a staticmethod) is put
    back where the reference has it; calls are re-spelled (`f(x)` <-> `self.f(x)`). Only when the moved body does not use `self`."""
    mod_funcs = {st.name: st for st in tree.body if isinstance(st, (ast.FunctionDef, ast.AsyncFunctionDef))}
    classes = {st.name: st for st in tree.body if isinstance(st, ast.ClassDef)}
    # (0) moved *and* renamed: the class lacks exactly one private method of the reference, and exactly one private module-level
    # function the reference does not know is used by that class only and has the missing method's parameter count: it is that method
    for cname, rc in ref.get("classes", {}).items():
        cls = classes.get(cname)
        if cls is None:
            continue
        have = {m.name for m in cls.body if isinstance(m, (ast.FunctionDef, ast.AsyncFunctionDef))}
        missing = [mn for mn in rc["methods"] if _is_private(mn) and not mn.startswith("__") and mn not in have and mn not in mod_funcs and mn not in ref.get("names", {})]
        fresh = [f for n_, f in mod_funcs.items() if _is_private(n_) and n_ not in ref.get("names", {}) and not (f.args.args and f.args.args[0].arg in ("self", "cls"))]
        if len(missing) != 1 or not fresh:
            continue
        mname = missing[0]
        cands = []
        for f in fresh:
            users = [c for c in classes.values() if any(isinstance(x, ast.Name) and x.id == f.name for x in ast.walk(c))]
            outside = any(isinstance(x, ast.Name) and x.id == f.name for st in tree.body if not isinstance(st, ast.ClassDef) and st is not f for x in ast.walk(st))
            same_kind = ("async" in rc["methods"][mname]) == isinstance(f, ast.AsyncFunctionDef) if any(t in ("async", "sync") for t in rc["methods"][mname]) else True
            if users == [cls] and not outside and "params:%d" % (len(f.args.args) + len(f.args.kwonlyargs) + 1) in rc["methods"][mname] and same_kind:
                cands.append(f)
        if len(cands) != 1:
            continue
        f = cands[0]
        old_name = f.name

        class R0(ast.NodeTransformer):
            def visit_Name(s2, node):
                if node.id == old_name:
                    node.id = mname
                return node

        R0().visit(tree)
        f.name = mname
        mod_funcs[mname] = mod_funcs.pop(old_name)
        notes.append(f"{old_name} is {cname}.{mname} moved to module level under a new name")
    # (1) method in the reference, module-level function now
    for cname, rc in ref.get("classes", {}).items():
        cls = classes.get(cname)
        if cls is None:
            continue
        have = {m.name for m in cls.body if isinstance(m, (ast.FunctionDef, ast.AsyncFunctionDef))}
        for mname in rc["methods"]:
            if not _is_private(mname) or mname in have or mname in ref.get("names", {}):
                continue
            fn = mod_funcs.get(mname)
            if fn is None or (fn.args.args and fn.args.args[0].arg in ("self", "cls")):
                continue
            users = [c for c in classes.values() if any(isinstance(x, ast.Call) and isinstance(x.func, ast.Name) and x.func.id == mname for x in ast.walk(c))]
            outside = any(isinstance(x, ast.Name) and x.id == mname for st in tree.body if not isinstance(st, ast.ClassDef) and st is not fn for x in ast.walk(st))
            if users != [cls] or outside:
                continue
            tree.body.remove(fn)
            fn.args.args.insert(0, ast.arg(arg="self"))
            cls.body.append(fn)

            class R(ast.NodeTransformer):
                def visit_Name(s2, node):
                    if node.id == mname and isinstance(node.ctx, ast.Load):
                        return ast.copy_location(ast.Attribute(value=ast.Name(id="self", ctx=ast.Load()), attr=mname, ctx=ast.Load()), node)
                    return node

            for m in cls.body:
                if isinstance(m, (ast.FunctionDef, ast.AsyncFunctionDef)) and m is not fn:
                    R().visit(m)
            notes.append(f"moved {mname} back into {cname}")
            mod_funcs.pop(mname, None)
    # (2) module-level function in the reference, (static)method now
    for fname, kind in ref.get("kinds", {}).items():
        if kind != "func" or not _is_private(fname) or fname in mod_funcs:
            continue
        holders = [(c, m) for c in classes.values() for m in c.body if isinstance(m, (ast.FunctionDef, ast.AsyncFunctionDef)) and m.name == fname]
        if len(holders) != 1:
            continue
        cls, fn = holders[0]
        if fname in ref.get("classes", {}).get(cls.name, {}).get("methods", {}):
            continue
        is_static = any(_dotted(d) == "staticmethod" for d in fn.decorator_list)
        if not is_static:
            if not fn.args.args or fn.args.args[0].arg != "self" or _self_used(fn):
                continue
            fn.args.args.pop(0)
        fn.decorator_list = [d for d in fn.decorator_list if _dotted(d) != "staticmethod"]
        cls.body.remove(fn)
        if not cls.body:
            cls.body.append(ast.Pass())
        tree.body.insert(tree.body.index(cls), fn)

        class R2(ast.NodeTransformer):
            def visit_Attribute(s2, node):
                s2.generic_visit(node)
                if node.attr == fname and isinstance(node.value, ast.Name) and node.value.id in ("self", "cls", cls.name) and isinstance(node.ctx, ast.Load):
                    return ast.copy_location(ast.Name(id=fname, ctx=ast.Load()), node)
                return node

        R2().visit(tree)
        notes.append(f"moved {cls.name}.{fname} back to module level")
    # (3) staticmethod-ised private methods: `@staticmethod def _m(a)` that the reference has as a plain method -> plain method
    for cname, rc in ref.get("classes", {}).items():
        cls = classes.get(cname)
        if cls is None:
            continue
        for m in cls.body:
            if isinstance(m, (ast.FunctionDef, ast.AsyncFunctionDef)) and m.name in rc["methods"] and _is_private(m.name) and any(_dotted(d) == "staticmethod" for d in m.decorator_list):
                if "params:%d" % (len(m.args.args) + len(m.args.kwonlyargs) + 1) in rc["methods"][m.name]:
                    m.decorator_list = [d for d in m.decorator_list if _dotted(d) != "staticmethod"]
                    m.args.args.insert(0, ast.arg(arg="self"))
                    notes.append(f"{cname}.{m.name}: staticmethod -> method")
    ast.fix_missing_locations(tree)
    return tree


# ---------------------------------------------------------------------------------------------- helper inlining
def _strip_doc(body):
    if body and isinstance(body[0], ast.Expr) and isinstance(body[0].value, ast.Constant) and isinstance(body[0].value.value, str):
        return body[1:]
    return body


def _simple_params(fn, is_method: bool):
    a = fn.args
    if a.vararg or a.kwarg or a.posonlyargs:
        return None
    params = [x.arg for x in a.args]
    if is_method:
        if not params or params[0] not in ("self", "cls"):
            return None
        params = params[1:]
    return params, [x.arg for x in a.kwonlyargs], a


def _bind(fn, call: ast.Call, is_method: bool):
    sp = _simple_params(fn, is_method)
    if sp is None:
        return None
    params, kwonly, a = sp
    if any(isinstance(x, ast.Starred) for x in call.args) or any(k.arg is None for k in call.keywords):
        return None
    if len(call.args) > len(params):
        return None
    env = {}
    for p, v in zip(params, call.args):
        env[p] = v
    for k in call.keywords:
        if k.arg in env or k.arg not in params + kwonly:
            return None
        env[k.arg] = k.value
    # defaults
    defaults = dict(zip(params[len(params) - len(a.defaults):], a.defaults))
    for p in params:
        if p not in env:
            if p not in defaults:
                return None
            env[p] = defaults[p]
    for p, d in zip(kwonly, a.kw_defaults):
        if p not in env:
            if d is None:
                return None
            env[p] = d
    return env


def _is_simple_expr(e) -> bool:
    return isinstance(e, (ast.Name, ast.Constant)) or (isinstance(e, ast.Attribute) and _is_simple_expr(e.value))


def _pure_arith(e) -> bool:
    """names, constants, attribute chains (of names) and arithmetic / bit operators over them: no calls, no subscripts"""
    if _is_simple_expr(e):
        return True
    if isinstance(e, ast.BinOp) and isinstance(e.op, (ast.Add, ast.Sub, ast.Mult, ast.LShift, ast.RShift, ast.BitAnd, ast.BitOr, ast.BitXor)):
        return _pure_arith(e.left) and _pure_arith(e.right)
    if isinstance(e, ast.UnaryOp) and isinstance(e.op, (ast.USub, ast.Invert)):
        return _pure_arith(e.operand)
    return False


class _Subst(ast.NodeTransformer):
    def __init__(self, env):
        self.env = env

    def visit_Name(self, node):
        if isinstance(node.ctx, ast.Load) and node.id in self.env:
            return copy.deepcopy(self.env[node.id])
        return node

    def visit_Lambda(self, node):
        return node  # no capture analysis: leave lambdas alone


def _param_uses(body_nodes, name: str) -> int:
    n = 0
    for b in body_nodes:
        for x in ast.walk(b):
            if isinstance(x, ast.Name) and x.id == name:
                if isinstance(x.ctx, ast.Store):
                    return 99
                n += 1
    return n


def _locals_of(fn) -> set:
    out = set()
    for x in ast.walk(fn):
        if isinstance(x, ast.Name) and isinstance(x.ctx, ast.Store):
            out.add(x.id)
        elif isinstance(x, ast.arg):
            out.add(x.arg)
    return out


class _Inliner(ast.NodeTransformer):
    """Inlines calls to the given helper functions. helpers: key -> (FunctionDef, is_method); key is 'name' for module
    functions and 'Class.name' for methods."""

    def __init__(self, helpers: dict):
        self.helpers = helpers
        self.cls = None
        self.fn_stack = []
        self.done = []
        self._uid = 0

    # --- scope tracking
    def visit_ClassDef(self, node):
        prev, self.cls = self.cls, node.name
        self.generic_visit(node)
        self.cls = prev
        return node

    def visit_FunctionDef(self, node):
        self.fn_stack.append(node)
        node.body = self._block(node.body)
        self.fn_stack.pop()
        return node

    visit_AsyncFunctionDef = visit_FunctionDef

    # --- helpers
    def _target(self, call):
        if not isinstance(call, ast.Call):
            return None
        f = call.func
        if isinstance(f, ast.Name) and f.id in self.helpers and not self.helpers[f.id][1]:
            return f.id
        if isinstance(f, ast.Attribute) and isinstance(f.value, ast.Name) and self.cls and f.value.id in ("self", "cls", self.cls):
            k = f"{self.cls}.{f.attr}"
            if k in self.helpers:
                return k
        return None

    def _expr_body(self, fn):
        body = _strip_doc(fn.body)
        if len(body) == 1 and isinstance(body[0], ast.Return) and body[0].value is not None:
            return body[0].value
        # guard-clause helper: `if C: return X` ... `return Y` is the conditional expression `X if C else Y` (same evaluation order)
        def as_expr(stmts):
            stmts = _strip_doc(stmts)
            if len(stmts) == 1 and isinstance(stmts[0], ast.Return) and stmts[0].value is not None:
                return stmts[0].value
            if len(stmts) >= 1 and isinstance(stmts[0], ast.If):
                a = as_expr(stmts[0].body)
                b = as_expr(stmts[0].orelse) if stmts[0].orelse and len(stmts) == 1 else (as_expr(stmts[1:]) if not stmts[0].orelse and len(stmts) > 1 else None)
                # predicates only (one arm is a literal True / False): value-producing helpers keep their statement form, which the
                # path-splitting analyses read better than a conditional expression
                if a is not None and b is not None and any(isinstance(z, ast.Constant) and isinstance(z.value, bool) for z in (a, b)):
                    return ast.copy_location(ast.IfExp(test=stmts[0].test, body=a, orelse=b), stmts[0])
            return None

        if not isinstance(fn, ast.AsyncFunctionDef) and body and isinstance(body[0], ast.If):
            e = as_expr(body)
            if e is not None and not any(isinstance(x, (ast.Await, ast.NamedExpr, ast.Yield, ast.YieldFrom)) for x in ast.walk(e)):
                return ast.fix_missing_locations(e)
        # straight-line helper: `t1 = <pure arithmetic>; t2 = <pure arithmetic over t1>; return E` is the expression E with the
        # temporaries substituted (each bound once; pure operands, so neither duplication nor order of evaluation matters)
        if len(body) >= 2 and isinstance(body[-1], ast.Return) and body[-1].value is not None and all(
            isinstance(st, ast.Assign) and len(st.targets) == 1 and isinstance(st.targets[0], ast.Name) and _pure_arith(st.value) for st in body[:-1]
        ):
            names = [st.targets[0].id for st in body[:-1]]
            params = {a.arg for a in fn.args.posonlyargs + fn.args.args + fn.args.kwonlyargs}
            if len(set(names)) == len(names) and not (set(names) & params):
                env = {}
                for st in body[:-1]:
                    env[st.targets[0].id] = _Subst(env).visit(copy.deepcopy(st.value))
                return _Subst(env).visit(copy.deepcopy(body[-1].value))
        return None

    def _inline_expr(self, call, awaited: bool):
        """call -> expression, or None. `awaited` tells whether the call is the operand of an await."""
        k = self._target(call)
        if k is None:
            return None
        fn, is_method = self.helpers[k]
        if self.fn_stack and fn is self.fn_stack[-1]:
            return None
        e = self._expr_body(fn)
        if e is None:
            return None
        is_async = isinstance(fn, ast.AsyncFunctionDef)
        if is_async != awaited and is_async:
            return None  # coroutine object used as a value
        env = _bind(fn, call, is_method)
        if env is None:
            return None
        for p, v in env.items():
            if not _is_simple_expr(v) and _param_uses([e], p) > 1:
                return None
        new = _Subst(env).visit(copy.deepcopy(e))
        ast.copy_location(new, call)
        for x in ast.walk(new):
            if not hasattr(x, "lineno"):
                ast.copy_location(x, call)
        self.done.append(k)
        return new

    def visit_Await(self, node):
        if isinstance(node.value, ast.Call):
            k = self._target(node.value)
            if k is not None:
                fn, _ = self.helpers[k]
                if isinstance(fn, ast.AsyncFunctionDef):
                    new = self._inline_expr(node.value, awaited=True)
                    if new is not None:
                        # `await h()` with `async def h(): return E`  ==  E   (E is evaluated inside the coroutine, in the same task)
                        return self.visit(new)
                    return self.generic_visit(node)
                new = self._inline_expr(node.value, awaited=False)
                if new is not None:
                    node.value = new
                    return self.generic_visit(node)
        return self.generic_visit(node)

    def visit_Call(self, node):
        self.generic_visit(node)
        k = self._target(node)
        if k is not None and not isinstance(self.helpers[k][0], ast.AsyncFunctionDef):
            new = self._inline_expr(node, awaited=False)
            if new is not None:
                return new
        return node

    # --- statement level
    def _block(self, stmts):
        out = []
        for st in stmts:
            rep = self._inline_stmt(st)
            if rep is not None:
                out.extend(rep)
                continue
            # recurse into compound statements
            for field in ("body", "orelse", "finalbody"):
                if hasattr(st, field) and isinstance(getattr(st, field), list) and not isinstance(st, (ast.FunctionDef, ast.AsyncFunctionDef, ast.ClassDef)):
                    setattr(st, field, self._block(getattr(st, field)))
            if isinstance(st, ast.Try):
                for h in st.handlers:
                    h.body = self._block(h.body)
            if isinstance(st, ast.Match):
                for c in st.cases:
                    c.body = self._block(c.body)
                    if c.guard is not None:
                        c.guard = self.visit(c.guard)  # expression helpers used in a guard (`if self._in_state(X)`)
            if isinstance(st, (ast.FunctionDef, ast.AsyncFunctionDef, ast.ClassDef)):
                out.append(self.visit(st))
            else:
                out.append(self._visit_exprs(st))
        return out

    def _visit_exprs(self, st):
        # visit only the expression children of the statement (blocks were handled by _block)
        for field, val in ast.iter_fields(st):
            if field in ("body", "orelse", "finalbody", "handlers", "cases"):
                continue
            if isinstance(val, ast.AST):
                setattr(st, field, self.visit(val))
            elif isinstance(val, list):
                setattr(st, field, [self.visit(v) if isinstance(v, ast.AST) else v for v in val])
        return st

    def _hoist(self, st):
        """`stmt(... h(args) ...)` with a multi-statement sync helper h ending in `return E`: the helper's statements are put
        before the statement and the call is replaced by E, provided nothing else is evaluated before the call."""
        if not isinstance(st, (ast.Expr, ast.Assign, ast.Return, ast.AugAssign, ast.AnnAssign)) or getattr(st, "value", None) is None:
            return None
        def wants_hoist(c):
            k0 = self._target(c)
            if k0 is None or isinstance(self.helpers[k0][0], ast.AsyncFunctionDef):
                return False
            fn0, meth0 = self.helpers[k0]
            eb0 = self._expr_body(fn0)
            if eb0 is None:
                return True
            env0 = _bind(fn0, c, meth0)
            return env0 is not None and not all(_is_simple_expr(v) or _param_uses([eb0], p) <= 1 for p, v in env0.items())

        call = _hoist_candidates(st.value, wants_hoist)
        if call is None:
            return None
        k = self._target(call)
        fn, is_method = self.helpers[k]
        if self.fn_stack and fn is self.fn_stack[-1]:
            return None
        self._uid += 1
        tmp = f"_{fn.name.strip('_')}{self._uid}_result"
        fake = ast.Assign(targets=[ast.Name(id=tmp, ctx=ast.Store())], value=call)
        ast.copy_location(fake, st)
        ast.fix_missing_locations(fake)
        rep = self._inline_stmt(fake)
        if rep is None:
            return None
        # replace the call inside st by the temporary
        class R(ast.NodeTransformer):
            def visit_Call(s2, node):
                if node is call:
                    return ast.copy_location(ast.Name(id=tmp, ctx=ast.Load()), node)
                return s2.generic_visit(node)

        st2 = R().visit(st)
        # if the inlined body ends with `tmp = E` and tmp is used once, fold it back for readability of the rules
        if rep and isinstance(rep[-1], ast.Assign) and isinstance(rep[-1].targets[0], ast.Name) and rep[-1].targets[0].id == tmp:
            e = rep[-1].value
            class F(ast.NodeTransformer):
                def visit_Name(s2, node):
                    if node.id == tmp and isinstance(node.ctx, ast.Load):
                        return e
                    return node
            st2 = F().visit(st2)
            rep = rep[:-1]
        return rep + [self._visit_exprs(st2)]

    def _inline_stmt(self, st):
        """Procedure inlining: `h(...)`, `await h(...)`, `x = [await] h(...)`, `return [await] h(...)` as a whole statement."""
        val = None
        kind = None
        if isinstance(st, ast.Expr):
            val, kind = st.value, "expr"
        elif isinstance(st, ast.Assign) and len(st.targets) == 1:
            val, kind = st.value, "assign"
        elif isinstance(st, ast.Return) and st.value is not None:
            val, kind = st.value, "return"
        if val is None:
            return None
        awaited = isinstance(val, ast.Await)
        call = val.value if awaited else val
        k = self._target(call)
        if k is None:
            return self._hoist(st)
        fn, is_method = self.helpers[k]
        if self.fn_stack and fn is self.fn_stack[-1]:
            return None
        is_async = isinstance(fn, ast.AsyncFunctionDef)
        if is_async != awaited:
            return None
        eb = self._expr_body(fn)
        if eb is not None:
            env0 = _bind(fn, call, is_method)
            if env0 is None or all(_is_simple_expr(v) or _param_uses([eb], p) <= 1 for p, v in env0.items()):
                return None  # expression inlining does it
        body = _strip_doc(fn.body)
        if any(isinstance(x, (ast.Yield, ast.YieldFrom, ast.Global, ast.Nonlocal)) for b in body for x in ast.walk(b)):
            return None
        env = _bind(fn, call, is_method)
        if env is None:
            return None
        # returns: allowed forms -> (a) none, (b) only a trailing `return E`, (c) bare early returns when nothing is wanted
        rets = [x for b in body for x in _walk_fn(b) if isinstance(x, ast.Return)]
        trailing = body and isinstance(body[-1], ast.Return)
        valued = [r for r in rets if r.value is not None]
        multi = False
        if kind in ("assign", "return"):
            if not (trailing and len(rets) == 1 and valued):
                # several `return E`: still inlinable when the body is a tree of if/else whose every path ends in a return
                if not (rets and all(r.value is not None for r in rets) and _all_paths_return(body)):
                    return None
                multi = True
        else:
            if valued and not (trailing and len(rets) == 1):
                return None
        self._uid += 1
        pre = f"_{fn.name.strip('_')}{self._uid}_"
        caller_locals = _locals_of(self.fn_stack[-1]) if self.fn_stack else set()
        ren = {}
        for loc in _locals_of(fn) - {"self", "cls"}:
            if loc in env and isinstance(env[loc], ast.Name) and env[loc].id == loc:
                continue
            ren[loc] = pre + loc if (loc in caller_locals or loc in env) else loc
        new_body = [copy.deepcopy(b) for b in body]
        binds = []
        senv = {}
        for p, v in env.items():
            if isinstance(v, ast.Name) and v.id == p and ren.get(p, p) == p:
                continue
            if _is_simple_expr(v) and _param_uses(body, p) < 99:
                senv[p] = v
            else:
                tgt = ast.Name(id=ren.get(p, p), ctx=ast.Store())
                a = ast.Assign(targets=[tgt], value=copy.deepcopy(v), lineno=st.lineno, col_offset=st.col_offset)
                binds.append(a)
        rn = _RenameLocals({k: v for k, v in ren.items() if k != v and k not in senv})
        new_body = [rn.visit(b) for b in new_body]
        if senv:
            sb = _Subst(senv)
            new_body = [sb.visit(b) for b in new_body]
        if multi:
            if kind == "return":
                conv = new_body  # the helper's returns are the caller's returns
            else:
                conv = _returns_to_assign(new_body, st.targets[0])
            out = binds + conv
            for b in out:
                for x in ast.walk(b):
                    if not hasattr(x, "lineno"):
                        ast.copy_location(x, st)
                ast.fix_missing_locations(b)
            self.done.append(k)
            return self._block(out)
        bare_early = [r for r in rets if r.value is None and not (trailing and r is body[-1])]
        # map returns of the deep copy
        if kind == "expr" and (bare_early or (trailing and rets and rets[-1].value is None)):
            # early exits: wrap into a one-shot loop and turn `return` into `break` (not valid inside a nested loop of the helper)
            for b in body:
                for x in ast.walk(b):
                    if isinstance(x, (ast.For, ast.AsyncFor, ast.While)) and any(isinstance(y, ast.Return) for y in ast.walk(x)):
                        return None
            new_body = [_RetToBreak().visit(b) for b in new_body]
            loop = ast.While(test=ast.Constant(value=True), body=new_body + [ast.Break()], orelse=[])
            ast.copy_location(loop, st)
            new_body = [loop]
        elif trailing and rets and valued:
            last = new_body[-1]
            if kind == "assign":
                new_body[-1] = ast.Assign(targets=[copy.deepcopy(st.targets[0])], value=last.value)
            elif kind == "return":
                new_body[-1] = ast.Return(value=last.value)
            else:
                new_body[-1] = ast.Expr(value=last.value)
            ast.copy_location(new_body[-1], last)
        out = binds + new_body
        for b in out:
            for x in ast.walk(b):
                if not hasattr(x, "lineno"):
                    ast.copy_location(x, st)
            ast.fix_missing_locations(b)
        self.done.append(k)
        # nested helpers inside the inlined body
        return self._block(out)


def _all_paths_return(stmts) -> bool:
    """every path through the statement list ends in `return <value>` (if/else trees and straight-line code only)"""
    if not stmts:
        return False
    for i, st in enumerate(stmts):
        if isinstance(st, ast.Return):
            return st.value is not None
        if isinstance(st, ast.Raise):
            return True
        if isinstance(st, ast.If):
            if _all_paths_return(st.body) and (_all_paths_return(st.orelse) if st.orelse else _all_paths_return(stmts[i + 1:])):
                return True
            if st.orelse and not _all_paths_return(st.body) and not _all_paths_return(st.orelse):
                continue
            if not st.orelse and not _all_paths_return(st.body):
                if any(isinstance(x, ast.Return) for x in ast.walk(st)):
                    return False
                continue
            return False
        if isinstance(st, (ast.For, ast.AsyncFor, ast.While, ast.Try, ast.With, ast.AsyncWith, ast.Match)) and any(isinstance(x, ast.Return) for x in ast.walk(st)):
            return False
    return False


def _returns_to_assign(stmts, target):
    """`if c: return A` / `return B`  ->  `if c: t = A else: t = B` (the statement list must satisfy _all_paths_return)"""
    out = []
    for i, st in enumerate(stmts):
        if isinstance(st, ast.Return):
            out.append(ast.Assign(targets=[copy.deepcopy(target)], value=st.value))
            return out
        if isinstance(st, ast.If) and any(isinstance(x, ast.Return) for x in ast.walk(st)):
            body = _returns_to_assign(st.body, target)
            if st.orelse:
                orelse = _returns_to_assign(st.orelse, target)
                rest = stmts[i + 1:]
                if rest and not (_all_paths_return(st.body) and _all_paths_return(st.orelse)):
                    orelse = orelse + _returns_to_assign(rest, target)
                out.append(ast.If(test=st.test, body=body, orelse=orelse))
                return out
            out.append(ast.If(test=st.test, body=body, orelse=_returns_to_assign(stmts[i + 1:], target)))
            return out
        out.append(st)
    return out


def _hoist_candidates(expr, is_target):
    """(call, parent-chain) for helper calls inside expr such that nothing with a side effect is evaluated before them."""
    found = []

    def rec(e, ancestors_ok):
        if isinstance(e, (ast.Lambda, ast.ListComp, ast.SetComp, ast.DictComp, ast.GeneratorExp, ast.IfExp, ast.BoolOp)):
            return  # conditional / repeated evaluation: never hoist out of these
        if isinstance(e, ast.Call) and is_target(e):
            found.append(e)
            return
        for ch in ast.iter_child_nodes(e):
            rec(ch, ancestors_ok)

    rec(expr, True)
    if len(found) != 1:
        return None
    call = found[0]
    # every other Call/Await in expr must be an ancestor of `call` (evaluated after it)
    anc = set()

    def path(e, acc):
        if e is call:
            anc.update(id(a) for a in acc)
            return True
        return any(path(ch, acc + [e]) for ch in ast.iter_child_nodes(e))

    path(expr, [])
    for x in ast.walk(expr):
        if isinstance(x, (ast.Call, ast.Await)) and x is not call and id(x) not in anc:
            inside = any(x is y for y in ast.walk(call))
            if not inside:
                return None
    return call


def _walk_fn(node):
    stack = [node]
    while stack:
        n = stack.pop()
        yield n
        for ch in ast.iter_child_nodes(n):
            if not isinstance(ch, (ast.FunctionDef, ast.AsyncFunctionDef, ast.ClassDef, ast.Lambda)):
                stack.append(ch)


class _RenameLocals(ast.NodeTransformer):
    def __init__(self, m):
        self.m = m

    def visit_Name(self, node):
        if node.id in self.m:
            node.id = self.m[node.id]
        return node


class _RetToBreak(ast.NodeTransformer):
    def visit_Return(self, node):
        return ast.copy_location(ast.Break(), node)

    def visit_FunctionDef(self, node):
        return node

    visit_AsyncFunctionDef = visit_FunctionDef
    visit_Lambda = visit_FunctionDef


# ---------------------------------------------------------------------------------------------- expression normal forms
_FLIP = {ast.Lt: ast.Gt, ast.Gt: ast.Lt, ast.LtE: ast.GtE, ast.GtE: ast.LtE, ast.Eq: ast.Eq, ast.NotEq: ast.NotEq}
_NEG = {ast.Eq: ast.NotEq, ast.NotEq: ast.Eq, ast.Is: ast.IsNot, ast.IsNot: ast.Is, ast.In: ast.NotIn, ast.NotIn: ast.In}


def _constlike(e) -> bool:
    if isinstance(e, ast.Constant):
        return True
    d = _dotted(e)
    if d:
        parts = d.split(".")
        last = parts[-1]
        if last == "size" and len(parts) >= 2:  # _STRUCT.size
            last = parts[-2]
        return last.upper() == last and any(c.isalpha() for c in last)
    if isinstance(e, ast.UnaryOp) and isinstance(e.op, ast.USub):
        return _constlike(e.operand)
    if isinstance(e, ast.BinOp) and isinstance(e.op, (ast.Add, ast.Sub, ast.Mult)):
        return _constlike(e.left) and _constlike(e.right)
    return False


def _is_len(e):
    return isinstance(e, ast.Call) and isinstance(e.func, ast.Name) and e.func.id == "len" and len(e.args) == 1 and not e.keywords


class _Normalise(ast.NodeTransformer):
    def __init__(self, tree: Optional[ast.Module] = None):
        # module-level dict literals with constant string keys (for `**{k: f(v) for k, v in TABLE.items()}` call arguments)
        self.tables = {}
        for st in (tree.body if tree is not None else []):
            if isinstance(st, ast.Assign) and len(st.targets) == 1 and isinstance(st.targets[0], ast.Name) and isinstance(st.value, ast.Dict) and st.value.keys and all(isinstance(k, ast.Constant) and isinstance(k.value, str) for k in st.value.keys):
                self.tables[st.targets[0].id] = st.value
        # module-level literal tables `NAME = ((a, 0), (b, 1), ...)` bound once: a loop / comprehension over NAME is unrolled as if
        # the literal stood there (the table itself stays where it is: the folder and the evaluators resolve it by name)
        self.row_tables = {}
        counts = {}
        for x in (ast.walk(tree) if tree is not None else []):
            if isinstance(x, ast.Name) and isinstance(x.ctx, (ast.Store, ast.Del)):
                counts[x.id] = counts.get(x.id, 0) + 1
            elif isinstance(x, ast.arg):
                counts[x.arg] = counts.get(x.arg, 0) + 2
        for st in (tree.body if tree is not None else []):
            tg = st.targets[0] if isinstance(st, ast.Assign) and len(st.targets) == 1 else (st.target if isinstance(st, ast.AnnAssign) else None)
            v = getattr(st, "value", None)
            if isinstance(tg, ast.Name) and isinstance(v, (ast.Tuple, ast.List)) and v.elts and all(isinstance(r, (ast.Tuple, ast.List)) and all(_is_simple_expr(e) for e in r.elts) for r in v.elts) and counts.get(tg.id) == 1:
                self.row_tables[tg.id] = v

    def _table_iter(self, it):
        if isinstance(it, ast.Name) and it.id in getattr(self, "row_tables", {}):
            return copy.deepcopy(self.row_tables[it.id])
        return it

    def _expand_kwargs(self, node: ast.Call):
        new = []
        changed = False
        for kw in node.keywords:
            v = kw.value
            if kw.arg is None and isinstance(v, ast.DictComp) and len(v.generators) == 1 and not v.generators[0].ifs:
                g = v.generators[0]
                it = g.iter
                tbl = None
                if isinstance(it, ast.Call) and isinstance(it.func, ast.Attribute) and it.func.attr == "items" and isinstance(it.func.value, ast.Name) and not it.args:
                    tbl = self.tables.get(it.func.value.id)
                if tbl is not None and isinstance(g.target, ast.Tuple) and len(g.target.elts) == 2 and all(isinstance(x, ast.Name) for x in g.target.elts) and isinstance(v.key, ast.Name) and v.key.id == g.target.elts[0].id:
                    kname, vname = g.target.elts[0].id, g.target.elts[1].id
                    for ck, cv in zip(tbl.keys, tbl.values):
                        val = _Subst({vname: cv, kname: ck}).visit(copy.deepcopy(v.value))
                        nk = ast.keyword(arg=ck.value, value=val)
                        ast.copy_location(nk, kw.value)
                        for y in ast.walk(nk):
                            if not hasattr(y, "lineno"):
                                ast.copy_location(y, kw.value)
                        new.append(nk)
                    changed = True
                    continue
            new.append(kw)
        if changed:
            node.keywords = new

    def visit_Compare(self, node):
        self.generic_visit(node)
        if len(node.ops) > 1 and all(isinstance(c, ast.Constant) or _dotted(c) for c in node.comparators[:-1]):
            # `a < b <= c` with a plain middle operand is `a < b and b <= c`
            parts, left = [], node.left
            for op, right in zip(node.ops, node.comparators):
                parts.append(self.visit_Compare(ast.copy_location(ast.Compare(left=copy.deepcopy(left), ops=[op], comparators=[copy.deepcopy(right)]), node)))
                left = right
            return ast.copy_location(ast.BoolOp(op=ast.And(), values=parts), node)
        if len(node.ops) != 1:
            return node
        op, l, r = node.ops[0], node.left, node.comparators[0]
        # `x in (A, B)` with a plain x and a literal of constants is `x == A or x == B` (ints / enum members / strings: identity
        # shortcuts of `in` coincide with ==)
        if isinstance(op, (ast.In, ast.NotIn)) and isinstance(r, (ast.Tuple, ast.List, ast.Set)) and 1 <= len(r.elts) <= 6 and all(_constlike(x) for x in r.elts) and (_dotted(l) is not None):
            cmpop = ast.Eq if isinstance(op, ast.In) else ast.NotEq
            parts = [ast.copy_location(ast.Compare(left=copy.deepcopy(l), ops=[cmpop()], comparators=[x]), node) for x in r.elts]
            if len(parts) == 1:
                return parts[0]
            return ast.copy_location(ast.BoolOp(op=ast.Or() if isinstance(op, ast.In) else ast.And(), values=parts), node)
        # constant on the left -> on the right
        if type(op) in _FLIP and _constlike(l) and not _constlike(r):
            node.left, node.comparators, node.ops = r, [l], [_FLIP[type(op)]()]
            op, l, r = node.ops[0], node.left, node.comparators[0]
        # len(x) tests -> truthiness (sized containers)
        if _is_len(l) and isinstance(r, ast.Constant) and isinstance(r.value, int) and not isinstance(r.value, bool):
            x = l.args[0]
            pos = (isinstance(op, ast.Gt) and r.value == 0) or (isinstance(op, ast.GtE) and r.value == 1) or (isinstance(op, ast.NotEq) and r.value == 0)
            neg = (isinstance(op, ast.Eq) and r.value == 0) or (isinstance(op, ast.Lt) and r.value == 1) or (isinstance(op, ast.LtE) and r.value == 0)
            if pos:
                return ast.copy_location(copy.deepcopy(x), node)
            if neg:
                return ast.copy_location(ast.UnaryOp(op=ast.Not(), operand=copy.deepcopy(x)), node)
        return node

    def visit_Call(self, node):
        self.generic_visit(node)
        self._expand_kwargs(node)
        # functools.partial(F, a, k=v)  ->  lambda *_a, **_k: F(a, *_a, k=v, **_k)
        if _dotted(node.func) in ("functools.partial", "partial") and node.args and not isinstance(node.args[0], ast.Starred) and _dotted(node.args[0]):
            call = ast.Call(func=node.args[0], args=list(node.args[1:]) + [ast.Starred(value=ast.Name(id="_a", ctx=ast.Load()), ctx=ast.Load())], keywords=list(node.keywords) + [ast.keyword(arg=None, value=ast.Name(id="_k", ctx=ast.Load()))])
            lam = ast.Lambda(args=ast.arguments(posonlyargs=[], args=[], vararg=ast.arg(arg="_a"), kwonlyargs=[], kw_defaults=[], kwarg=ast.arg(arg="_k"), defaults=[]), body=call)
            for y in ast.walk(lam):
                if not hasattr(y, "lineno"):
                    ast.copy_location(y, node)
            return ast.copy_location(lam, node)
        # map(F, xs) -> (F(_m) for _m in xs)   (both are lazy and call F once per element, in order)
        if _dotted(node.func) == "map" and len(node.args) == 2 and not node.keywords and _dotted(node.args[0]) and not isinstance(node.args[1], ast.Starred):
            self._mapn = getattr(self, "_mapn", 0) + 1
            v = f"_m{self._mapn}"
            gen = ast.GeneratorExp(elt=ast.Call(func=node.args[0], args=[ast.Name(id=v, ctx=ast.Load())], keywords=[]), generators=[ast.comprehension(target=ast.Name(id=v, ctx=ast.Store()), iter=node.args[1], ifs=[], is_async=0)])
            for y in ast.walk(gen):
                if not hasattr(y, "lineno"):
                    ast.copy_location(y, node)
            return ast.copy_location(gen, node)
        # set algebra spelled as a method: a.union(b) -> a | b   (analysis vocabulary only)
        if isinstance(node.func, ast.Attribute) and node.func.attr == "union" and len(node.args) == 1 and not node.keywords and not isinstance(node.args[0], ast.Starred):
            return ast.copy_location(ast.BinOp(left=node.func.value, op=ast.BitOr(), right=node.args[0]), node)
        return node

    # ---- statement lists
    def _blocks(self, node):
        for field in ("body", "orelse", "finalbody"):
            b = getattr(node, field, None)
            if isinstance(b, list) and b and isinstance(b[0], ast.stmt):
                setattr(node, field, self._block(b))

    def generic_visit(self, node):
        super().generic_visit(node)
        if isinstance(node, (ast.stmt, ast.Module, ast.ExceptHandler, ast.match_case)):
            self._blocks(node)
        return node

    def _block(self, stmts):
        out = []
        orig_stmts = list(stmts)
        i = 0
        while i < len(stmts):
            st = stmts[i]
            nxt = stmts[i + 1] if i + 1 < len(stmts) else None
            comp = self._append_loop(st, nxt)
            if comp is not None:
                stmts = stmts[:i] + [comp] + stmts[i + 2:]
                continue
            dr = self._deferred_raise(st, stmts[i + 1:i + 3])
            if dr is not None:
                stmts = stmts[:i] + dr[0] + stmts[i + dr[1]:]
                continue
            ta = self._split_tuple_assign(st)
            if ta is not None:
                stmts = stmts[:i] + ta + stmts[i + 1:]
                continue
            self._expand_star_locals(st, stmts[:i])
            dm = self._divmod(st)
            if dm is not None:
                stmts = stmts[:i] + dm + stmts[i + 1:]
                continue
            fg = self._for_over_generator(st)
            if fg is not None:
                stmts = stmts[:i] + [fg] + stmts[i + 1:]
                continue
            wc = self._while_counter(st)
            if wc is not None:
                stmts = stmts[:i] + [wc] + stmts[i + 1:]
                continue
            if isinstance(st, ast.For) and isinstance(st.target, ast.Tuple):
                st.iter = self._table_iter(st.iter)
            unrolled = self._unroll(st, stmts[:i])
            if unrolled is not None:
                stmts = stmts[:i] + unrolled + stmts[i + 1:]
                continue
            acc = self._accumulate(st, nxt)
            if acc is not None:
                stmts = stmts[:i] + [acc] + stmts[i + 2:]
                continue
            upd = self._update_comp(st)
            if upd is not None:
                stmts = stmts[:i] + [upd] + stmts[i + 1:]
                continue
            folded = self._fold_temp(st, nxt, stmts[i + 2:]) if self._single_use_in_function(st, stmts, orig_stmts) else None
            if folded is not None:
                stmts = stmts[:i] + [folded] + stmts[i + 2:]
                continue
            out.append(st)
            i += 1
        return out

    @staticmethod
    def _for_over_generator(st):
        """`for v in (E for y in ys): body`  ->  `for y in ys: v = E; body`  (a generator is consumed one element per iteration)"""
        if not (isinstance(st, ast.For) and not st.orelse and isinstance(st.iter, ast.GeneratorExp) and len(st.iter.generators) == 1 and isinstance(st.target, ast.Name)):
            return None
        g = st.iter.generators[0]
        if g.ifs or g.is_async or not isinstance(g.target, ast.Name):
            return None
        used = {x.id for b in st.body for x in ast.walk(b) if isinstance(x, ast.Name)}
        if g.target.id in used or any(isinstance(x, (ast.Continue,)) for b in st.body for x in ast.walk(b)):
            return None
        a = ast.Assign(targets=[ast.Name(id=st.target.id, ctx=ast.Store())], value=st.iter.elt)
        ast.copy_location(a, st)
        new = ast.For(target=g.target, iter=g.iter, body=[a] + st.body, orelse=[], type_comment=None)
        ast.copy_location(new, st)
        ast.fix_missing_locations(new)
        return new

    @staticmethod
    def _deferred_raise(st, following):
        """`err = None` / `if c1: err = E1 elif c2: err = E2 ... [else: nested checks]` / `if err is not None: raise X(err)`
        ->  the same tree of checks with every `err = E` replaced by `raise X(E)`   (a "single exit" spelling of a chain of checks)"""
        if isinstance(st, ast.Assign) and len(st.targets) == 1:
            tgt, val = st.targets[0], st.value
        elif isinstance(st, ast.AnnAssign):
            tgt, val = st.target, st.value
        else:
            return None
        if not (isinstance(tgt, ast.Name) and isinstance(val, ast.Constant) and val.value is None and len(following) == 2):
            return None
        name = tgt.id
        chain, final = following
        if not (isinstance(chain, ast.If) and isinstance(final, ast.If) and not final.orelse and len(final.body) == 1 and isinstance(final.body[0], ast.Raise)):
            return None
        t = final.test
        if not (isinstance(t, ast.Compare) and len(t.ops) == 1 and isinstance(t.ops[0], (ast.IsNot, ast.NotEq)) and isinstance(t.left, ast.Name) and t.left.id == name and isinstance(t.comparators[0], ast.Constant) and t.comparators[0].value is None) and not (isinstance(t, ast.Name) and t.id == name):
            return None
        rs = final.body[0]
        if len([x for x in ast.walk(rs) if isinstance(x, ast.Name) and x.id == name]) != 1:
            return None
        # inside the chain the name may only be assigned, as the last statement of a block, and never read
        for x in ast.walk(chain):
            if isinstance(x, ast.Name) and x.id == name and isinstance(x.ctx, ast.Load):
                return None
            if isinstance(x, (ast.For, ast.While, ast.Try, ast.With, ast.Return)):
                return None
        ok = [True]

        def conv(block):
            out = []
            for k, s_ in enumerate(block):
                is_set = isinstance(s_, (ast.Assign, ast.AnnAssign)) and isinstance((s_.targets[0] if isinstance(s_, ast.Assign) else s_.target), ast.Name) and (s_.targets[0] if isinstance(s_, ast.Assign) else s_.target).id == name
                if is_set:
                    if k != len(block) - 1 or s_.value is None:
                        ok[0] = False
                        return block
                    r = copy.deepcopy(rs)
                    v = s_.value

                    class S(ast.NodeTransformer):
                        def visit_Name(s2, node):
                            return copy.deepcopy(v) if node.id == name else node

                    r = S().visit(r)
                    ast.copy_location(r, s_)
                    out.append(r)
                elif isinstance(s_, ast.If):
                    s_.body = conv(s_.body)
                    s_.orelse = conv(s_.orelse) if s_.orelse else []
                    out.append(s_)
                else:
                    out.append(s_)
            return out

        new = conv([chain])
        if not ok[0]:
            return None
        for n_ in new:
            ast.fix_missing_locations(n_)
        return new, 3

    @staticmethod
    def _split_tuple_assign(st):
        """`a, b = X, Y` (side-effect-free X, Y; no target used on the right)  ->  `a = X`, `b = Y`"""
        if not (isinstance(st, ast.Assign) and len(st.targets) == 1 and isinstance(st.targets[0], ast.Tuple) and isinstance(st.value, ast.Tuple) and len(st.targets[0].elts) == len(st.value.elts) >= 2):
            return None
        tg, vs = st.targets[0].elts, st.value.elts
        if not all(isinstance(t, ast.Name) or (isinstance(t, ast.Attribute) and _dotted(t)) for t in tg):
            return None
        for j, v in enumerate(vs):
            if any(isinstance(x, (ast.Await, ast.NamedExpr, ast.Starred, ast.Yield)) for x in ast.walk(v)):
                return None
            # sequential assignment is the same as the parallel one when no earlier target is read by a later value
            earlier = {t.id for t in tg[:j] if isinstance(t, ast.Name)}
            if any(isinstance(x, ast.Name) and x.id in earlier for x in ast.walk(v)):
                return None
            # an earlier attribute target: the later value may not read an attribute of that name (through any object) nor call anything
            eattrs = {t.attr for t in tg[:j] if isinstance(t, ast.Attribute)}
            if eattrs and any((isinstance(x, ast.Attribute) and x.attr in eattrs) or isinstance(x, ast.Call) for x in ast.walk(v)):
                return None
        out = []
        for t, v in zip(tg, vs):
            t2 = copy.deepcopy(t)
            a = ast.Assign(targets=[t2], value=v)
            ast.copy_location(a, st)
            ast.fix_missing_locations(a)
            out.append(a)
        return out

    @staticmethod
    def _expand_star_locals(st, before):
        """`f(*t)` where t is a local bound just before (same block) to a literal tuple of plain expressions: `f(a, b, c)`"""
        if not isinstance(st, (ast.Expr, ast.Assign, ast.Return, ast.AnnAssign, ast.AugAssign)):
            return
        lits = {}
        for b in before:
            for x in ast.walk(b):
                if isinstance(x, ast.Name) and isinstance(x.ctx, ast.Store):
                    lits.pop(x.id, None)
            if isinstance(b, ast.Assign) and len(b.targets) == 1 and isinstance(b.targets[0], ast.Name) and isinstance(b.value, (ast.Tuple, ast.List)) and not any(isinstance(e, ast.Starred) for e in b.value.elts):
                lits[b.targets[0].id] = b.value
        if not lits:
            return
        for c in ast.walk(st):
            if isinstance(c, ast.Call) and any(isinstance(a, ast.Starred) and isinstance(a.value, ast.Name) and a.value.id in lits for a in c.args):
                new = []
                for a in c.args:
                    if isinstance(a, ast.Starred) and isinstance(a.value, ast.Name) and a.value.id in lits:
                        new.extend(copy.deepcopy(e) for e in lits[a.value.id].elts)
                    else:
                        new.append(a)
                c.args = new
                ast.fix_missing_locations(c)

    @staticmethod
    def _divmod(st):
        """`q, r = divmod(a, b)` with side-effect-free a, b  ->  `q = a // b`, `r = a % b`"""
        if not (isinstance(st, ast.Assign) and len(st.targets) == 1 and isinstance(st.targets[0], ast.Tuple) and len(st.targets[0].elts) == 2 and all(isinstance(x, ast.Name) for x in st.targets[0].elts)):
            return None
        v = st.value
        if not (isinstance(v, ast.Call) and _dotted(v.func) == "divmod" and len(v.args) == 2 and not v.keywords and all(_is_simple_expr(a) for a in v.args)):
            return None
        qn, rn = st.targets[0].elts
        names = {x.id for a in v.args for x in ast.walk(a) if isinstance(x, ast.Name)}
        if qn.id in names or rn.id in names:
            return None
        out = [ast.Assign(targets=[ast.Name(id=qn.id, ctx=ast.Store())], value=ast.BinOp(left=copy.deepcopy(v.args[0]), op=ast.FloorDiv(), right=copy.deepcopy(v.args[1]))),
               ast.Assign(targets=[ast.Name(id=rn.id, ctx=ast.Store())], value=ast.BinOp(left=copy.deepcopy(v.args[0]), op=ast.Mod(), right=copy.deepcopy(v.args[1])))]
        for o in out:
            ast.copy_location(o, st)
            for y in ast.walk(o):
                if not hasattr(y, "lineno"):
                    ast.copy_location(y, st)
            ast.fix_missing_locations(o)
        return out

    @staticmethod
    def _while_counter(st):
        """`while n > 0: BODY; n -= 1` (n touched nowhere else in the body, no break/continue/else)  ->  `for _ in range(n): BODY`"""
        if not (isinstance(st, ast.While) and not st.orelse and isinstance(st.test, ast.Compare) and len(st.test.ops) == 1):
            return None
        l, op, r = st.test.left, st.test.ops[0], st.test.comparators[0]
        if isinstance(l, ast.Name) and isinstance(r, ast.Constant) and r.value == 0 and isinstance(op, ast.Gt):
            n = l.id
        elif isinstance(r, ast.Name) and isinstance(l, ast.Constant) and l.value == 0 and isinstance(op, ast.Lt):
            n = r.id
        else:
            return None
        decs = [b for b in st.body if isinstance(b, ast.AugAssign) and isinstance(b.target, ast.Name) and b.target.id == n and isinstance(b.op, ast.Sub) and isinstance(b.value, ast.Constant) and b.value.value == 1]
        if len(decs) != 1 or (st.body[0] is not decs[0] and st.body[-1] is not decs[0]):
            return None
        rest = [b for b in st.body if b is not decs[0]]
        for b in rest:
            for x in ast.walk(b):
                if isinstance(x, ast.Name) and x.id == n:
                    return None
                if isinstance(x, (ast.Break, ast.Continue)):
                    return None
        if not rest:
            return None
        loop = ast.For(target=ast.Name(id="_", ctx=ast.Store()), iter=ast.Call(func=ast.Name(id="range", ctx=ast.Load()), args=[ast.Name(id=n, ctx=ast.Load())], keywords=[]), body=rest, orelse=[])
        ast.copy_location(loop, st)
        for y in (loop.target, loop.iter, loop.iter.func, loop.iter.args[0]):
            ast.copy_location(y, st)
        ast.fix_missing_locations(loop)
        return loop

    @staticmethod
    def _unroll(st, before=()):
        """`for v in (e1, ..., en): BODY` over a literal tuple/list of simple expressions (n <= 6, no break/continue/else, v not
        rebound): BODY[v := e1]; ...; BODY[v := en]"""
        if isinstance(st, ast.For) and not st.orelse and isinstance(st.target, ast.Tuple) and all(isinstance(x, ast.Name) for x in st.target.elts) and isinstance(st.iter, (ast.Tuple, ast.List)):
            # `for a, b in ((e1, f1), ..., (en, fn)): BODY`  ->  BODY[a := e1, b := f1]; ...
            names = [x.id for x in st.target.elts]
            rows = st.iter.elts
            if not (1 <= len(rows) <= 8) or len(set(names)) != len(names) or not all(isinstance(r, (ast.Tuple, ast.List)) and len(r.elts) == len(names) and all(_is_simple_expr(e) for e in r.elts) for r in rows):
                return None
            for b in st.body:
                for x in ast.walk(b):
                    if isinstance(x, (ast.Break, ast.Continue, ast.FunctionDef, ast.AsyncFunctionDef, ast.Lambda)):
                        return None
                    if isinstance(x, ast.Name) and x.id in names and isinstance(x.ctx, (ast.Store, ast.Del)):
                        return None
            out = []
            for r in rows:
                for b in st.body:
                    nb = _Subst(dict(zip(names, r.elts))).visit(copy.deepcopy(b))
                    ast.fix_missing_locations(nb)
                    out.append(nb)
            return out
        if not (isinstance(st, ast.For) and not st.orelse and isinstance(st.target, ast.Name)):
            return None
        it = st.iter
        if isinstance(it, ast.Name):
            # a local bound (in this block, just before) to a literal tuple of plain names: iterate that literal
            src = None
            for k in range(len(before) - 1, -1, -1):
                b = before[k]
                stores = {x.id for x in ast.walk(b) if isinstance(x, ast.Name) and isinstance(x.ctx, ast.Store)}
                if isinstance(b, ast.Assign) and len(b.targets) == 1 and isinstance(b.targets[0], ast.Name) and b.targets[0].id == it.id and isinstance(b.value, (ast.Tuple, ast.List)):
                    src = (k, b.value)
                    break
                if it.id in stores or isinstance(b, (ast.For, ast.While, ast.If, ast.Try, ast.With)) and it.id in {x.id for x in ast.walk(b) if isinstance(x, ast.Name) and isinstance(x.ctx, ast.Store)}:
                    return None
            if src is None:
                return None
            used = {x.id for e in src[1].elts for x in ast.walk(e) if isinstance(x, ast.Name)}
            for b in before[src[0] + 1:]:
                if used & {x.id for x in ast.walk(b) if isinstance(x, ast.Name) and isinstance(x.ctx, ast.Store)}:
                    return None
            it = src[1]
        if not isinstance(it, (ast.Tuple, ast.List)):
            return None
        elts = it.elts
        def ctor_like(e):
            # `ClassName()` / `mod.ClassName(simple args)`: building a value object (the code base's messages are dataclasses)
            d = _dotted(e.func) if isinstance(e, ast.Call) else None
            return bool(d) and d.split(".")[-1][:1].isupper() and all(_is_simple_expr(a) for a in e.args) and all(k.arg and _is_simple_expr(k.value) for k in e.keywords)

        if not (1 <= len(elts) <= 6) or not all(_is_simple_expr(e) or ctor_like(e) for e in elts):
            return None
        v = st.target.id
        for b in st.body:
            for x in ast.walk(b):
                if isinstance(x, (ast.Break, ast.Continue, ast.FunctionDef, ast.AsyncFunctionDef, ast.Lambda)):
                    return None
                if isinstance(x, ast.Name) and x.id == v and isinstance(x.ctx, (ast.Store, ast.Del)):
                    return None
        out = []
        for e in elts:
            for b in st.body:
                nb = _Subst({v: e}).visit(copy.deepcopy(b))
                ast.fix_missing_locations(nb)
                out.append(nb)
        return out

    @staticmethod
    def _accumulate(st, nxt):
        """`x = A` then `x += B` (B does not read x)  ->  `x = A + B`;  `d = {...}` then `d[K] = V` (K, V simple, not reading d,
        K not yet a key)  ->  `d = {..., K: V}`.  Same values in the same evaluation order."""
        if not (isinstance(st, ast.Assign) and len(st.targets) == 1 and isinstance(st.targets[0], ast.Name)):
            return None
        x = st.targets[0].id
        reads = lambda e: any(isinstance(n, ast.Name) and n.id == x for n in ast.walk(e))  # noqa: E731
        if reads(st.value):
            return None
        if isinstance(nxt, ast.AugAssign) and isinstance(nxt.target, ast.Name) and nxt.target.id == x and not reads(nxt.value) and isinstance(nxt.op, (ast.Add, ast.BitOr)) and not any(isinstance(n, (ast.Await, ast.NamedExpr, ast.Yield, ast.YieldFrom)) for n in ast.walk(nxt.value)):
            new = ast.Assign(targets=[ast.Name(id=x, ctx=ast.Store())], value=ast.BinOp(left=st.value, op=nxt.op, right=nxt.value))
            if isinstance(st.value, ast.Constant) and st.value.value == 0 and type(st.value.value) is int and isinstance(nxt.value, ast.Call):
                new.value = nxt.value  # 0 + f(...) / 0 | f(...): the neutral start of an accumulator
            ast.copy_location(new, st)
            ast.fix_missing_locations(new)
            return new
        if isinstance(st.value, ast.Dict) and all(k is not None for k in st.value.keys) and isinstance(nxt, ast.Assign) and len(nxt.targets) == 1:
            t = nxt.targets[0]
            if isinstance(t, ast.Subscript) and isinstance(t.value, ast.Name) and t.value.id == x and _is_simple_expr(t.slice) and _is_simple_expr(nxt.value) and not reads(t.slice) and not reads(nxt.value):
                if ast.dump(t.slice) in {ast.dump(k) for k in st.value.keys}:
                    return None
                new = ast.Assign(targets=[ast.Name(id=x, ctx=ast.Store())], value=ast.Dict(keys=st.value.keys + [t.slice], values=st.value.values + [nxt.value]))
                ast.copy_location(new, st)
                ast.fix_missing_locations(new)
                return new
        return None

    def visit_DictComp(self, node):
        """`{K: V for a, b in ((e1, f1), ...)}` / `{K: V for a in (e1, ...)}` over a literal of simple expressions -> dict display"""
        self.generic_visit(node)
        if len(node.generators) != 1:
            return node
        g = node.generators[0]
        g_iter = self._table_iter(g.iter)
        if g.is_async or g.ifs or not isinstance(g_iter, (ast.Tuple, ast.List)) or not (1 <= len(g_iter.elts) <= 8):
            return node
        g = ast.comprehension(target=g.target, iter=g_iter, ifs=g.ifs, is_async=g.is_async)
        if isinstance(g.target, ast.Name):
            names, rows = [g.target.id], [[e] for e in g.iter.elts]
        elif isinstance(g.target, ast.Tuple) and all(isinstance(x, ast.Name) for x in g.target.elts):
            names = [x.id for x in g.target.elts]
            if not all(isinstance(r, (ast.Tuple, ast.List)) and len(r.elts) == len(names) for r in g.iter.elts):
                return node
            rows = [list(r.elts) for r in g.iter.elts]
        else:
            return node
        if len(set(names)) != len(names) or not all(_is_simple_expr(e) for r in rows for e in r):
            return node
        if any(isinstance(x, (ast.Lambda, ast.NamedExpr, ast.ListComp, ast.SetComp, ast.DictComp, ast.GeneratorExp)) for x in ast.walk(node.key)) or any(isinstance(x, (ast.Lambda, ast.NamedExpr, ast.ListComp, ast.SetComp, ast.DictComp, ast.GeneratorExp)) for x in ast.walk(node.value)):
            return node
        keys, vals = [], []
        for r in rows:
            env = dict(zip(names, r))
            keys.append(_Subst(env).visit(copy.deepcopy(node.key)))
            vals.append(_Subst(env).visit(copy.deepcopy(node.value)))
        new = ast.Dict(keys=keys, values=vals)
        ast.copy_location(new, node)
        ast.fix_missing_locations(new)
        return new

    @staticmethod
    def _update_comp(st):
        """`D.update({K: V for t in IT})`  ->  `for t in IT: D[K] = V`"""
        if not (isinstance(st, ast.Expr) and isinstance(st.value, ast.Call)):
            return None
        c = st.value
        if not (isinstance(c.func, ast.Attribute) and c.func.attr == "update" and len(c.args) == 1 and not c.keywords and isinstance(c.args[0], ast.DictComp)):
            return None
        dc = c.args[0]
        if len(dc.generators) != 1 or dc.generators[0].is_async:
            return None
        g = dc.generators[0]
        d = _dotted(c.func.value)
        if d is None or any(_dotted(x) == d for x in ast.walk(dc) if isinstance(x, (ast.Name, ast.Attribute))):
            return None
        asg = ast.Assign(targets=[ast.Subscript(value=copy.deepcopy(c.func.value), slice=dc.key, ctx=ast.Store())], value=dc.value)
        body = [asg]
        for cond in reversed(g.ifs):
            body = [ast.If(test=cond, body=body, orelse=[])]
        loop = ast.For(target=g.target, iter=g.iter, body=body, orelse=[])
        for t in ast.walk(g.target):
            if isinstance(t, (ast.Name, ast.Tuple, ast.List)):
                t.ctx = ast.Store()
        ast.copy_location(loop, st)
        for x in ast.walk(loop):
            if not hasattr(x, "lineno"):
                ast.copy_location(x, st)
        ast.fix_missing_locations(loop)
        return loop

    def visit_FunctionDef(self, node):
        stack = self.__dict__.setdefault("_fn_stack", [])
        stack.append(node)
        try:
            return self.generic_visit(node)
        finally:
            stack.pop()

    visit_AsyncFunctionDef = visit_FunctionDef

    def _single_use_in_function(self, st, current=(), original=()) -> bool:
        """the local a temporary-folding candidate binds is read exactly once in the whole enclosing function: a value assigned
        inside a loop body and read after the loop (or in the next iteration) is not an explaining variable"""
        tgt = st.targets[0] if isinstance(st, ast.Assign) and len(st.targets) == 1 else (st.target if isinstance(st, ast.AnnAssign) else None)
        stack = self.__dict__.get("_fn_stack") or []
        if not isinstance(tgt, ast.Name) or not stack:
            return True
        cnt = lambda nodes: sum(1 for n_ in nodes for x in ast.walk(n_) if isinstance(x, ast.Name) and x.id == tgt.id and isinstance(x.ctx, ast.Load))  # noqa: E731
        # reads elsewhere in the function (the block being rewritten is counted in its current, already normalised form)
        loads = cnt([stack[-1]]) - cnt(original) + cnt(current)
        return loads <= 1

    @staticmethod
    def _fold_temp(st, nxt, rest):
        """`t = E` immediately followed by a simple statement that uses t exactly once, t not used afterwards, and nothing
        with a side effect evaluated before that use: the use is replaced by E (an 'explaining variable' is transparent)."""
        if isinstance(st, ast.Assign) and len(st.targets) == 1:
            tgt, val = st.targets[0], st.value
        elif isinstance(st, ast.AnnAssign) and st.value is not None:
            tgt, val = st.target, st.value
        else:
            return None
        if isinstance(nxt, ast.If) and isinstance(tgt, ast.Name) and isinstance(val, (ast.BoolOp, ast.Compare, ast.UnaryOp, ast.Call)) and not any(isinstance(x, (ast.Await, ast.NamedExpr)) for x in ast.walk(val)):
            # a named condition: `ok = a and not b` / `if not ok:`  ->  `if not (a and not b):`
            name = tgt.id
            t = nxt.test
            neg = 0
            while isinstance(t, ast.UnaryOp) and isinstance(t.op, ast.Not):
                t, neg = t.operand, neg + 1
            later = [x for part in (nxt.body, nxt.orelse, rest) for s_ in part for x in ast.walk(s_) if isinstance(x, ast.Name) and x.id == name]
            if isinstance(t, ast.Name) and t.id == name and not later:
                new_test = val
                for _ in range(neg):
                    new_test = ast.UnaryOp(op=ast.Not(), operand=new_test)
                nxt.test = ast.copy_location(new_test, nxt.test)
                ast.fix_missing_locations(nxt)
                return nxt
            return None
        if nxt is None or not isinstance(nxt, (ast.Expr, ast.Assign, ast.Return, ast.AugAssign, ast.AnnAssign)):
            return None
        if not isinstance(tgt, ast.Name) or not isinstance(val, (ast.ListComp, ast.GeneratorExp, ast.SetComp, ast.DictComp, ast.BinOp, ast.List, ast.Tuple, ast.Set)):
            return None  # only value-building expressions (collections / operators); calls keep their name
        name = tgt.id
        uses = [x for x in ast.walk(nxt) if isinstance(x, ast.Name) and x.id == name]
        if len(uses) != 1 or not isinstance(uses[0].ctx, ast.Load):
            return None
        for r in rest:
            if any(isinstance(x, ast.Name) and x.id == name for x in ast.walk(r)):
                return None
        use = uses[0]
        root = nxt.value if getattr(nxt, "value", None) is not None else None
        if root is None:
            return None
        # position check: every other Call/Await in the statement is an ancestor of the use (i.e. evaluated later)
        anc = set()

        def path(e, acc):
            if e is use:
                anc.update(id(a) for a in acc)
                return True
            return any(path(ch, acc + [e]) for ch in ast.iter_child_nodes(e))

        if not path(root, []):
            return None
        for x in ast.walk(root):
            if isinstance(x, (ast.Call, ast.Await)) and id(x) not in anc:
                return None
            if isinstance(x, (ast.Lambda, ast.ListComp, ast.SetComp, ast.DictComp, ast.GeneratorExp, ast.IfExp, ast.BoolOp)) and id(x) in anc:
                return None
        if isinstance(nxt, ast.Assign) and any(isinstance(x, ast.Name) and x.id == name for t in nxt.targets for x in ast.walk(t)):
            return None

        class R(ast.NodeTransformer):
            def visit_Name(s2, node):
                return val if node is use else node

        return R().visit(nxt)

    @staticmethod
    def _append_loop(st, nxt):
        """`xs = []` + `for v in IT: [if C:] xs.append(E)`  ->  `xs = [E for v in IT [if C]]`"""
        if nxt is None or not isinstance(nxt, ast.For) or nxt.orelse:
            return None
        if isinstance(st, ast.Assign) and len(st.targets) == 1:
            tgt, val = st.targets[0], st.value
        elif isinstance(st, ast.AnnAssign) and st.value is not None:
            tgt, val = st.target, st.value
        else:
            return None
        tname = tgt.id if isinstance(tgt, ast.Name) else _dotted(tgt)
        is_list = isinstance(val, ast.List) and not val.elts
        # `s = set()` + `for ...: s.add(E)` is the set comprehension the same way
        is_set = isinstance(val, ast.Call) and _dotted(val.func) == "set" and not val.args and not val.keywords
        if not (tname and isinstance(tgt, (ast.Name, ast.Attribute)) and (is_list or is_set)):
            return None
        body = nxt.body
        ifs = []
        while len(body) == 1 and isinstance(body[0], ast.If) and not body[0].orelse:
            ifs.append(body[0].test)
            body = body[0].body
        if len(body) != 1 or not isinstance(body[0], ast.Expr):
            return None
        c = body[0].value
        if not (isinstance(c, ast.Call) and isinstance(c.func, ast.Attribute) and c.func.attr == ("append" if is_list else "add") and _dotted(c.func.value) == tname and len(c.args) == 1 and not c.keywords):
            return None
        # the element / conditions must not mention the list being built
        for e in [c.args[0], nxt.iter] + ifs:
            if any(_dotted(x) == tname for x in ast.walk(e) if isinstance(x, (ast.Name, ast.Attribute))):
                return None
        if any(isinstance(x, (ast.Await, ast.Yield, ast.YieldFrom)) for e in [c.args[0]] + ifs for x in ast.walk(e)):
            return None
        comp = (ast.ListComp if is_list else ast.SetComp)(elt=c.args[0], generators=[ast.comprehension(target=nxt.target, iter=nxt.iter, ifs=ifs, is_async=0)])
        new_t = copy.deepcopy(tgt)
        new_t.ctx = ast.Store()
        new = ast.Assign(targets=[new_t], value=comp)
        ast.copy_location(new, nxt)
        ast.copy_location(comp, nxt)
        ast.fix_missing_locations(new)
        return new

    # ---- conditions: bool() wrappers dropped, negations pushed inwards (negation normal form)
    @staticmethod
    def _strip_bool(t):
        while isinstance(t, ast.Call) and _dotted(t.func) == "bool" and len(t.args) == 1 and not t.keywords:
            t = t.args[0]
        if isinstance(t, ast.BoolOp):
            t.values = [_Normalise._strip_bool(v) for v in t.values]
        elif isinstance(t, ast.UnaryOp) and isinstance(t.op, ast.Not):
            t.operand = _Normalise._strip_bool(t.operand)
        return t

    @staticmethod
    def _nnf(t, neg=False):
        if isinstance(t, ast.UnaryOp) and isinstance(t.op, ast.Not):
            return _Normalise._nnf(t.operand, not neg)
        if isinstance(t, ast.BoolOp):
            op = t.op
            if neg:
                op = ast.Or() if isinstance(t.op, ast.And) else ast.And()
            return ast.copy_location(ast.BoolOp(op=op, values=[_Normalise._nnf(v, neg) for v in t.values]), t)
        if isinstance(t, ast.IfExp) and (isinstance(t.body, ast.Constant) and isinstance(t.body.value, bool) or isinstance(t.orelse, ast.Constant) and isinstance(t.orelse.value, bool)):
            # in a condition only truthiness counts: `K if C else B` with a constant arm is a conjunction / disjunction
            c, a, b = t.test, t.body, t.orelse
            notc = ast.UnaryOp(op=ast.Not(), operand=copy.deepcopy(c))
            if isinstance(a, ast.Constant) and isinstance(a.value, bool):
                e = ast.BoolOp(op=ast.Or(), values=[c, b]) if a.value else ast.BoolOp(op=ast.And(), values=[notc, b])
            else:
                e = ast.BoolOp(op=ast.Or(), values=[notc, a]) if b.value else ast.BoolOp(op=ast.And(), values=[c, a])
            ast.copy_location(e, t)
            ast.fix_missing_locations(e)
            return _Normalise._nnf(e, neg)
        if neg and isinstance(t, ast.Compare) and len(t.ops) == 1 and type(t.ops[0]) in _NEG:
            return ast.copy_location(ast.Compare(left=t.left, ops=[_NEG[type(t.ops[0])]()], comparators=t.comparators), t)
        return ast.copy_location(ast.UnaryOp(op=ast.Not(), operand=t), t) if neg else t

    def _cond(self, t):
        return self._nnf(self._strip_bool(t))

    def visit_If(self, node):
        self.generic_visit(node)
        node.test = self._cond(node.test)
        return node

    def visit_While(self, node):
        self.generic_visit(node)
        node.test = self._cond(node.test)
        return node

    def visit_IfExp(self, node):
        self.generic_visit(node)
        node.test = self._cond(node.test)
        return node

    def visit_UnaryOp(self, node):
        self.generic_visit(node)
        if isinstance(node.op, ast.Not):
            o = node.operand
            if isinstance(o, ast.UnaryOp) and isinstance(o.op, ast.Not) and False:
                return o.operand
            if isinstance(o, ast.Compare) and len(o.ops) == 1 and type(o.ops[0]) in _NEG:
                o.ops = [_NEG[type(o.ops[0])]()]
                return ast.copy_location(o, node)
        return node


def _drop_unreferenced(tree, helpers: dict):
    for key, fn in helpers.items():
        name = fn.name
        refs = 0
        for n in ast.walk(tree):
            if n is fn:
                continue
            if (isinstance(n, ast.Attribute) and n.attr == name) or (isinstance(n, ast.Name) and n.id == name):
                inside = any(n is x for x in ast.walk(fn))
                if not inside:
                    refs += 1
        if refs:
            continue
        for holder in ast.walk(tree):
            body = getattr(holder, "body", None)
            if isinstance(body, list) and fn in body:
                body.remove(fn)
                if not body:
                    body.append(ast.Pass())
    return tree


class _MatchToIf(ast.NodeTransformer):
    """`match` statements whose patterns are value / literal / class-without-positional-subpattern / wildcard patterns are
    rewritten as the if/elif chain the language defines them to be (one canonical form for both spellings)."""

    def __init__(self):
        self.n = 0

    def _pat(self, p, subj):
        """-> (condition expr | None for always, [binding stmts]) or raises ValueError when not convertible"""
        if isinstance(p, ast.MatchValue):
            return ast.Compare(left=copy.deepcopy(subj), ops=[ast.Eq()], comparators=[p.value]), []
        if isinstance(p, ast.MatchSingleton):
            return ast.Compare(left=copy.deepcopy(subj), ops=[ast.Is()], comparators=[ast.Constant(value=p.value)]), []
        if isinstance(p, ast.MatchAs):
            if p.pattern is None:
                if p.name is None:
                    return None, []
                return None, [ast.Assign(targets=[ast.Name(id=p.name, ctx=ast.Store())], value=copy.deepcopy(subj))]
            raise ValueError
        if isinstance(p, ast.MatchOr):
            conds = []
            for q in p.patterns:
                c, b = self._pat(q, subj)
                if c is None or b:
                    raise ValueError
                conds.append(c)
            return ast.BoolOp(op=ast.Or(), values=conds), []
        if isinstance(p, ast.MatchClass):
            if p.patterns:
                raise ValueError
            cond = ast.Call(func=ast.Name(id="isinstance", ctx=ast.Load()), args=[copy.deepcopy(subj), p.cls], keywords=[])
            conds, binds = [cond], []
            for attr, q in zip(p.kwd_attrs, p.kwd_patterns):
                sub = ast.Attribute(value=copy.deepcopy(subj), attr=attr, ctx=ast.Load())
                c, b = self._pat(q, sub)
                if c is not None:
                    conds.append(c)
                binds.extend(b)
            return (conds[0] if len(conds) == 1 else ast.BoolOp(op=ast.And(), values=conds)), binds
        raise ValueError

    def visit_Match(self, node):
        self.generic_visit(node)
        subj = node.subject
        pre = []
        try:
            if not _is_simple_expr(subj):
                self.n += 1
                nm = f"_match_subject{self.n}"
                pre.append(ast.Assign(targets=[ast.Name(id=nm, ctx=ast.Store())], value=subj))
                subj = ast.Name(id=nm, ctx=ast.Load())
            arms = []
            for c in node.cases:
                cond, binds = self._pat(c.pattern, subj)
                if c.guard is not None:
                    if binds:
                        raise ValueError
                    cond = c.guard if cond is None else ast.BoolOp(op=ast.And(), values=[cond, c.guard])
                arms.append((cond, binds, c))
        except ValueError:
            return node
        chain = None
        # build from the last arm backwards
        for cond, binds, c in reversed(arms):
            body = binds + c.body
            if cond is None:
                chain = body  # wildcard: everything after it is unreachable
                continue
            new_if = ast.If(test=cond, body=body, orelse=(chain if isinstance(chain, list) else ([chain] if chain is not None else [])))
            ast.copy_location(new_if, c.pattern)
            ast.copy_location(cond, c.pattern)
            chain = new_if
        if chain is None:
            return node
        out = pre + (chain if isinstance(chain, list) else [chain])
        for st in out:
            for x in ast.walk(st):
                if not hasattr(x, "lineno"):
                    ast.copy_location(x, node)
            ast.fix_missing_locations(st)
        return out


def _chain(d: str, ctx=None) -> ast.expr:
    parts = d.split(".")
    e = ast.Name(id=parts[0], ctx=ast.Load())
    for p in parts[1:]:
        e = ast.Attribute(value=e, attr=p, ctx=ast.Load())
    return e


class _ImportStyle(ast.NodeTransformer):
    """Re-spells references to imported names in the import vocabulary of the reference tree (`from asyncio import timeout`
    + `timeout(...)` -> `asyncio.timeout(...)` when the reference module does `import asyncio`, and the like)."""

    def __init__(self, cur: dict, ref: dict, shadowed: set):
        self.cur, self.ref, self.shadowed = cur, ref, shadowed
        self.differs = {a for a, t in cur.items() if ref.get(a) != t and a not in shadowed}
        # reference spellings, longest target first
        self.targets = sorted(((t, a) for a, t in ref.items()), key=lambda x: -len(x[0]))
        self.used = set()
        self.changed = []

    def _respell(self, q: str) -> Optional[str]:
        for t, a in self.targets:
            if q == t or q.startswith(t + "."):
                self.used.add(a)
                return a + q[len(t):]
        return None

    def visit_Attribute(self, node):
        d = _dotted(node)
        if d is not None:
            root = d.split(".")[0]
            if root in self.differs and isinstance(node.ctx, ast.Load):
                q = self.cur[root] + d[len(root):]
                new = self._respell(q)
                if new is not None and new != d:
                    self.changed.append((d, new))
                    e = _chain(new)
                    for y in ast.walk(e):
                        ast.copy_location(y, node)
                    return e
            return node
        return self.generic_visit(node)

    def visit_Name(self, node):
        if node.id in self.differs and isinstance(node.ctx, ast.Load):
            new = self._respell(self.cur[node.id])
            if new is not None and new != node.id:
                self.changed.append((node.id, new))
                e = _chain(new)
                for y in ast.walk(e):
                    ast.copy_location(y, node)
                return e
        return node

    def visit_Import(self, node):
        return node

    def visit_ImportFrom(self, node):
        return node


def _respell_imports(tree: ast.Module, modname: str, ref_imports: dict, notes: list, is_pkg: bool = False):
    cur = import_table(tree, modname, is_pkg)
    if cur == ref_imports:
        return tree
    shadowed = set()
    for n in ast.walk(tree):
        if isinstance(n, ast.Name) and isinstance(n.ctx, (ast.Store, ast.Del)):
            shadowed.add(n.id)
        elif isinstance(n, ast.arg):
            shadowed.add(n.arg)
        elif isinstance(n, (ast.FunctionDef, ast.AsyncFunctionDef, ast.ClassDef)):
            shadowed.add(n.name)
    t = _ImportStyle(cur, ref_imports, shadowed)
    tree = t.visit(tree)
    if t.changed:
        # make the reference spellings resolvable: add the reference's import statements for the aliases now in use
        new_imports = []
        for a in sorted(t.used):
            if cur.get(a) == ref_imports[a]:
                continue
            tgt = ref_imports[a]
            if "." in tgt and a == tgt.rsplit(".", 1)[1] and not tgt.startswith(a + "."):
                new_imports.append(ast.ImportFrom(module=tgt.rsplit(".", 1)[0], names=[ast.alias(name=a)], level=0))
            elif a == tgt:
                new_imports.append(ast.Import(names=[ast.alias(name=tgt)]))
            else:
                new_imports.append(ast.Import(names=[ast.alias(name=tgt, asname=a)]))
        for ni in new_imports:
            ni.lineno, ni.col_offset, ni.end_lineno, ni.end_col_offset = 1, 0, 1, 0
        pos = 1 if tree.body and isinstance(tree.body[0], ast.Expr) and isinstance(tree.body[0].value, ast.Constant) else 0
        tree.body[pos:pos] = new_imports
        notes.append("import style: " + ", ".join(sorted({f"{a} -> {b}" for a, b in t.changed}))[:300])
    return tree


class _SplitHandler(ast.NodeTransformer):
    """`except Exception as ex:` whose body starts with an `if isinstance(ex, A): X elif isinstance(ex, B): Y else: Z` chain
    followed by a common TAIL is the same as `except A as ex: X; TAIL` / `except B as ex: Y; TAIL` / `except Exception as ex: Z; TAIL`
    (clauses are tried in order, A and B being exception classes below Exception)."""

    def visit_Try(self, node):
        self.generic_visit(node)
        new_handlers = []
        for h in node.handlers:
            split = self._split(h)
            new_handlers.extend(split if split else [h])
        node.handlers = new_handlers
        return node

    @staticmethod
    def _split(h):
        if h.name is None or _dotted(h.type) not in ("Exception", "BaseException") or not h.body or not isinstance(h.body[0], ast.If):
            return None
        arms = []
        cur = h.body[0]
        while True:
            t = cur.test
            if not (isinstance(t, ast.Call) and _dotted(t.func) == "isinstance" and len(t.args) == 2 and isinstance(t.args[0], ast.Name) and t.args[0].id == h.name and (_dotted(t.args[1]) or isinstance(t.args[1], ast.Tuple))):
                return None
            arms.append((t.args[1], cur.body))
            if len(cur.orelse) == 1 and isinstance(cur.orelse[0], ast.If):
                cur = cur.orelse[0]
                continue
            default = cur.orelse
            break
        tail = h.body[1:]
        if any(isinstance(x, ast.Name) and x.id == h.name and isinstance(x.ctx, ast.Store) for b in h.body for x in ast.walk(b)):
            return None
        out = []
        for typ, body in arms:
            nh = ast.ExceptHandler(type=typ, name=h.name, body=list(body) + [copy.deepcopy(x) for x in tail] or [ast.Pass()])
            ast.copy_location(nh, body[0] if body else h)
            out.append(nh)
        nh = ast.ExceptHandler(type=h.type, name=h.name, body=(list(default) + list(tail)) or [ast.Pass()])
        ast.copy_location(nh, h)
        out.append(nh)
        for x in out:
            ast.fix_missing_locations(x)
        return out


class _TryElse(ast.NodeTransformer):
    """`try: v = E  except X: H  else: return v` is `try: return E  except X: H` when v is a plain local used nowhere else
    in the statement: the else clause runs exactly when E did not raise, and binding a local or returning it cannot raise.
    More generally an else clause is appended to the try body when the handlers cannot be entered from it, i.e. when it
    consists of statements that cannot raise (`return <name>` / `<name> = <name>` / pass)."""

    def visit_Try(self, node):
        self.generic_visit(node)
        if node.orelse and not node.finalbody and len(node.body) == 1 and isinstance(node.body[0], ast.Assign) and len(node.body[0].targets) == 1 and isinstance(node.body[0].targets[0], ast.Name):
            v = node.body[0].targets[0].id
            first = node.orelse[0]
            uses_elsewhere = sum(1 for st in node.orelse[1:] for x in ast.walk(st) if isinstance(x, ast.Name) and x.id == v) + sum(1 for h in node.handlers for x in ast.walk(h) if isinstance(x, ast.Name) and x.id == v)
            if len(node.orelse) == 1 and isinstance(first, ast.Return) and isinstance(first.value, ast.Name) and first.value.id == v and not uses_elsewhere:
                ret = ast.Return(value=node.body[0].value)
                ast.copy_location(ret, node.body[0])
                node.body = [ret]
                node.orelse = []
        return node


class _Walrus(ast.NodeTransformer):
    """`if (x := E) ...:` / `stmt(... (x := E) ...)`: when the assignment expression is the first thing the statement evaluates
    (and, for an `if`, sits in its test), it is hoisted: `x = E` followed by the statement using `x`."""

    def _blocks(self, node):
        for field in ("body", "orelse", "finalbody"):
            b = getattr(node, field, None)
            if isinstance(b, list) and b and isinstance(b[0], ast.stmt):
                setattr(node, field, self._block(b))

    def generic_visit(self, node):
        super().generic_visit(node)
        if isinstance(node, (ast.stmt, ast.Module, ast.ExceptHandler, ast.match_case)):
            self._blocks(node)
        return node

    @staticmethod
    def _first_walrus(expr):
        """the NamedExpr that is evaluated before anything with a side effect in expr, or None"""
        order = []

        def post(e):
            if isinstance(e, (ast.Lambda, ast.ListComp, ast.SetComp, ast.DictComp, ast.GeneratorExp)):
                return
            if isinstance(e, ast.BoolOp):
                post(e.values[0])  # only the first operand is evaluated unconditionally
                order.append(("stop", e))
                return
            if isinstance(e, ast.IfExp):
                post(e.test)
                order.append(("stop", e))
                return
            if isinstance(e, ast.NamedExpr):
                post(e.value)
                order.append(("walrus", e))
                return
            for ch in ast.iter_child_nodes(e):
                if isinstance(ch, ast.expr):
                    post(ch)
                elif isinstance(ch, ast.keyword):
                    post(ch.value)
            if isinstance(e, (ast.Call, ast.Await)):
                order.append(("effect", e))

        post(expr)
        for kind, e in order:
            if kind == "walrus":
                # effects inside its own value are part of it; anything before it disqualifies
                return e
            if kind == "effect":
                inner = False
                for k2, w in order:
                    if k2 == "walrus" and any(x is e for x in ast.walk(w.value)):
                        inner = True
                if not inner:
                    return None
            if kind == "stop":
                return None
        return None

    def _block(self, stmts):
        out = []
        for st in stmts:
            while True:
                expr = None
                if isinstance(st, ast.If):
                    expr = st.test
                elif isinstance(st, (ast.Expr, ast.Assign, ast.Return, ast.AugAssign, ast.AnnAssign)) and getattr(st, "value", None) is not None:
                    expr = st.value
                w = self._first_walrus(expr) if expr is not None else None
                if w is None and expr is not None:
                    # an assignment expression whose value is pure arithmetic over names / attributes / constants can be
                    # evaluated early wherever it sits, provided its target is not read earlier in the same statement
                    for cand in ast.walk(expr):
                        if isinstance(cand, ast.NamedExpr) and isinstance(cand.target, ast.Name) and _pure_arith(cand.value) and not any(isinstance(y, (ast.Lambda, ast.ListComp, ast.SetComp, ast.DictComp, ast.GeneratorExp)) and any(z is cand for z in ast.walk(y)) for y in ast.walk(expr)):
                            names_in_value = {z.id for z in ast.walk(cand.value) if isinstance(z, ast.Name)}
                            other_stores = [z for z in ast.walk(expr) if isinstance(z, ast.NamedExpr) and z is not cand and isinstance(z.target, ast.Name) and (z.target.id == cand.target.id or z.target.id in names_in_value)]
                            pos = (cand.lineno, cand.col_offset)
                            early_reads = [z for z in ast.walk(expr) if isinstance(z, ast.Name) and z.id == cand.target.id and isinstance(z.ctx, ast.Load) and (z.lineno, z.col_offset) < pos]
                            if not other_stores and not early_reads:
                                w = cand
                                break
                if w is None or not isinstance(w.target, ast.Name):
                    break
                a = ast.Assign(targets=[ast.Name(id=w.target.id, ctx=ast.Store())], value=w.value)
                ast.copy_location(a, w)
                ast.fix_missing_locations(a)
                out.append(a)

                class R(ast.NodeTransformer):
                    def visit_NamedExpr(s2, node):
                        if node is w:
                            return ast.copy_location(ast.Name(id=w.target.id, ctx=ast.Load()), node)
                        return s2.generic_visit(node)

                st = R().visit(st)
            out.append(st)
        return out


class _SuppressToTry(ast.NodeTransformer):
    """`with contextlib.suppress(E1, E2): BODY`  ->  `try: BODY / except (E1, E2): pass` (the documented meaning)."""

    def visit_With(self, node):
        self.generic_visit(node)
        if len(node.items) == 1 and node.items[0].optional_vars is None:
            c = node.items[0].context_expr
            if isinstance(c, ast.Call) and (_dotted(c.func) or "").split(".")[-1] == "suppress" and c.args and not c.keywords:
                typ = c.args[0] if len(c.args) == 1 else ast.Tuple(elts=list(c.args), ctx=ast.Load())
                h = ast.ExceptHandler(type=typ, name=None, body=[ast.Pass()])
                t = ast.Try(body=node.body, handlers=[h], orelse=[], finalbody=[])
                ast.copy_location(t, node)
                ast.copy_location(h, node)
                ast.copy_location(h.body[0], node)
                ast.fix_missing_locations(t)
                return t
        return node


class _HoistChained(ast.NodeTransformer):
    """`self._pick(x).method(...)` inside a simple statement -> `_hc = self._pick(x)` before it, `_hc.method(...)` in place (the rules
    read the object picked at run time from a local).  Only when nothing else with an effect is evaluated before the hoisted call:
    every other call of the statement contains it, and it is not under a conditional / lazy construct."""

    def __init__(self):
        self.n = 0

    def generic_visit(self, node):
        super().generic_visit(node)
        if isinstance(node, (ast.stmt, ast.Module, ast.ExceptHandler)):
            for field in ("body", "orelse", "finalbody"):
                b = getattr(node, field, None)
                if isinstance(b, list) and b and isinstance(b[0], ast.stmt):
                    setattr(node, field, [y for st in b for y in self._stmt(st)])
        return node

    def _stmt(self, st):
        if not isinstance(st, (ast.Assign, ast.Return, ast.Expr, ast.AugAssign, ast.AnnAssign)) or getattr(st, "value", None) is None:
            return [st]
        parent = {}
        for x in ast.walk(st.value):
            for c in ast.iter_child_nodes(x):
                parent[id(c)] = x
        for x in ast.walk(st.value):
            if not (isinstance(x, ast.Call) and isinstance(x.func, ast.Attribute) and isinstance(x.func.value, ast.Call)):
                continue
            inner = x.func.value
            d = _dotted(inner.func) or ""
            if not (d.startswith("self._") and d.count(".") == 1):
                continue
            anc, lazy = set(), False
            y = inner
            while id(y) in parent:
                y = parent[id(y)]
                anc.add(id(y))
                if isinstance(y, (ast.BoolOp, ast.IfExp, ast.Lambda, ast.GeneratorExp, ast.ListComp, ast.SetComp, ast.DictComp)):
                    lazy = True
            if isinstance(parent.get(id(inner)), ast.Await) or lazy:
                continue
            mine = {id(z) for z in ast.walk(inner)}
            others = [z for z in ast.walk(st.value) if isinstance(z, (ast.Call, ast.Await, ast.NamedExpr, ast.Yield, ast.YieldFrom)) and id(z) not in mine]
            if any(id(z) not in anc for z in others):
                continue
            self.n += 1
            t = f"_hc{self.n}"
            a = ast.Assign(targets=[ast.Name(id=t, ctx=ast.Store())], value=inner)
            ast.copy_location(a, st)
            x.func.value = ast.copy_location(ast.Name(id=t, ctx=ast.Load()), inner)
            ast.fix_missing_locations(a)
            return [a] + self._stmt(st)
        return [st]


class _OrDefault(ast.NodeTransformer):
    """`return C(...) or D`  ->  `t = C(...)`, `if t: return t`, `return D`;  `x = C(...) or D`  ->  `x = C(...)`, `if not x: x = D`
    (exactly what `or` means; the if-form is the one the rules read)."""

    def __init__(self):
        self.n = 0

    def _blocks(self, node):
        for field in ("body", "orelse", "finalbody"):
            b = getattr(node, field, None)
            if isinstance(b, list) and b and isinstance(b[0], ast.stmt):
                setattr(node, field, self._block(b))

    def generic_visit(self, node):
        super().generic_visit(node)
        if isinstance(node, (ast.stmt, ast.Module, ast.ExceptHandler)):
            self._blocks(node)
        return node

    def _hoist_ifexp_args(self, st):
        """`await f(a, p=X if c else Y)` -> `_ifx = X if c else Y`, `await f(a, p=_ifx)` when the conditional expression is call-free
        (it only selects between names / constants, so evaluating it before the other arguments changes nothing)."""
        v = getattr(st, "value", None)
        if not isinstance(st, (ast.Expr, ast.Assign, ast.Return)) or v is None:
            return []
        call = v.value if isinstance(v, ast.Await) else v
        if not isinstance(call, ast.Call):
            return []
        pre = []
        def pure(e):
            return not any(isinstance(x, (ast.Call, ast.Await, ast.NamedExpr, ast.Lambda, ast.Yield, ast.YieldFrom)) for x in ast.walk(e))
        def tmp(e):
            self.n += 1
            t = f"_ifx{self.n}"
            a = ast.Assign(targets=[ast.Name(id=t, ctx=ast.Store())], value=e)
            ast.copy_location(a, st)
            pre.append(a)
            return ast.copy_location(ast.Name(id=t, ctx=ast.Load()), e)
        for i, a in enumerate(call.args):
            if isinstance(a, ast.IfExp) and pure(a):
                call.args[i] = tmp(a)
        for k in call.keywords:
            if isinstance(k.value, ast.IfExp) and pure(k.value):
                k.value = tmp(k.value)
        for a in pre:
            ast.fix_missing_locations(a)
        return pre

    def _block(self, stmts):
        out = []
        stmts = [y for st in stmts for y in (self._hoist_ifexp_args(st) + [st])]
        for st in stmts:
            v = getattr(st, "value", None)
            if isinstance(st, (ast.Return, ast.Assign)) and isinstance(v, ast.IfExp) and (isinstance(st, ast.Return) or (len(st.targets) == 1 and isinstance(st.targets[0], ast.Name))):
                # `return A if C else B` -> `if C: return A` / `return B`;  `x = A if C else B` -> if/else assignments
                if isinstance(st, ast.Return):
                    new = [ast.If(test=v.test, body=[ast.Return(value=v.body)], orelse=[]), ast.Return(value=v.orelse)]
                else:
                    mk = lambda val: ast.Assign(targets=[ast.Name(id=st.targets[0].id, ctx=ast.Store())], value=val)  # noqa: E731
                    new = [ast.If(test=v.test, body=[mk(v.body)], orelse=[mk(v.orelse)])]
                for nst in new:
                    for y in ast.walk(nst):
                        if not hasattr(y, "lineno"):
                            ast.copy_location(y, st)
                    ast.fix_missing_locations(nst)
                out.extend(self._block(new))
                continue
            if isinstance(st, (ast.Return, ast.Assign)) and isinstance(v, ast.BoolOp) and isinstance(v.op, ast.Or) and len(v.values) == 2 and isinstance(v.values[0], ast.Call) and isinstance(v.values[0].func, ast.Attribute) and v.values[0].func.attr == "get" and not isinstance(v.values[1], ast.Await):
                first, second = v.values
                if isinstance(st, ast.Return):
                    self.n += 1
                    t = f"_or{self.n}"
                    a = ast.Assign(targets=[ast.Name(id=t, ctx=ast.Store())], value=first)
                    i = ast.If(test=ast.Name(id=t, ctx=ast.Load()), body=[ast.Return(value=ast.Name(id=t, ctx=ast.Load()))], orelse=[])
                    r = ast.Return(value=second)
                    new = [a, i, r]
                elif len(st.targets) == 1 and isinstance(st.targets[0], ast.Name):
                    x = st.targets[0].id
                    a = ast.Assign(targets=[ast.Name(id=x, ctx=ast.Store())], value=first)
                    i = ast.If(test=ast.UnaryOp(op=ast.Not(), operand=ast.Name(id=x, ctx=ast.Load())), body=[ast.Assign(targets=[ast.Name(id=x, ctx=ast.Store())], value=second)], orelse=[])
                    new = [a, i]
                else:
                    out.append(st)
                    continue
                for nst in new:
                    for y in ast.walk(nst):
                        if not hasattr(y, "lineno"):
                            ast.copy_location(y, st)
                    ast.fix_missing_locations(nst)
                out.extend(new)
            else:
                out.append(st)
        return out


class _FlagDispatch(ast.NodeTransformer):
    """`x = K0`, an if-tree whose leaves only assign constants to x, `if <test on x>: A else: B`  ->  the same if-tree with the
    branch of the final test that the constant selects appended to each leaf (the implicit else leaf takes K0).  Exactly the same
    executions: the final test reads nothing but x and x is a known constant at the end of every leaf.  The rules read control
    dependence; a "decide, then act once" flag hides it behind a data dependence."""

    def _blocks(self, node):
        for field in ("body", "orelse", "finalbody"):
            b = getattr(node, field, None)
            if isinstance(b, list) and b and isinstance(b[0], ast.stmt):
                setattr(node, field, self._block(b))

    def generic_visit(self, node):
        super().generic_visit(node)
        if isinstance(node, (ast.stmt, ast.Module, ast.ExceptHandler)):
            self._blocks(node)
        return node

    @staticmethod
    def _const_assign(st):
        if isinstance(st, ast.Assign) and len(st.targets) == 1 and isinstance(st.targets[0], ast.Name) and isinstance(st.value, ast.Constant):
            return st.targets[0].id, st.value
        if isinstance(st, ast.AnnAssign) and isinstance(st.target, ast.Name) and isinstance(st.value, ast.Constant):
            return st.target.id, st.value
        return None

    @classmethod
    def _fold(cls, t, x, k):
        """truth of a test over the single local x when x == k (None: not decidable)"""
        if isinstance(t, ast.Name) and t.id == x:
            return bool(k.value)
        if isinstance(t, ast.UnaryOp) and isinstance(t.op, ast.Not):
            v = cls._fold(t.operand, x, k)
            return None if v is None else not v
        if isinstance(t, ast.BoolOp):
            vs = [cls._fold(v, x, k) for v in t.values]
            if any(v is None for v in vs):
                return None
            return all(vs) if isinstance(t.op, ast.And) else any(vs)
        if isinstance(t, ast.Compare) and len(t.ops) == 1:
            a, b = t.left, t.comparators[0]
            val = lambda e: k if isinstance(e, ast.Name) and e.id == x else (e if isinstance(e, ast.Constant) else None)  # noqa: E731
            va, vb = val(a), val(b)
            if va is None or vb is None:
                return None
            op = t.ops[0]
            if isinstance(op, (ast.Is, ast.IsNot)):
                if va.value is None or vb.value is None or isinstance(va.value, bool) or isinstance(vb.value, bool):
                    same = va.value is vb.value
                    return same if isinstance(op, ast.Is) else not same
                return None
            if isinstance(op, (ast.Eq, ast.NotEq)):
                same = type(va.value) is type(vb.value) and va.value == vb.value
                return same if isinstance(op, ast.Eq) else not same
        return None

    def _leaves_only_assign(self, tree: ast.If, x: str) -> bool:
        for blk in (tree.body, tree.orelse):
            if len(blk) == 1 and isinstance(blk[0], ast.If) and blk is tree.orelse:
                if not self._leaves_only_assign(blk[0], x):
                    return False
                continue
            for st in blk:
                ca = self._const_assign(st)
                if ca is None or ca[0] != x:
                    return False
        # the tests of the tree must not read x
        return not any(isinstance(n, ast.Name) and n.id == x for n in ast.walk(tree.test))

    def _specialise(self, tree: ast.If, x: str, k0, final: ast.If):
        def leaf(blk, k):
            for st in blk:
                k = self._const_assign(st)[1]
            v = self._fold(final.test, x, k)
            if v is None:
                raise ValueError
            return blk + copy.deepcopy(final.body if v else final.orelse)
        new = copy.copy(tree)
        new.body = leaf(list(tree.body), k0)
        if len(tree.orelse) == 1 and isinstance(tree.orelse[0], ast.If):
            new.orelse = [self._specialise(tree.orelse[0], x, k0, final)]
        else:
            new.orelse = leaf(list(tree.orelse), k0)
        return new

    def _block(self, stmts):
        out = list(stmts)
        i = 0
        while i + 2 < len(out):
            ca = self._const_assign(out[i])
            tree, final = out[i + 1], out[i + 2]
            if ca is not None and isinstance(tree, ast.If) and isinstance(final, ast.If) and self._leaves_only_assign(tree, ca[0]):
                x, k0 = ca
                names = {n.id for n in ast.walk(final.test) if isinstance(n, ast.Name)}
                if names == {x} and not any(isinstance(n, (ast.Call, ast.Await, ast.Attribute, ast.Subscript, ast.NamedExpr)) for n in ast.walk(final.test)):
                    try:
                        new = self._specialise(tree, x, k0, final)
                    except ValueError:
                        new = None
                    if new is not None:
                        ast.fix_missing_locations(new)
                        out[i + 1:i + 3] = [new]
            i += 1
        return out


class _AliasFold(ast.NodeTransformer):
    """`x = self.a.b` (single assignment of local x, the chain is not stored to in the function): later loads of x read the chain.
    Analysis vocabulary only: rules name state by its attribute path, a local alias is transparent to them."""

    def visit_FunctionDef(self, fn):
        self.generic_visit(fn)
        stores = {}
        for x in _walk_fn(fn):
            if isinstance(x, ast.Name) and isinstance(x.ctx, (ast.Store, ast.Del)):
                stores[x.id] = stores.get(x.id, 0) + 1
        params = {a.arg for a in fn.args.posonlyargs + fn.args.args + fn.args.kwonlyargs}
        stored_chains = set()
        for x in _walk_fn(fn):
            if isinstance(x, ast.Attribute) and isinstance(x.ctx, (ast.Store, ast.Del)):
                d = _dotted(x)
                if d:
                    stored_chains.add(d)
        cands = {}
        for blk_owner in _walk_fn(fn):
            for field in ("body", "orelse", "finalbody"):
                blk = getattr(blk_owner, field, None)
                if not isinstance(blk, list):
                    continue
                for st in blk:
                    tgt = val = None
                    if isinstance(st, ast.Assign) and len(st.targets) == 1:
                        tgt, val = st.targets[0], st.value
                    elif isinstance(st, ast.AnnAssign) and st.value is not None:
                        tgt, val = st.target, st.value
                    if not (isinstance(tgt, ast.Name) and isinstance(val, ast.Attribute)):
                        continue
                    d = _dotted(val)
                    root = d.split(".")[0] if d else None
                    if not d or not (root in ("self", "cls") or (root in params and root not in stores)) or stores.get(tgt.id) != 1 or tgt.id in params:
                        continue
                    clash = [c for c in stored_chains if d == c or d.startswith(c + ".") or c.startswith(d + ".")]
                    cands[tgt.id] = (st, val, blk, clash)
        if not cands:
            return fn
        # nested functions that capture the alias keep it
        for x in ast.walk(fn):
            if x is not fn and isinstance(x, (ast.FunctionDef, ast.AsyncFunctionDef, ast.Lambda)):
                for y in ast.walk(x):
                    if isinstance(y, ast.Name) and y.id in cands:
                        cands.pop(y.id, None)
        order = {}

        def number(node):
            order[id(node)] = len(order)
            for ch in ast.iter_child_nodes(node):
                if not isinstance(ch, (ast.FunctionDef, ast.AsyncFunctionDef, ast.ClassDef, ast.Lambda)):
                    number(ch)

        number(fn)
        loops = [x for x in _walk_fn(fn) if isinstance(x, (ast.For, ast.AsyncFor, ast.While))]
        for name, (st, val, blk, clash) in list(cands.items()):
            uses = [x for x in _walk_fn(fn) if isinstance(x, ast.Name) and x.id == name and isinstance(x.ctx, ast.Load)]
            if any(order.get(id(u), -1) <= order.get(id(st), 0) for u in uses):
                cands.pop(name)
                continue
            if clash:
                # the state is re-assigned in this function: fold only if every use of the alias comes before the first such
                # store and that store is not inside a loop (so no use can follow a store at run time)
                stores_ = [x for x in _walk_fn(fn) if isinstance(x, ast.Attribute) and isinstance(x.ctx, (ast.Store, ast.Del)) and _dotted(x) in clash]
                first = min(order.get(id(x), 10**9) for x in stores_)
                in_loop = any(any(y is x for y in ast.walk(lp)) for lp in loops for x in stores_)
                if in_loop or any(order.get(id(u), 0) >= first for u in uses) or order.get(id(st), 0) >= first:
                    cands.pop(name)
        if not cands:
            return fn

        class S(ast.NodeTransformer):
            def visit_Name(s2, node):
                if isinstance(node.ctx, ast.Load) and node.id in cands:
                    new = copy.deepcopy(cands[node.id][1])
                    for y in ast.walk(new):
                        ast.copy_location(y, node)
                    return new
                return node

        for name, (st, val, blk, _clash) in cands.items():
            blk.remove(st)
            if not blk:
                blk.append(ast.copy_location(ast.Pass(), st))
        fn = S().visit(fn)
        return fn

    visit_AsyncFunctionDef = visit_FunctionDef



# ---------------------------------------------------------------------------------------------- new named constants
def _const_expr(e) -> bool:
    """Immutable, side-effect free expression over literals and (module-level) names."""
    if isinstance(e, ast.Constant):
        return True
    if isinstance(e, ast.Name):
        return True
    if isinstance(e, ast.Attribute):
        return _const_expr(e.value)
    if isinstance(e, ast.Tuple):
        return all(_const_expr(x) for x in e.elts)
    if isinstance(e, ast.BinOp):
        return _const_expr(e.left) and _const_expr(e.right)
    if isinstance(e, ast.UnaryOp):
        return _const_expr(e.operand)
    if isinstance(e, ast.Subscript):
        return _const_expr(e.value) and isinstance(e.slice, (ast.Constant, ast.UnaryOp)) and _const_expr(e.slice)
    return False


def _inline_new_constants(tree: ast.Module, ref: dict, notes: list) -> ast.Module:
    """A private module-level name the reference tree does not have, bound exactly once to an immutable expression (a literal, a
    tuple of names, arithmetic over other constants), is an *explaining constant*: its uses are replaced by the expression and
    the definition is dropped.  Nothing is done when the name is rebound anywhere, shadowed in a scope that uses it, or when a
    name inside its value is shadowed at a use."""
    known = set(ref.get("names", {}))
    for _ in range(4):
        cands = {}
        stores = {}
        # one module-level import / def / class binding of a name is its definition, not a shadowing
        top = {id(st) for st in tree.body} | {id(a) for st in tree.body if isinstance(st, (ast.Import, ast.ImportFrom)) for a in st.names}
        for x in ast.walk(tree):
            if isinstance(x, ast.Name) and isinstance(x.ctx, (ast.Store, ast.Del)):
                stores[x.id] = stores.get(x.id, 0) + 1
            elif isinstance(x, (ast.Global, ast.Nonlocal)):
                for n in x.names:
                    stores[n] = stores.get(n, 0) + 5
            elif isinstance(x, ast.arg):
                stores[x.arg] = stores.get(x.arg, 0) + 5
            elif isinstance(x, (ast.FunctionDef, ast.AsyncFunctionDef, ast.ClassDef)):
                stores[x.name] = stores.get(x.name, 0) + (1 if id(x) in top else 5)
            elif isinstance(x, ast.alias):
                nm = (x.asname or x.name).split(".")[0]
                stores[nm] = stores.get(nm, 0) + (1 if id(x) in top else 5)
        for st in tree.body:
            tgt = val = None
            if isinstance(st, ast.Assign) and len(st.targets) == 1 and isinstance(st.targets[0], ast.Name):
                tgt, val = st.targets[0].id, st.value
            elif isinstance(st, ast.AnnAssign) and isinstance(st.target, ast.Name) and st.value is not None:
                tgt, val = st.target.id, st.value
            if tgt is None or not _is_private(tgt) or tgt in known or tgt.startswith("__"):
                continue
            if stores.get(tgt, 0) != 1 or not _const_expr(val):
                continue
            if isinstance(val, ast.Tuple) and any(isinstance(r, ast.Tuple) for r in val.elts):
                continue  # a table of rows keeps its name (loops over it are unrolled by _Normalise, evaluators resolve the name)
            inner = {n.id for n in ast.walk(val) if isinstance(n, ast.Name)}
            if tgt in inner or any(stores.get(n, 0) > 1 and n not in known for n in inner):
                # a name of the value that is bound several times (e.g. also as a local somewhere) could be shadowed at a use
                if any(stores.get(n, 0) > 1 for n in inner):
                    continue
            cands[tgt] = (st, val)
        # one layer per round: a candidate whose value mentions another candidate waits for the next round
        cands = {k: v for k, v in cands.items() if not any(isinstance(n, ast.Name) and n.id in cands for n in ast.walk(v[1]))}
        if not cands:
            break
        sub = _Subst({k: v[1] for k, v in cands.items()})
        sub.visit_Lambda = sub.generic_visit  # candidates are never parameter names (see `stores`)
        drop = {id(v[0]) for v in cands.values()}
        tree.body = [st for st in tree.body if id(st) not in drop]
        # drop a docstring-style string expression that documented a removed constant is harmless to keep
        tree = sub.visit(tree)
        for k in sorted(cands):
            notes.append(f"inlined new constant {k}")
    return tree

class _PreNormalise(ast.NodeTransformer):
    """Rewrites that must precede helper inlining because they turn a function *reference* into a call statement:
    `map(F, xs)` -> generator expression, `for v in (E for y in ys)` -> loop with an assignment."""

    def __init__(self):
        self.n = _Normalise()

    def visit_Call(self, node):
        self.generic_visit(node)
        if _dotted(node.func) == "map":
            return _Normalise.visit_Call(self.n, node) if False else self._map(node)
        return node

    def _map(self, node):
        if len(node.args) == 2 and not node.keywords and _dotted(node.args[0]) and not isinstance(node.args[1], ast.Starred):
            self.k = getattr(self, "k", 0) + 1
            v = f"_m{self.k}"
            gen = ast.GeneratorExp(elt=ast.Call(func=node.args[0], args=[ast.Name(id=v, ctx=ast.Load())], keywords=[]), generators=[ast.comprehension(target=ast.Name(id=v, ctx=ast.Store()), iter=node.args[1], ifs=[], is_async=0)])
            for y in ast.walk(gen):
                if not hasattr(y, "lineno"):
                    ast.copy_location(y, node)
            return ast.copy_location(gen, node)
        return node

    def generic_visit(self, node):
        super().generic_visit(node)
        if isinstance(node, (ast.stmt, ast.Module, ast.ExceptHandler)):
            for field in ("body", "orelse", "finalbody"):
                b = getattr(node, field, None)
                if isinstance(b, list) and b and isinstance(b[0], ast.stmt):
                    setattr(node, field, [(_Normalise._for_over_generator(st) or st) for st in b])
        return node


# ---------------------------------------------------------------------------------------------- driver
def canonicalise(tree: ast.Module, modname: str, is_package: bool = False):
    """Returns (tree, notes). notes: list of strings describing what was rewritten."""
    notes = []
    ref = reference().get(modname)
    if ref is not None:
        if "imports" in ref:
            tree = _respell_imports(tree, modname, ref["imports"], notes, is_package)
        tree = move_back(tree, ref, notes)
        cur = census(tree)
        ren = detect_renames(cur, ref)
        if ren["module"] or any(v["methods"] or v["attrs"] for v in ren["classes"].values()):
            r = _Renamer(ren)
            tree = r.visit(tree)
            for c, slot in ren["classes"].items():
                for k in ("methods", "attrs"):
                    for a, b in slot[k].items():
                        notes.append(f"rename {c}.{a} -> {b}")
            for a, b in ren["module"].items():
                notes.append(f"rename {a} -> {b}")
            cur = census(tree)
        tree = _inline_new_constants(tree, ref, notes)
        tree = _PreNormalise().visit(tree)
        # helpers unknown to the reference
        helpers = {}
        for st in tree.body:
            if isinstance(st, (ast.FunctionDef, ast.AsyncFunctionDef)) and _is_private(st.name) and st.name not in ref.get("names", {}):
                helpers[st.name] = (st, False)
            elif isinstance(st, ast.ClassDef):
                rc = ref.get("classes", {}).get(st.name)
                if rc is None:
                    continue
                for m in st.body:
                    if isinstance(m, (ast.FunctionDef, ast.AsyncFunctionDef)) and _is_private(m.name) and m.name not in rc["methods"]:
                        if not m.decorator_list:
                            helpers[f"{st.name}.{m.name}"] = (m, True)
                        elif [_dotted(d) for d in m.decorator_list] == ["staticmethod"]:
                            helpers[f"{st.name}.{m.name}"] = (m, False)
        if helpers:
            inl = _Inliner(helpers)
            for _ in range(3):
                before = len(inl.done)
                tree = inl.visit(tree)
                if len(inl.done) == before:
                    break
            for k in sorted(set(inl.done)):
                notes.append(f"inlined new helper {k}")
            tree = _drop_unreferenced(tree, {k: v[0] for k, v in helpers.items() if k in set(inl.done)})
    tree = _Walrus().visit(tree)
    tree = _SplitHandler().visit(tree)
    tree = _TryElse().visit(tree)
    tree = _MatchToIf().visit(tree)
    tree = _SuppressToTry().visit(tree)
    tree = _HoistChained().visit(tree)
    tree = _OrDefault().visit(tree)
    tree = _FlagDispatch().visit(tree)
    tree = _AliasFold().visit(tree)
    tree = _Normalise(tree).visit(tree)
    ast.fix_missing_locations(tree)
    return tree, notes
