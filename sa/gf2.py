"""E8c - GF(2)-affine abstract interpretation of integer code (used to prove the CRC step for all inputs).

An abstract bit is an XOR of a constant and a set of symbolic input bits: (const, frozenset(vars)).
An abstract word is a tuple of such bits, least significant first, of fixed width.  The domain is
exact for programs built from xor, shifts by constants, and-with-constant, table lookups in tables
that are affine over GF(2) (verified entry by entry before use) and conditionals whose two arms differ
by a constant (`if crc & 1: crc = (crc >> 1) ^ P else: crc >>= 1`).  Anything else raises NonAffine.
"""
from __future__ import annotations

import ast
from typing import Optional

from .model import AnalysisError, Module, Repo, dotted, unparse

WIDTH = 32


class NonAffine(AnalysisError):
    pass


ZERO = (0, frozenset())


def const_word(v: int) -> tuple:
    return tuple(((v >> i) & 1, frozenset()) for i in range(WIDTH))


def sym_word(name: str, width: int) -> tuple:
    return tuple((0, frozenset({(name, i)})) if i < width else ZERO for i in range(WIDTH))


def is_const(w) -> bool:
    return all(not b[1] for b in w)


def const_value(w) -> int:
    return sum(b[0] << i for i, b in enumerate(w))


def xor(a, b):
    return tuple((x[0] ^ y[0], x[1] ^ y[1]) for x, y in zip(a, b))


def shr(a, n):
    return tuple(a[i + n] if i + n < WIDTH else ZERO for i in range(WIDTH))


def shl(a, n):
    return tuple(a[i - n] if i - n >= 0 else ZERO for i in range(WIDTH))


def and_const(a, c: int):
    return tuple(a[i] if (c >> i) & 1 else ZERO for i in range(WIDTH))


def or_const(a, c: int):
    out = []
    for i in range(WIDTH):
        if (c >> i) & 1:
            if a[i] != ZERO and a[i] != (1, frozenset()):
                raise NonAffine("or with a constant over a symbolic bit")
            out.append((1, frozenset()))
        else:
            out.append(a[i])
    return tuple(out)


def scale(bit, w):
    """bit * w for a symbolic bit and a constant word (linear)."""
    if not is_const(w):
        raise NonAffine("product of two symbolic values")
    c = const_value(w)
    return tuple(bit if (c >> i) & 1 else ZERO for i in range(WIDTH))


def table_is_affine(table: list) -> bool:
    n = len(table)
    k = n.bit_length() - 1
    if n != 1 << k:
        return False
    t0 = table[0]
    basis = [table[1 << i] ^ t0 for i in range(k)]
    for x in range(n):
        v = t0
        for i in range(k):
            if (x >> i) & 1:
                v ^= basis[i]
        if v != table[x]:
            return False
    return True


def lookup(table: list, index) -> tuple:
    """table[index] for a symbolic index, using the table's affinity (checked)."""
    if is_const(index):
        return const_word(table[const_value(index)])
    if not table_is_affine(table):
        raise NonAffine("lookup table is not affine over GF(2)")
    k = len(table).bit_length() - 1
    if any(index[i] != ZERO for i in range(k, WIDTH)):
        raise NonAffine("table index wider than the table")
    out = const_word(table[0])
    for i in range(k):
        if index[i] != ZERO:
            out = xor(out, scale(index[i], const_word(table[1 << i] ^ table[0])))
    return out


class Interp:
    def __init__(self, repo: Repo, module: Module, env: dict, tables: Optional[dict] = None):
        self.repo, self.module, self.env = repo, module, dict(env)
        self.tables = tables or {}

    def table(self, name: str) -> list:
        if name in self.tables:
            return self.tables[name]
        expr = self.module.assigns.get(name)
        if expr is not None and not isinstance(expr, (ast.List, ast.Tuple)):
            # a table computed at import time from pure integer code: evaluated by the checker's interpreter
            from .minieval import Mini, Unsupported

            try:
                vals = Mini(self.repo, self.module).ev(expr, {})
            except Unsupported as ex:
                raise NonAffine(f"{name} is neither a literal table nor an evaluable table expression ({ex})")
            if isinstance(vals, (list, tuple)) and all(isinstance(v, int) for v in vals):
                self.tables[name] = list(vals)
                return self.tables[name]
        if not isinstance(expr, (ast.List, ast.Tuple)):
            raise NonAffine(f"{name} is not a literal table")
        vals = []
        for e in expr.elts:
            v = self.repo.try_fold(self.module, e)
            if not isinstance(v, int):
                raise NonAffine(f"{name} has a non-constant entry")
            vals.append(v)
        self.tables[name] = vals
        return vals

    def ev(self, e: ast.expr):
        if isinstance(e, ast.Constant) and isinstance(e.value, int):
            return const_word(e.value)
        if isinstance(e, ast.Name):
            if e.id in self.env:
                return self.env[e.id]
            v = self.repo.try_fold(self.module, e)
            if isinstance(v, int):
                return const_word(v)
            raise NonAffine(f"unknown name {e.id}")
        if isinstance(e, ast.Attribute):
            v = self.repo.try_fold(self.module, e)
            if isinstance(v, int):
                return const_word(v)
            raise NonAffine(f"unknown attribute {unparse(e)}")
        if isinstance(e, ast.BinOp):
            a = self.ev(e.left)
            op = e.op
            if isinstance(op, ast.BitXor):
                return xor(a, self.ev(e.right))
            b = self.ev(e.right)
            if isinstance(op, (ast.RShift, ast.LShift)):
                if not is_const(b):
                    raise NonAffine("shift by a symbolic amount")
                return shr(a, const_value(b)) if isinstance(op, ast.RShift) else shl(a, const_value(b))
            if isinstance(op, ast.BitAnd):
                if is_const(b):
                    return and_const(a, const_value(b))
                if is_const(a):
                    return and_const(b, const_value(a))
                raise NonAffine("and of two symbolic values")
            if isinstance(op, ast.BitOr):
                if is_const(b):
                    return or_const(a, const_value(b))
                if is_const(a):
                    return or_const(b, const_value(a))
                # disjoint supports behave like xor
                if all(x == ZERO or y == ZERO for x, y in zip(a, b)):
                    return xor(a, b)
                raise NonAffine("or of two symbolic values")
            if isinstance(op, ast.FloorDiv) and is_const(b) and const_value(b) & (const_value(b) - 1) == 0 and const_value(b) > 0:
                return shr(a, const_value(b).bit_length() - 1)
            if isinstance(op, ast.Mod) and is_const(b) and const_value(b) & (const_value(b) - 1) == 0 and const_value(b) > 0:
                return and_const(a, const_value(b) - 1)
            if isinstance(op, ast.Mult) and is_const(b) and const_value(b) & (const_value(b) - 1) == 0 and const_value(b) > 0:
                return shl(a, const_value(b).bit_length() - 1)
            if isinstance(op, (ast.Add, ast.Sub)) and is_const(a) and is_const(b):
                return const_word((const_value(a) + const_value(b)) if isinstance(op, ast.Add) else (const_value(a) - const_value(b)))
            raise NonAffine(f"operator {type(op).__name__} is not affine")
        if isinstance(e, ast.Subscript) and isinstance(e.value, ast.Name):
            return lookup(self.table(e.value.id), self.ev(e.slice))
        if isinstance(e, ast.UnaryOp) and isinstance(e.op, ast.Invert):
            a = self.ev(e.operand)
            return tuple((b[0] ^ 1, b[1]) for b in a)
        raise NonAffine(f"expression not modelled: {unparse(e)}")

    def run(self, stmts):
        for s in stmts:
            if isinstance(s, ast.Expr) and isinstance(s.value, ast.Constant):
                continue
            if isinstance(s, ast.Assign) and len(s.targets) == 1 and isinstance(s.targets[0], ast.Name):
                self.env[s.targets[0].id] = self.ev(s.value)
            elif isinstance(s, ast.AnnAssign) and isinstance(s.target, ast.Name) and s.value is not None:
                self.env[s.target.id] = self.ev(s.value)
            elif isinstance(s, ast.AugAssign) and isinstance(s.target, ast.Name):
                self.env[s.target.id] = self.ev(ast.BinOp(left=ast.Name(id=s.target.id, ctx=ast.Load()), op=s.op, right=s.value))
            elif isinstance(s, ast.For) and isinstance(s.iter, ast.Call) and dotted(s.iter.func) == "range":
                n = self.repo.try_fold(self.module, s.iter.args[0]) if len(s.iter.args) == 1 else None
                if not isinstance(n, int) or n > 64:
                    raise NonAffine("loop bound not a small constant")
                for _ in range(n):
                    self.run(s.body)
            elif isinstance(s, ast.If):
                c = self.cond_bit(s.test)
                if c == ZERO:
                    self.run(s.orelse)
                elif c == (1, frozenset()):
                    self.run(s.body)
                else:
                    a = Interp(self.repo, self.module, self.env, self.tables)
                    a.run(s.body)
                    b = Interp(self.repo, self.module, self.env, self.tables)
                    b.run(s.orelse)
                    for k in set(a.env) | set(b.env):
                        if k not in a.env or k not in b.env:
                            raise NonAffine("variable defined on one arm only")
                        d = xor(a.env[k], b.env[k])
                        if not is_const(d):
                            raise NonAffine("conditional arms differ by a symbolic amount")
                        self.env[k] = xor(b.env[k], scale(c, d))
            elif isinstance(s, ast.Pass):
                pass
            else:
                raise NonAffine(f"statement not modelled: {unparse(s)[:60]}")

    def cond_bit(self, t: ast.expr):
        """Condition that is a single bit test: `x & 1`, `x & 0x0001 != 0`, `(x & 1) == 1`."""
        if isinstance(t, ast.Compare) and len(t.ops) == 1:
            l, r = self.ev(t.left), self.ev(t.comparators[0])
            if is_const(r):
                rv = const_value(r)
                nz = [i for i, b in enumerate(l) if b != ZERO]
                if len(nz) <= 1:
                    bit = l[nz[0]] if nz else ZERO
                    pos = nz[0] if nz else 0
                    if isinstance(t.ops[0], ast.NotEq) and rv == 0:
                        return bit
                    if isinstance(t.ops[0], ast.Eq) and rv == (1 << pos):
                        return bit
                    if isinstance(t.ops[0], ast.Eq) and rv == 0:
                        return (bit[0] ^ 1, bit[1])
            raise NonAffine("comparison is not a single-bit test")
        w = self.ev(t)
        nz = [b for b in w if b != ZERO]
        if not nz:
            return ZERO
        if len(nz) == 1:
            return nz[0]
        raise NonAffine("truthiness of a multi-bit value")


def reference_crc16_step(crc, val, poly: int = 0xA001):
    """Bitwise CRC-16 (reflected) step on abstract words: crc ^= val; 8 x (shift right, xor poly on carry)."""
    c = xor(crc, and_const(val, 0xFF))
    for _ in range(8):
        lsb = c[0]
        c = xor(shr(c, 1), scale(lsb, const_word(poly)) if lsb != ZERO and lsb != (1, frozenset()) else (const_word(poly) if lsb == (1, frozenset()) else const_word(0)))
    return c


def reference_table(poly: int = 0xA001) -> list:
    out = []
    for i in range(256):
        c = i
        for _ in range(8):
            c = (c >> 1) ^ poly if c & 1 else c >> 1
        out.append(c)
    return out


def reference_crc(data: bytes, init: int = 0xFFFF, poly: int = 0xA001) -> int:
    c = init
    for b in data:
        c ^= b
        for _ in range(8):
            c = (c >> 1) ^ poly if c & 1 else c >> 1
    return c
