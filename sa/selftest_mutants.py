"""Single-point mutants (must be refuted) and behaviour-preserving twins (must stay silent) for the checker self-test.

Each entry is a text edit applied to a scratch copy of the CURRENT tree; entries whose anchor text is absent are
skipped and counted.  (DESIGN Appendix C.)"""

S = "pyairtouch/comms/socket.py"
H = "pyairtouch/comms/heartbeat.py"
A4 = "pyairtouch/at4/api.py"
A5 = "pyairtouch/at5/api.py"
C4 = "pyairtouch/at4/comms/"
C5 = "pyairtouch/at5/comms/"
CRC = "pyairtouch/comms/crc16.py"
CM = "pyairtouch/comms/__init__.py"
DISC = "pyairtouch/comms/discovery.py"

MUTANTS = []
TWINS = []


def M(prop, mid, file, old, new):
    MUTANTS.append({"prop": prop, "id": f"{prop}.{mid}", "file": file, "old": old, "new": new})


def T(props, tid, file, old, new, every=False):
    TWINS.append({"props": props, "id": f"twin.{tid}", "file": file, "old": old, "new": new, "every": every})


# ------------------------------------------------------------------------------------------------ C01
M("C01", "append-left", S, "        self._message_queue.append(entry)", "        self._message_queue.appendleft(entry)")
M("C01", "pop-right", S, "entry = self._message_queue.popleft()", "entry = self._message_queue.pop()")
M("C01", "no-drain-after-enqueue", S, "        )\n        await self._drain_message_queue()\n\n    def _enqueue_message", "        )\n\n    def _enqueue_message")
M("C01", "no-drain-after-connect", S, "            # Send any buffered messages\n            await self._drain_message_queue()\n", "")
M("C01", "swap-writes", S, "        self._writer.write(encoded_header.header_bytes)\n        self._writer.write(message_bytes)\n", "        self._writer.write(message_bytes)\n        self._writer.write(encoded_header.header_bytes)\n")
M("C01", "await-between-writes", S, "        self._writer.write(encoded_header.header_bytes)\n", "        self._writer.write(encoded_header.header_bytes)\n        await asyncio.sleep(0)\n")
M("C01", "counter-modulus", C4 + "registry.py", "% 256", "% 1000")
M("C01", "mixed-entry", S, "await self._write(entry.header, entry.message)", "await self._write(entry.header, self._message_queue[0].message)")
M("C01", "write-elsewhere", S, "    async def reset_connection(self) -> None:", "    async def _poke(self) -> None:\n        if self._writer:\n            self._writer.write(b\"\\x00\")\n\n    async def reset_connection(self) -> None:")
T(["C01", "C02", "C16", "C14"], "rename-purge-var", S, "queued_entry", "stale", every=True)
T(["C01", "C06"], "reorder-encode-calls", S, "        encoded_header = self._registry.header_encoder.encode(header)\n\n        message_encoder = self._registry.get_encoder(message.message_id)\n        message_bytes = message_encoder.encode(header, message)\n", "        message_encoder = self._registry.get_encoder(message.message_id)\n        message_bytes = message_encoder.encode(header, message)\n\n        encoded_header = self._registry.header_encoder.encode(header)\n")

# ------------------------------------------------------------------------------------------------ C02
M("C02", "budget-not-decreased", S, "retries_remaining=entry.retries_remaining - 1", "retries_remaining=entry.retries_remaining")
M("C02", "zero-test", S, "if entry.retries_remaining == 0:", "if entry.retries_remaining == -1:")
M("C02", "expiry-inclusive", S, "if self._loop.time() < entry.expiry:", "if self._loop.time() <= entry.expiry:")
M("C02", "non-idempotent-retries", S, "RETRY_NON_IDEMPOTENT = RetryPolicy(\n    max_retries=0,", "RETRY_NON_IDEMPOTENT = RetryPolicy(\n    max_retries=1,")
M("C02", "connected-lifetime", S, "    max_retries=0,\n    max_lifetime=1.0,", "    max_retries=0,\n    max_lifetime=30.0,")
M("C02", "toggle-atom-dropped", A4, "        if (isinstance(set_point_control, ac_ctrl_msg.AcIncreaseDecrease)) or (\n            power == ac_ctrl_msg.AcPowerControl.TOGGLE\n        ):", "        if isinstance(set_point_control, ac_ctrl_msg.AcIncreaseDecrease):")
M("C02", "handshake-policy", A4, "                message=version_request,\n                retry_policy=pyairtouch.comms.socket.RETRY_CONNECTED,", "                message=version_request,\n                retry_policy=pyairtouch.comms.socket.RETRY_IDEMPOTENT,")
M("C02", "requeue-at-tail", S, "self._message_queue.appendleft(", "self._message_queue.append(")
M("C02", "expiry-recomputed", S, "                        expiry=entry.expiry,\n", "                        expiry=self._loop.time() + 30.0,\n")
M("C02", "always-non-idempotent", A5, "        if power == ac_ctrl_msg.AcPowerControl.TOGGLE:", "        if power != ac_ctrl_msg.AcPowerControl.UNCHANGED:")
T(["C02", "C16", "C01"], "flipped-expiry-compare", S, "if self._loop.time() < entry.expiry:", "if entry.expiry > self._loop.time():")
T(["C02"], "budget-positive-test", S, "            if entry.retries_remaining == 0:\n                self._log_dropped_message(entry, \"max-retries\")\n            elif", "            if entry.retries_remaining <= 0:\n                self._log_dropped_message(entry, \"max-retries\")\n            elif")

# ------------------------------------------------------------------------------------------------ C03
M("C03", "at5-header-no-crc", C5 + "hdr.py", "        data_length = _INTERNAL_HEADER_LENGTH + header.message_length + CRC_LENGTH", "        data_length = _INTERNAL_HEADER_LENGTH + header.message_length")
M("C03", "x1f-size-no-subheader", C4 + "x1F_ext.py", "return _SUB_HEADER_STRUCT.size + sub_message_encoder.size(message.sub_message)", "return sub_message_encoder.size(message.sub_message)")
M("C03", "repeat-size-plus-one", C5 + "xC021_zone_status.py", "        return _STRUCT.size\n", "        return _STRUCT.size + 1\n")
M("C03", "registry-wrong-decoder", C4 + "registry.py", "    decoder=x2C_ac_ctrl.AcControlDecoder(),", "    decoder=x2D_ac_status.AcStatusDecoder(),")
M("C03", "header-addresses-swapped", C4 + "hdr.py", "            to_address,\n            from_address,\n            packet_id,\n            message_id,\n            message_length,\n        ) = _STRUCT.unpack_from(buffer)", "            from_address,\n            to_address,\n            packet_id,\n            message_id,\n            message_length,\n        ) = _STRUCT.unpack_from(buffer)")
M("C03", "crc-before-payload", S, "            message_buffer = await self._reader.readexactly(header.message_length)\n            crc = await self._reader.readexactly(checksum_calculator.checksum_length)\n", "            crc = await self._reader.readexactly(checksum_calculator.checksum_length)\n            message_buffer = await self._reader.readexactly(header.message_length)\n")
M("C03", "no-assert-complete", S, "            message_result.assert_complete()\n", "")
M("C03", "names-size", C4 + "x1FFF12_group_names.py", "return _PER_GROUP_SIZE * len(message.group_names)", "return _GROUP_NAME_LENGTH * len(message.group_names)")
M("C03", "no-prefix-check", C4 + "hdr.py", "        if prefix != _PREFIX:\n            raise comms.DecodeError(f\"Unknown header prefix: {prefix}\")\n", "")
M("C03", "encoder-bit-moved", C5 + "xC023_ac_status.py", "return encoding.bool_to_bit(spill_active, 1)", "return encoding.bool_to_bit(spill_active, 2)")
M("C03", "sub-header-slot-order", C5 + "xC0_ctrl_status.py", "            sub_message_id, non_repeat_length, repeat_length, repeat_count\n        ) + sub_message_encoder", "            sub_message_id, non_repeat_length, repeat_count, repeat_length\n        ) + sub_message_encoder")
T(["C03", "C04"], "literal-struct-size", C4 + "x2A_group_ctrl.py", "    def size(self, _: GroupControlMessage) -> int:\n        return _STRUCT.size", "    def size(self, _: GroupControlMessage) -> int:\n        return 4")
T(["C03", "C05"], "neq-none", C4 + "x2B_group_status.py", "        if temperature is not None:", "        if temperature != None:  # noqa: E711")

# ------------------------------------------------------------------------------------------------ C04
M("C04", "mode-table-swapped", A4, "    pyairtouch.api.AcMode.HEAT: ac_ctrl_msg.AcModeControl.HEAT,\n", "    pyairtouch.api.AcMode.HEAT: ac_ctrl_msg.AcModeControl.COOL,\n")
M("C04", "power-shift", C4 + "x2C_ac_ctrl.py", "return (power.value << 6) & 0xC0", "return (power.value << 5) & 0xC0")
M("C04", "address-branches-swapped", C5 + "registry.py", "        to_address = hdr.ADDRESS_AIRTOUCH\n        if message_id == x1F_ext.MESSAGE_ID:\n            to_address = hdr.ADDRESS_AIRTOUCH_EXTENDED", "        to_address = hdr.ADDRESS_AIRTOUCH_EXTENDED\n        if message_id == x1F_ext.MESSAGE_ID:\n            to_address = hdr.ADDRESS_AIRTOUCH")
M("C04", "client-address", C4 + "hdr.py", "ADDRESS_CLIENT = 0xB0", "ADDRESS_CLIENT = 0xB1")
M("C04", "set-point-sign", C5 + "utils.py", "return int(set_point * 10.0 - 100)", "return int(set_point * 10.0 + 100)")
M("C04", "setpoint-type-code", C5 + "xC020_zone_ctrl.py", "_SET_SETPOINT = 0x05", "_SET_SETPOINT = 0x04")
M("C04", "intelligent-auto-code", C5 + "xC022_ac_ctrl.py", "    INTELLIGENT_AUTO = 8\n", "    INTELLIGENT_AUTO = 7\n")
M("C04", "fan-speed-also-powers-on", A5, "        await self._send_ac_control_message(\n            fan_speed=_API_FAN_SPEED_CONTROL_MAPPING[fan_speed]\n        )", "        await self._send_ac_control_message(\n            power=ac_ctrl_msg.AcPowerControl.TURN_ON,\n            fan_speed=_API_FAN_SPEED_CONTROL_MAPPING[fan_speed],\n        )")
M("C04", "setpoint-filler", C4 + "x2C_ac_ctrl.py", "_SET_POINT_INVALID = 0x3F", "_SET_POINT_INVALID = 0x00")
M("C04", "constant-ac-number", A4, "                ac_number=self.ac_id,\n                power=power,", "                ac_number=0,\n                power=power,")
M("C04", "mode-default-not-keep", A4, "        mode: ac_ctrl_msg.AcModeControl = ac_ctrl_msg.AcModeControl.UNCHANGED,", "        mode: ac_ctrl_msg.AcModeControl = ac_ctrl_msg.AcModeControl.AUTO,")
T(["C04", "C03"], "mask-then-shift", C4 + "x2C_ac_ctrl.py", "return (power.value << 6) & 0xC0", "return (power.value & 3) << 6")

# ------------------------------------------------------------------------------------------------ C05
M("C05", "spill-bit", C4 + "x2B_group_status.py", "return encoding.bit_to_bool(byte56, offset=4)", "return encoding.bit_to_bool(byte56, offset=5)")
M("C05", "group-mask", C4 + "x2B_group_status.py", "    def _decode_group_number(self, byte1: int) -> int:\n        return byte1 & 0x3F", "    def _decode_group_number(self, byte1: int) -> int:\n        return byte1 & 0x1F")
M("C05", "auto-heat-code", C4 + "x2D_ac_status.py", "    AUTO_HEAT = 8", "    AUTO_HEAT = 7")
M("C05", "temperature-offset", C4 + "utils.py", "return (((raw_value & 0xFFE0) >> 5) - 500) / 10.0", "return (((raw_value & 0xFFE0) >> 5) - 50) / 10.0")
M("C05", "stride-ignored", C5 + "xC023_ac_status.py", "            buffer = buffer[header.repeat_length :]", "            buffer = buffer[_STRUCT.size :]")
M("C05", "invalid-setpoint-code", C5 + "xC021_zone_status.py", "_INVALID_SET_POINT = 0xFF", "_INVALID_SET_POINT = 0xFE")
M("C05", "bitmap-endianness", C4 + "x1FFF11_ac_ability.py", "_GROUP_DISPLAY_STRUCT = struct.Struct(\"<H\")", "_GROUP_DISPLAY_STRUCT = struct.Struct(\">H\")")
M("C05", "version-separator", C4 + "x1FFF30_console_ver.py", "VERSION_SEP = \"|\"", "VERSION_SEP = \",\"")
M("C05", "timer-bit", C5 + "xC023_ac_status.py", "return encoding.bit_to_bool(byte4, 0)", "return encoding.bit_to_bool(byte4, 1)")
M("C05", "name-length", C4 + "x1FFF12_group_names.py", "_GROUP_NAME_LENGTH = 8", "_GROUP_NAME_LENGTH = 16")
M("C05", "missing-hook", C5 + "xC023_ac_status.py", "    SLEEP = 5\n", "    SLEEP = 5\n\n    @classmethod\n    def _missing_(cls, _: object) -> \"AcPowerState\":\n        return AcPowerState.OFF\n")
M("C05", "at5-temp-mask", C5 + "xC021_zone_status.py", "decoded_temperature = utils.decode_temperature(temp_raw & 0x07FF)", "decoded_temperature = utils.decode_temperature(temp_raw & 0x03FF)")
T(["C05", "C03"], "shift-then-mask", C4 + "x2B_group_status.py", "return GroupPowerState((byte1 & 0xC0) >> 6)", "return GroupPowerState((byte1 >> 6) & 3)")
T(["C05"], "floordiv-for-shift", C4 + "x2D_ac_status.py", "return AcMode((byte2 & 0xF0) >> 4)", "return AcMode((byte2 // 16) & 0x0F)")

# ------------------------------------------------------------------------------------------------ C06
M("C06", "init-zero", CRC, "crc = 0xFFFF", "crc = 0x0000")
M("C06", "little-endian", CRC, "byteorder=\"big\"", "byteorder=\"little\"")
M("C06", "span-includes-prefix", C4 + "hdr.py", "_CHECKSUM_DATA_START = len(_PREFIX)", "_CHECKSUM_DATA_START = 0")
M("C06", "validate-true", CRC, "return self.calculate(buffer) == checksum", "return True")
M("C06", "validate-inverted", S, "if not checksum_calculator.validate(crc_data, crc):", "if checksum_calculator.validate(crc_data, crc):")
M("C06", "span-whole-header", S, "crc_data = header_result.checksum_data + message_buffer", "crc_data = header_buffer + message_buffer")
M("C06", "shift-seven", CRC, "crc >>= 8", "crc >>= 7")
M("C06", "no-reset-on-bad-frame", S, "                else:\n                    await self.reset_connection()\n", "")
M("C06", "table-entry", CRC, "0xC0C1", "0xC0C0")
T(["C06"], "operand-order", CRC, "index = (val ^ crc) & 0x00FF", "index = (crc ^ val) & 0xFF")
T(["C06"], "one-statement-update", CRC, "            index = (val ^ crc) & 0x00FF\n            crc >>= 8\n            crc ^= _CRC_TABLE[index]\n", "            crc = (crc >> 8) ^ _CRC_TABLE[(val ^ crc) & 0xFF]\n")

# ------------------------------------------------------------------------------------------------ C07
M("C07", "oserror-no-reset", S, "            _LOGGER.debug(\"_read(): Socket error: %s.\", ex)\n            await self.reset_connection()", "            _LOGGER.debug(\"_read(): Socket error: %s.\", ex)")
M("C07", "reset-without-connect", S, "        await self._disconnect()\n        self._schedule(self._connect())", "        await self._disconnect()")
M("C07", "no-retry", S, "            self._schedule(self._connect(), delay=_CONNECT_RETRY_DELAY)", "            pass")
M("C07", "zero-delay", S, "_CONNECT_RETRY_DELAY = 2.0", "_CONNECT_RETRY_DELAY = 0.0")
M("C07", "writer-not-closed", S, "            self._writer.close()\n", "")
M("C07", "subscriber-failure-propagates", S, "        results = await asyncio.gather(*callbacks, return_exceptions=True)\n", "        results = await asyncio.gather(*callbacks)\n")
M("C07", "subscribers-detached", S, "        results = await asyncio.gather(*callbacks, return_exceptions=True)\n        for result in results:\n            if isinstance(result, Exception):\n                _LOGGER.error(\"Exception from subscriber\", exc_info=result)\n", "        for coro in asyncio.as_completed(callbacks):\n            try:\n                _ = await coro\n            except Exception:\n                _LOGGER.exception(\"Exception from subscriber\")\n")
M("C15", "subscribers-detached", S, "        results = await asyncio.gather(*callbacks, return_exceptions=True)\n        for result in results:\n            if isinstance(result, Exception):\n                _LOGGER.error(\"Exception from subscriber\", exc_info=result)\n", "        for coro in asyncio.as_completed(callbacks):\n            try:\n                _ = await coro\n            except Exception:\n                _LOGGER.exception(\"Exception from subscriber\")\n")
M("C15", "requeue-after-close", S, "            elif not self.is_open:\n                # The socket was closed while this message was being written.\n                # It must not be carried over into a later session.\n                self._log_dropped_message(entry, \"closed\")\n", "")
T(["C07", "C12", "C15"], "subscribers-sequential", S, "        results = await asyncio.gather(*callbacks, return_exceptions=True)\n        for result in results:\n            if isinstance(result, Exception):\n                _LOGGER.error(\"Exception from subscriber\", exc_info=result)\n", "        for callback in callbacks:\n            try:\n                await callback\n            except Exception:\n                _LOGGER.exception(\"Exception from subscriber\")\n")
M("C07", "closing-test-flipped", S, "if self._writer and not self._writer.is_closing():", "if self._writer and self._writer.is_closing():")
M("C07", "encode-error-resets", S, "            _LOGGER.exception(\"Encoding error for message %s\", entry.message)\n", "            _LOGGER.exception(\"Encoding error for message %s\", entry.message)\n            await self.reset_connection()\n")
M("C07", "wait-closed-unprotected", S, "            with contextlib.suppress(OSError):\n                await self._writer.wait_closed()", "            await self._writer.wait_closed()")
M("C07", "flag-set-after-await", S, "        self._connecting = True\n\n        _LOGGER.debug(\"Attempting to open connection to %s:%d\", self.host, self.port)\n        try:\n", "        _LOGGER.debug(\"Attempting to open connection to %s:%d\", self.host, self.port)\n        try:\n            await asyncio.sleep(0)\n            self._connecting = True\n")
T(["C07", "C17", "C06"], "handler-order", S, "        except asyncio.IncompleteReadError:\n            _LOGGER.debug(\"Socket closed\")\n            if self._writer and not self._writer.is_closing():\n                _LOGGER.debug(\"_read(): Socket closed by other side\")\n                await self.reset_connection()\n        except OSError as ex:\n            # Usually this indicates that the socket was closed.\n            _LOGGER.debug(\"_read(): Socket error: %s.\", ex)\n            await self.reset_connection()\n", "        except OSError as ex:\n            # Usually this indicates that the socket was closed.\n            _LOGGER.debug(\"_read(): Socket error: %s.\", ex)\n            await self.reset_connection()\n        except asyncio.IncompleteReadError:\n            _LOGGER.debug(\"Socket closed\")\n            if self._writer and not self._writer.is_closing():\n                _LOGGER.debug(\"_read(): Socket closed by other side\")\n                await self.reset_connection()\n")
T(["C07", "C15"], "flag-renamed", S, "_connecting", "_connect_in_flight", every=True)

# ------------------------------------------------------------------------------------------------ C08
M("C08", "no-reschedule", H, "                        timeout.reschedule(self._loop.time() + self._config.timeout)\n", "")
M("C08", "no-clear", H, "                        self._response_received.clear()\n            except TimeoutError:", "            except TimeoutError:")
M("C08", "response-delay", H, "DEFAULT_HEARTBEAT_RESPONSE_DELAY = 30.0", "DEFAULT_HEARTBEAT_RESPONSE_DELAY = 3.0")
M("C08", "interval", H, "DEFAULT_HEARTBEAT_INTERVAL = 300.0", "DEFAULT_HEARTBEAT_INTERVAL = 30.0")
M("C08", "reset-unguarded", H, "                if self._socket.is_connected:\n                    _LOGGER.debug(\"Heartbeat timed out, resetting connection\")\n                    await self._socket.reset_connection()", "                _LOGGER.debug(\"Heartbeat timed out, resetting connection\")\n                await self._socket.reset_connection()")
M("C08", "wrong-matcher-id", A4, "return sub_message.message_id == console_ver_msg.MESSAGE_ID", "return sub_message.message_id == err_info_msg.MESSAGE_ID")
M("C08", "event-set-always", H, "        if self._config.response_match(message):\n", "        if True:\n")
M("C08", "reschedule-interval", H, "timeout.reschedule(self._loop.time() + self._config.timeout)", "timeout.reschedule(self._loop.time() + self._config.interval)")
M("C08", "api-overrides-timeout", A5, "                response_match=is_heartbeat_response,\n            ),", "                response_match=is_heartbeat_response,\n                timeout=3600.0,\n            ),")
T(["C08"], "timeout-local", H, "            try:\n                async with asyncio.timeout(self._config.timeout) as timeout:", "            limit = self._config.timeout\n            try:\n                async with asyncio.timeout(limit) as timeout:")

# ------------------------------------------------------------------------------------------------ C09
M("C09", "skips-a-step", A4, "                self._state = _AirTouchState.INIT_AC_STATUS\n", "                self._state = _AirTouchState.INIT_AC_TIMER_STATUS\n")
M("C09", "init-timeout", A4, "timeout=5.0", "timeout=50.0")
M("C09", "zone-range-off-by-one", A5, "for zone_id in range(ac.start_zone, ac.start_zone + ac.zone_count)", "for zone_id in range(ac.start_zone, ac.start_zone + ac.zone_count + 1)")
M("C09", "init-returns-true", A4, "        return self._initialised_event.is_set()\n\n    @override\n    async def shutdown", "        return True\n\n    @override\n    async def shutdown")
M("C09", "echo-from-console-address", A5, "header.to_address == pyairtouch.at5.comms.hdr.ADDRESS_CLIENT\n                and self._state == _AirTouchState.INIT_ZONE_NAMES", "header.to_address == pyairtouch.at5.comms.hdr.ADDRESS_AIRTOUCH\n                and self._state == _AirTouchState.INIT_ZONE_NAMES")
M("C09", "wrong-request", A4, "                group_names_request = extended_msg.ExtendedMessage(\n                    group_names_msg.GroupNamesRequest(group_number=\"ALL\")\n                )", "                group_names_request = extended_msg.ExtendedMessage(\n                    ac_ability_msg.AcAbilityRequest(ac_number=\"ALL\")\n                )")
M("C09", "bitmap-not-preferred", A4, "            if ac.groups is not None:\n                ac_zones = [self._zones[zone_id] for zone_id in ac.groups]\n\n            elif len(ac_abilities) == 1:", "            if len(ac_abilities) == 1:\n                ac_zones = list(self._zones.values())\n\n            elif ac.groups is not None:\n                ac_zones = [self._zones[zone_id] for zone_id in ac.groups]\n\n            elif len(ac_abilities) == 0:")
M("C09", "unguarded-case", A5, "            case ExtendedMessage(AcAbilityMessage(ac_abilities)) if (\n                self._state == _AirTouchState.INIT_AC_ABILITY\n            ):", "            case ExtendedMessage(AcAbilityMessage(ac_abilities)):")
M("C09", "event-not-set", A4, "                self._initialised_event.set()\n", "")

# ------------------------------------------------------------------------------------------------ C10
M("C10", "table-not-total", A4, "    ac_status_msg.AcMode.AUTO_COOL: pyairtouch.api.AcMode.AUTO,\n", "")
M("C10", "never-stores", A4, "        old_status = self._ac_status\n        self._ac_status = ac_status\n", "        old_status = self._ac_status\n")
M("C10", "wrong-field", A4, "        return self._ac_status.temperature", "        return self._ac_status.set_point")
M("C10", "heat-uses-cool-limit", A5, "            case ac_status_msg.AcMode.HEAT:\n                return self._ac_ability.min_heat_set_point", "            case ac_status_msg.AcMode.HEAT:\n                return self._ac_ability.min_cool_set_point")
M("C10", "error-info-always", A4, "        if self._ac_status.has_error():\n            return pyairtouch.api.AcErrorInfo(", "        if True:\n            return pyairtouch.api.AcErrorInfo(")
M("C10", "constant-lookup", A4, "ac_instance = self._air_conditioners.get(ac_status.ac_number)", "ac_instance = self._air_conditioners.get(0)")
M("C10", "active-mode-auto", A5, "    ac_status_msg.AcMode.AUTO_HEAT: pyairtouch.api.AcMode.HEAT,\n", "    ac_status_msg.AcMode.AUTO_HEAT: pyairtouch.api.AcMode.AUTO,\n")
M("C10", "timer-getter-swapped", A5, "            case pyairtouch.api.AcTimerType.OFF_TIMER:\n                timer_state = self._ac_timer_status.off_timer", "            case pyairtouch.api.AcTimerType.OFF_TIMER:\n                timer_state = self._ac_timer_status.on_timer")
T(["C10", "C12", "C14", "C19"], "store-under-change", A4, "        old_status = self._ac_timer_status\n        self._ac_timer_status = ac_timer_status\n\n        if old_status != ac_timer_status:\n", "        old_status = self._ac_timer_status\n\n        if old_status != ac_timer_status:\n            self._ac_timer_status = ac_timer_status\n")

# ------------------------------------------------------------------------------------------------ C11
M("C11", "mode-not-validated", A4, "        if mode not in self._supported_modes:\n            raise ValueError(f\"mode {mode} is not a supported mode\")\n", "")
M("C11", "damper-bound", A5, "        if open_percentage < 0 or open_percentage > 100:  # noqa: PLR2004", "        if open_percentage < 0 or open_percentage > 101:  # noqa: PLR2004")
M("C11", "clamp-swapped", A5, "            max(self.min_target_temperature, rounded_temperature),\n            self.max_target_temperature,", "            max(self.max_target_temperature, rounded_temperature),\n            self.min_target_temperature,")
M("C11", "no-rounding", A4, "set_point=round(temperature)", "set_point=temperature")
M("C11", "two-frames", A4, "        await self._send_group_control_message(\n            power=_API_ZONE_POWER_MAPPING[power_control]\n        )\n", "        await self._send_group_control_message(\n            power=_API_ZONE_POWER_MAPPING[power_control]\n        )\n        await self._send_group_control_message(\n            power=_API_ZONE_POWER_MAPPING[power_control]\n        )\n")
M("C11", "sensor-test-inverted", A5, "        if not self.has_temp_sensor:", "        if self.has_temp_sensor:")
M("C11", "ability-ignored", A4, "            if self._ac_ability.ac_mode_support[ac_mode]\n", "            if True\n")
M("C11", "silent-refusal", A4, "        if power_control not in self.supported_power_states:\n            raise ValueError(f\"power_control {power_control} is not supported\")", "        if power_control not in self.supported_power_states:\n            return")
T(["C11", "C19"], "chained-compare", A4, "        if open_percentage < 0 or open_percentage > 100:  # noqa: PLR2004", "        if not (0 <= open_percentage <= 100):  # noqa: PLR2004")

# ------------------------------------------------------------------------------------------------ C12
M("C12", "always-notifies", A4, "        if old_status != group_status:\n", "        if True:\n")
M("C12", "zone-forward-to-all", A4, "        await _notify_subscribers([s(self.ac_id) for s in self._subscribers])", "        await _notify_subscribers(\n            [s(self.ac_id) for s in self._subscribers.union(self._subscribers_ac_state)]\n        )")
M("C12", "wrong-identifier", A4, "[s(self.zone_id) for s in self._subscribers]", "[s(0) for s in self._subscribers]")
M("C12", "version-always-notifies", A4, "        if old_version != console_version:\n", "        if True:\n")
M("C12", "no-zone-subscription", A4, "        for zone in self._zones:\n            zone.subscribe(self._zone_updated)\n", "")
M("C12", "unsubscribe-adds", A4, "    def unsubscribe(self, subscriber: pyairtouch.api.UpdateSubscriber) -> None:\n        self._subscribers.discard(subscriber)", "    def unsubscribe(self, subscriber: pyairtouch.api.UpdateSubscriber) -> None:\n        self._subscribers.add(subscriber)")
M("C12", "api-subscriber-failure-propagates", A5, "    results = await asyncio.gather(*callbacks, return_exceptions=True)\n", "    results = await asyncio.gather(*callbacks)\n")
M("C10", "api-subscriber-failure-propagates", A4, "    results = await asyncio.gather(*callbacks, return_exceptions=True)\n", "    results = await asyncio.gather(*callbacks)\n")
M("C11", "api-subscriber-failure-propagates", A5, "    results = await asyncio.gather(*callbacks, return_exceptions=True)\n", "    results = await asyncio.gather(*callbacks)\n")
M("C12", "old-read-after-store", A5, "        old_status = self._zone_status\n        self._zone_status = zone_status\n", "        self._zone_status = zone_status\n        old_status = self._zone_status\n")
M("C12", "subscribers-a-list", A5, "        self._subscribers: set[pyairtouch.api.AirTouchSubscriber] = set()", "        self._subscribers: list[pyairtouch.api.AirTouchSubscriber] = []")

# ------------------------------------------------------------------------------------------------ C13
M("C13", "short-header", C4 + "hdr.py", "        return _STRUCT.size\n", "        return _STRUCT.size - 1\n")
M("C13", "double-delivery", S, "                    await self._notify_message_received(header, message)\n", "                    await self._notify_message_received(header, message)\n                    await self._notify_message_received(header, message)\n")
M("C13", "readuntil", S, "            header_buffer = await self._reader.readexactly(\n                header_decoder.header_length,\n            )", "            header_buffer = await self._reader.readuntil(b\"\\x55\")")
M("C13", "payload-length-from-constant", S, "message_buffer = await self._reader.readexactly(header.message_length)", "message_buffer = await self._reader.readexactly(min(header.message_length, 64))")

# ------------------------------------------------------------------------------------------------ C14
M("C14", "one-refresh-request", A4, "            await self._socket.send(\n                message=group_status_msg.GroupStatusRequest(),\n                retry_policy=pyairtouch.comms.socket.RETRY_CONNECTED,\n            )\n\n    async def _message_received", "\n    async def _message_received")
M("C14", "group-timeout", A4, "_GROUP_STATUS_TIMEOUT = 300.0", "_GROUP_STATUS_TIMEOUT = 3000.0")
M("C14", "event-never-set", A4, "                self._group_status_received_event.set()\n", "")
M("C14", "not-armed", A4, "async with asyncio.timeout(_GROUP_STATUS_TIMEOUT) as timeout:", "async with asyncio.timeout(None) as timeout:")
M("C14", "poll-task-missing", A4, "                self._group_status_request_task = self._loop.create_task(\n                    self._group_status_request_loop()\n                )\n", "")
M("C14", "branches-swapped", A4, "        if connected and self._state == _AirTouchState.CONNECTING:", "        if connected and self._state != _AirTouchState.CONNECTING:")
M("C14", "refresh-unwrapped", A5, "                message=ControlStatusMessage(zone_status_msg.ZoneStatusRequest()),\n                retry_policy=pyairtouch.comms.socket.RETRY_CONNECTED,\n            )\n\n    async def _message_received", "                message=zone_status_msg.ZoneStatusRequest(),\n                retry_policy=pyairtouch.comms.socket.RETRY_CONNECTED,\n            )\n\n    async def _message_received")
M("C14", "notify-after-drain", S, "            await self._notify_connection_changed(connected=self.is_connected)\n\n            # Send any buffered messages\n            await self._drain_message_queue()\n", "            # Send any buffered messages\n            await self._drain_message_queue()\n            await self._notify_connection_changed(connected=self.is_connected)\n")

# ------------------------------------------------------------------------------------------------ C15
M("C15", "close-keeps-open", S, "            self.is_open = False\n            # Stop delayed", "            # Stop delayed")
M("C15", "close-keeps-queue", S, "            # Messages that were never sent must not leak into a later session.\n            self._message_queue.clear()\n", "")
M("C01", "clear-while-open", S, "        await self._drain_message_queue()\n\n    def _enqueue_message", "        await self._drain_message_queue()\n        self._message_queue.clear()\n\n    def _enqueue_message")
M("C15", "close-without-disconnect", S, "            self._message_queue.clear()\n            await self._disconnect()\n", "            self._message_queue.clear()\n")
M("C15", "shutdown-without-stop", A4, "        await self._heartbeat_manager.stop()\n        await self._socket.close()", "        await self._socket.close()")
M("C15", "poll-task-not-cancelled", A4, "        if self._group_status_request_task:\n            self._group_status_request_task.cancel()\n            with contextlib.suppress(asyncio.CancelledError):\n                await self._group_status_request_task\n\n", "")
M("C15", "stop-without-cancel", H, "            t.cancel()\n", "")
M("C15", "zones-kept", A5, "        self._zones.clear()\n", "")
M("C15", "early-return", A4, "        self._state = _AirTouchState.CLOSED\n        self._initialised_event.clear()\n", "        if not self._initialised_event.is_set():\n            return\n        self._state = _AirTouchState.CLOSED\n        self._initialised_event.clear()\n")
M("C15", "open-after-disconnect", S, "            self.is_open = False\n            # Stop delayed connection attempts and the read loop so that\n            # nothing acts on the socket after it has been closed.\n            current_task = asyncio.current_task()\n            for task in list(self._background_tasks):\n                if task is not current_task:\n                    task.cancel()\n            # Messages that were never sent must not leak into a later session.\n            self._message_queue.clear()\n            await self._disconnect()\n", "            current_task = asyncio.current_task()\n            for task in list(self._background_tasks):\n                if task is not current_task:\n                    task.cancel()\n            await self._disconnect()\n            self.is_open = False\n")
M("C15", "init-does-not-resubscribe", A5, "        self._socket.subscribe_on_message_received(self._message_received)\n        await self._socket.open_socket()", "        await self._socket.open_socket()")
M("C15", "stop-keeps-tasks", H, "        self._heartbeat_tasks.clear()\n", "")

# ------------------------------------------------------------------------------------------------ C16
M("C16", "eleven-held", S, "if len(self._message_queue) >= MAX_MESSAGE_QUEUE_SIZE:", "if len(self._message_queue) > MAX_MESSAGE_QUEUE_SIZE:")
M("C16", "max-hundred", S, "MAX_MESSAGE_QUEUE_SIZE = 10", "MAX_MESSAGE_QUEUE_SIZE = 100")
M("C16", "no-open-check", S, "        if not self.is_open:\n            raise NotOpenError\n\n", "")
M("C16", "purge-strict", S, "if now >= queued_entry.expiry:", "if now > queued_entry.expiry:")
M("C16", "overflow-silent", S, "            raise QueueOverflowError\n", "            return\n")
M("C16", "capacity-before-purge", S, "        # Drop expired messages\n        now = self._loop.time()", "        if len(self._message_queue) >= MAX_MESSAGE_QUEUE_SIZE:\n            raise QueueOverflowError\n        # Drop expired messages\n        now = self._loop.time()")

# ------------------------------------------------------------------------------------------------ C17
M("C17", "unknown-id-raises", CM, "        if not decoder:\n            return self._unsupported_decoder\n        return decoder", "        if not decoder:\n            raise NotImplementedError(f\"no decoder for 0x{message_id:02x}\")\n        return decoder")
M("C17", "remaining-whole-buffer", CM, "            remaining=buffer[header.message_length :],\n        )\n\n\nclass ChecksumCalculator", "            remaining=buffer,\n        )\n\n\nclass ChecksumCalculator")
M("C17", "raw-data-skips-byte", C4 + "x1F_ext.py", "raw_data=buffer[: header.message_length],", "raw_data=buffer[1 : header.message_length],")
M("C17", "stride-test-flipped", C5 + "xC021_zone_status.py", "if header.repeat_length < _STRUCT.size:", "if header.repeat_length > _STRUCT.size:")
M("C17", "decode-error-escapes", S, "        except comms.DecodeError:\n            all_bytes = bytearray()", "        except comms.EncodeError:\n            all_bytes = bytearray()")
M("C17", "map-indexed", C5 + "x1F_ext.py", "        sub_message_decoder = self._decoder_map.get(sub_message_id)\n        if not sub_message_decoder:\n            return ExtendedMessageDecoder._UNSUPPORTED_DECODER\n        return sub_message_decoder", "        return self._decoder_map[sub_message_id]")

# ------------------------------------------------------------------------------------------------ C18
M("C18", "five-requests", DISC, "_DISCOVERY_MAX_REQUESTS = 3", "_DISCOVERY_MAX_REQUESTS = 5")
M("C18", "slow-interval", DISC, "_DISCOVERY_REQUEST_INTERVAL = 0.5", "_DISCOVERY_REQUEST_INTERVAL = 5.0")
M("C18", "ignores-responses", DISC, "while not responses and count < _DISCOVERY_MAX_REQUESTS:", "while count < _DISCOVERY_MAX_REQUESTS:")
M("C18", "no-maxsplit", C5 + "discovery.py", "response_raw = buffer.split(b\",\", _NUM_RESPONSE_PARTS - 1)", "response_raw = buffer.split(b\",\")")
M("C18", "id-position", C4 + "discovery.py", "_PART_AIRTOUCH_ID = 3", "_PART_AIRTOUCH_ID = 1")
M("C18", "ports-swapped", "pyairtouch/factory.py", "port=at4_api.DEFAULT_PORT_NUMBER,", "port=at5_api.DEFAULT_PORT_NUMBER,")
M("C18", "transport-left-open", DISC, "        transport.close()\n", "")
M("C18", "request-string", C5 + "discovery.py", "DEVICE-INFO:;", "DEVICE-INFO;")
M("C18", "not-frozen", C4 + "discovery.py", "@dataclass(frozen=True)\nclass At4DiscoveryResponse:", "@dataclass\nclass At4DiscoveryResponse:")
M("C18", "decode-error-uncaught", DISC, "        except comms.DecodeError:\n            _LOGGER.exception(\"Error decoding discovery response\")", "        except comms.EncodeError:\n            _LOGGER.exception(\"Error decoding discovery response\")")
M("C18", "count-not-incremented", DISC, "            count += 1\n", "")

# ------------------------------------------------------------------------------------------------ C19
M("C19", "at4-no-dry", A4, "    pyairtouch.api.AcMode.DRY: ac_ctrl_msg.AcModeControl.DRY,\n", "")
M("C19", "at5-damper-bound", A5, "        if open_percentage < 0 or open_percentage > 100:  # noqa: PLR2004", "        if open_percentage < 0 or open_percentage > 101:  # noqa: PLR2004")
M("C19", "at5-method-renamed", A5, "    async def set_fan_speed(self, fan_speed: pyairtouch.api.AcFanSpeed) -> None:", "    async def set_fan_mode(self, fan_speed: pyairtouch.api.AcFanSpeed) -> None:")
M("C19", "at5-property-to-method", A5, "    @override\n    @property\n    def spill_active(self) -> bool:", "    @override\n    def spill_active(self) -> bool:")
M("C19", "at5-extra-guard", A5, "    async def update_ac_error_info(self, error_info: Optional[str]) -> None:\n        \"\"\"Update the AC Error Information with new data.\"\"\"\n", "    async def update_ac_error_info(self, error_info: Optional[str]) -> None:\n        \"\"\"Update the AC Error Information with new data.\"\"\"\n        if not self._ac_status.has_error():\n            return\n")
M("C19", "at4-default-changed", A4, "async def set_mode(self, mode: AcMode, *, power_on: bool = False) -> None:", "async def set_mode(self, mode: AcMode, *, power_on: bool = True) -> None:")
M("C19", "at4-status-table", A4, "    group_status_msg.GroupPowerState.TURBO: pyairtouch.api.ZonePowerState.TURBO,\n", "    group_status_msg.GroupPowerState.TURBO: pyairtouch.api.ZonePowerState.ON,\n")
