"""E4 - bit-provenance abstract interpretation of the codec helpers.

Abstract integers are bit vectors whose bits are 0, 1 or a *source bit* ('s', name, k): bit k of a named
source (a struct slot of the record being decoded, or an attribute of the message being encoded).  The
interpreter evaluates the helper methods of a codec class over that domain (inlining helper calls,
forking on conditions it cannot decide and merging into guarded alternatives) and produces, for every
decoded field / packed slot, a closed-form description: which source bits go where, through which enum,
boolean test or affine map, under which guard.  No repository code is executed; no solver is involved.
Constructs outside the modelled fragment raise Unsupported (reported as ANALYSIS-ERROR by the rules).
"""
from __future__ import annotations

import ast
from dataclasses import dataclass, field
from fractions import Fraction
from typing import Any, Optional

from .model import AnalysisError, ClassInfo, EnumVal, Module, NotConst, Repo, StructVal, dotted, norm_text, unparse


class Unsupported(AnalysisError):
    pass


# ----------------------------------------------------------------------------------------------
# values


def S(name: str, k: int):
    return ("s", name, k)


@dataclass(frozen=True)
class BV:
    bits: tuple  # LSB first, elements 0 | 1 | ('s', name, k)

    @staticmethod
    def const(v: int, width: int = 0) -> "BV":
        if v < 0:
            raise Unsupported("negative constant in bit context")
        n = max(v.bit_length(), width, 1)
        return BV(tuple((v >> i) & 1 for i in range(n)))

    @staticmethod
    def src(name: str, width: int) -> "BV":
        return BV(tuple(S(name, i) for i in range(width)))

    def trim(self) -> "BV":
        b = list(self.bits)
        while len(b) > 1 and b[-1] == 0:
            b.pop()
        return BV(tuple(b))

    def is_const(self) -> bool:
        return all(x in (0, 1) for x in self.bits)

    def value(self) -> int:
        return sum(x << i for i, x in enumerate(self.bits))

    def bit(self, i: int):
        return self.bits[i] if i < len(self.bits) else 0

    def width(self) -> int:
        return len(self.trim().bits)

    def sources(self) -> list:
        """[(position, name, k)] of the non-constant bits."""
        return [(i, b[1], b[2]) for i, b in enumerate(self.bits) if isinstance(b, tuple)]

    def ones(self) -> int:
        return sum(1 << i for i, b in enumerate(self.bits) if b == 1)

    def __repr__(self):
        return "BV<" + " ".join("0" if b == 0 else "1" if b == 1 else f"{b[1]}[{b[2]}]" for b in reversed(self.trim().bits)) + ">"


@dataclass(frozen=True)
class Py:
    v: Any

    def __repr__(self):
        return f"Py({self.v!r})"


@dataclass(frozen=True)
class Sym:
    name: str
    typ: Any = None  # ClassInfo for enum/dataclass typed symbols, 'int' | 'float' | 'bool' | 'str' | 'optfloat' | 'optint' ...

    def __repr__(self):
        return f"Sym({self.name})"


@dataclass(frozen=True)
class EnumV:
    cls: ClassInfo
    raw: Any  # BV | Py

    def __repr__(self):
        return f"{self.cls.name}({self.raw!r})"


@dataclass(frozen=True)
class Lin:
    raw: Any  # BV | Sym
    mul: Fraction
    add: Fraction
    trunc: bool = False  # int(...) applied

    def __repr__(self):
        return f"Lin({self.raw!r}*{self.mul}+{self.add}{' trunc' if self.trunc else ''})"


@dataclass(frozen=True)
class BoolV:
    cond: tuple

    def __repr__(self):
        return f"Bool{self.cond}"


@dataclass
class Obj:
    cls: str
    fields: dict

    def __repr__(self):
        return f"{self.cls}({', '.join(f'{k}={v!r}' for k, v in self.fields.items())})"


@dataclass
class Tup:
    items: list


@dataclass
class DictV:
    items: list  # [(key value, value)]


@dataclass
class SetV:
    items: list  # [(element const, cond)]


@dataclass
class Choice:
    alts: list  # [(cond, value)] evaluated in order; cond ('true',) for the default

    def __repr__(self):
        return "Choice[" + "; ".join(f"{c} -> {v!r}" for c, v in self.alts) + "]"


@dataclass(frozen=True)
class Raised:
    exc: str


@dataclass
class Packed:
    struct: StructVal
    args: list


@dataclass
class Cat:
    """concatenation of byte strings: Packed | Py(bytes) | Span parts"""
    parts: list


@dataclass
class Span:
    """constant-position slice [lo:hi) of a Packed / Cat value (hi None: to the end)"""
    base: Any
    lo: int
    hi: Optional[int]


TRUE = ("true",)
FALSE = ("false",)


def c_not(c):
    if c == TRUE:
        return FALSE
    if c == FALSE:
        return TRUE
    if c[0] == "not":
        return c[1]
    if c[0] == "bit":
        return ("bit", c[1], not c[2])
    return ("not", c)


def _lits(c):
    if c[0] == "and":
        return _lits(c[1]) + _lits(c[2])
    return [c]


def c_and(a, b):
    if a == TRUE:
        return b
    if b == TRUE:
        return a
    if a == FALSE or b == FALSE:
        return FALSE
    lits = []
    for l in _lits(a) + _lits(b):
        if l not in lits:
            lits.append(l)
    # contradictions and subsumption
    pos_inst = {}
    for l in lits:
        if l[0] == "isinst":
            if l[1] in pos_inst and pos_inst[l[1]] != l[2]:
                return FALSE
            pos_inst[l[1]] = l[2]
    out = []
    for l in lits:
        neg = c_not(l)
        if neg in lits:
            return FALSE
        if l[0] == "not" and l[1][0] == "isinst" and l[1][1] in pos_inst:
            if pos_inst[l[1][1]] == l[1][2]:
                return FALSE
            continue  # implied by the positive instance test
        out.append(l)
    if not out:
        return TRUE
    res = out[0]
    for l in out[1:]:
        res = ("and", res, l)
    return res


def c_or(a, b):
    if a == FALSE:
        return b
    if b == FALSE:
        return a
    if a == TRUE or b == TRUE:
        return TRUE
    return ("or", a, b)


# ----------------------------------------------------------------------------------------------
# bit-vector operations


def _pad(a: BV, b: BV):
    n = max(len(a.bits), len(b.bits))
    return a.bits + (0,) * (n - len(a.bits)), b.bits + (0,) * (n - len(b.bits))


def bv_and(a: BV, b: BV) -> BV:
    x, y = _pad(a, b)
    out = []
    for p, q in zip(x, y):
        if p == 0 or q == 0:
            out.append(0)
        elif p == 1:
            out.append(q)
        elif q == 1:
            out.append(p)
        elif p == q:
            out.append(p)
        else:
            raise Unsupported("and of two different symbolic bits")
    return BV(tuple(out))


def bv_or(a: BV, b: BV) -> BV:
    x, y = _pad(a, b)
    out = []
    for p, q in zip(x, y):
        if p == 1 or q == 1:
            out.append(1)
        elif p == 0:
            out.append(q)
        elif q == 0:
            out.append(p)
        elif p == q:
            out.append(p)
        else:
            raise Unsupported("or of two different symbolic bits")
    return BV(tuple(out))


def bv_add(a: BV, b: BV) -> BV:
    if a.is_const() and b.is_const():
        return BV.const(a.value() + b.value())
    x, y = _pad(a, b)
    if all(p == 0 or q == 0 for p, q in zip(x, y)):
        return bv_or(a, b)
    raise Unsupported("addition of overlapping bit fields (carry)")


def bv_shl(a: BV, n: int) -> BV:
    return BV((0,) * n + a.bits)


def bv_shr(a: BV, n: int) -> BV:
    return BV(a.bits[n:] or (0,))


def bv_mask(a: BV, width: int) -> BV:
    return BV(a.bits[:width] or (0,))


# ----------------------------------------------------------------------------------------------
# the interpreter


class _Return(Exception):
    def __init__(self, v):
        self.v = v


INT_WIDTH = 24  # width given to untyped integer sources (enough for every slot of the protocol)


class Ev:
    """Evaluates methods of one codec class (and the module-level helpers they call)."""

    def __init__(self, repo: Repo, module: Module, cls: Optional[ClassInfo]):
        self.repo, self.module, self.cls = repo, module, cls
        self.depth = 0
        self.notes: list = []

    # ---- names / constants ------------------------------------------------
    def const(self, module: Module, e: ast.expr):
        try:
            v = self.repo.fold(module, e)
        except NotConst:
            return None
        return v

    def lift(self, v):
        if isinstance(v, bool):
            return BoolV(TRUE if v else FALSE)
        if isinstance(v, int):
            return BV.const(v) if v >= 0 else Py(v)
        if isinstance(v, EnumVal):
            return Py(v)
        return Py(v)

    # ---- symbolic inputs ------------------------------------------------------
    def sym_for_annotation(self, module: Module, name: str, ann: Optional[ast.expr]):
        """Abstract value of an encoder input of the given annotated type."""
        if ann is None:
            return Sym(name)
        txt = norm_text(ann)
        if txt == "int":
            return BV.src(name, INT_WIDTH)
        if txt == "bool":
            return BoolV(("truthy", name))
        if txt == "float":
            return Sym(name, "float")
        if txt in ("Optional[float]", "float | None"):
            return Sym(name, "optfloat")
        if txt in ("Optional[int]", "int | None"):
            return Sym(name, "optint")
        if txt in ("str", "Optional[str]"):
            return Sym(name, "str")
        ci = self.repo.resolve_class(module, ann)
        if ci is not None and ci.is_enum():
            return Sym(name, ci)
        if ci is not None:
            return Sym(name, ci)
        return Sym(name, txt)

    def enum_raw(self, sym: Sym) -> BV:
        ci = sym.typ
        vals = [v for v in ci.enum_members(self.repo).values() if isinstance(v, int)]
        width = max([v.bit_length() for v in vals] + [1])
        return BV.src(f"{sym.name}.value", width)

    def attr_of_sym(self, sym: Sym, attr: str):
        ci = sym.typ if isinstance(sym.typ, ClassInfo) else None
        if ci is not None and ci.is_enum():
            if attr == "value":
                return self.enum_raw(sym)
            raise Unsupported(f"attribute {attr} of enum symbol")
        if ci is not None:
            for n, ann, _ in self._all_fields(ci):
                if n == attr:
                    return self.sym_for_annotation(ci.module, f"{sym.name}.{attr}", ann)
            # property/method of a dataclass symbol
            return Sym(f"{sym.name}.{attr}")
        return Sym(f"{sym.name}.{attr}")

    def _all_fields(self, ci: ClassInfo):
        out = []
        for b in ci.bases:
            bc = self.repo.resolve_class(ci.module, b.value if isinstance(b, ast.Subscript) else b)
            if bc is not None and bc.is_dataclass:
                out += self._all_fields(bc)
        return out + list(ci.fields)

    # ---- expressions --------------------------------------------------------
    def ev(self, e: ast.expr, env: dict, module: Module):
        v = self._ev(e, env, module)
        nar = env.get("__narrow__")
        if nar and isinstance(v, Sym) and v.name in nar and not (isinstance(v.typ, ClassInfo) and v.typ is nar[v.name]):
            return Sym(v.name, nar[v.name])
        return v

    def narrowing(self, test: ast.expr, env: dict, module: Module) -> dict:
        """{symbol name: ClassInfo} established on the true branch of `isinstance(x, C)` (possibly the head of an `and`)."""
        out = {}
        parts = test.values if isinstance(test, ast.BoolOp) and isinstance(test.op, ast.And) else [test]
        for p in parts:
            if isinstance(p, ast.Call) and dotted(p.func) == "isinstance" and len(p.args) == 2:
                try:
                    v = self.ev(p.args[0], env, module)
                except Unsupported:
                    continue
                ci = self.repo.resolve_class(module, p.args[1])
                if isinstance(v, Sym) and ci is not None:
                    out[v.name] = ci
        return out

    def _ev(self, e: ast.expr, env: dict, module: Module):
        if isinstance(e, ast.Constant):
            return self.lift(e.value)
        if isinstance(e, ast.Name):
            if e.id in env:
                return env[e.id]
            v = self.const(module, e)
            if v is not None or (isinstance(e, ast.Name) and e.id == "None"):
                return self.lift(v)
            s = self.repo.resolve(module, e)
            if s is not None and s.kind == "class":
                return Py(("class", s.cls))
            raise Unsupported(f"unknown name {e.id}")
        if isinstance(e, ast.Attribute):
            v = self.const(module, e)
            if v is not None:
                return self.lift(v)
            base = self.ev(e.value, env, module)
            if isinstance(base, Sym):
                return self.attr_of_sym(base, e.attr)
            if isinstance(base, EnumV) and e.attr == "value":
                return base.raw
            if isinstance(base, Py) and isinstance(base.v, EnumVal) and e.attr == "value":
                return self.lift(base.v.value)
            if isinstance(base, Obj) and e.attr in base.fields:
                return base.fields[e.attr]
            if isinstance(base, Py) and isinstance(base.v, StructVal) and e.attr == "size":
                return self.lift(base.v.size)
            raise Unsupported(f"attribute {e.attr} of {type(base).__name__}")
        if isinstance(e, ast.BinOp):
            return self.binop(e.op, self.ev(e.left, env, module), self.ev(e.right, env, module))
        if isinstance(e, ast.UnaryOp):
            if isinstance(e.op, ast.Not):
                return BoolV(c_not(self.cond(self.ev(e.operand, env, module))))
            if isinstance(e.op, ast.USub):
                v = self.ev(e.operand, env, module)
                if isinstance(v, BV) and v.is_const():
                    return Py(-v.value())
                if isinstance(v, Py):
                    return Py(-v.v)
            raise Unsupported(f"unary {type(e.op).__name__}")
        if isinstance(e, ast.BoolOp):
            cs = [self.cond(self.ev(v, env, module)) for v in e.values]
            out = cs[0]
            for c in cs[1:]:
                out = c_and(out, c) if isinstance(e.op, ast.And) else c_or(out, c)
            return BoolV(out)
        if isinstance(e, ast.Compare):
            return self.compare(e, env, module)
        if isinstance(e, ast.IfExp):
            c = self.cond(self.ev(e.test, env, module))
            if c == TRUE:
                return self.ev(e.body, env, module)
            if c == FALSE:
                return self.ev(e.orelse, env, module)
            return self.merge([(c, self.ev(e.body, env, module)), (TRUE, self.ev(e.orelse, env, module))])
        if isinstance(e, ast.Tuple):
            return Tup([self.ev(x, env, module) for x in e.elts])
        if isinstance(e, ast.Dict):
            return DictV([(self.ev(k, env, module), self.ev(v, env, module)) for k, v in zip(e.keys, e.values)])
        if isinstance(e, ast.Subscript):
            base = self.ev(e.value, env, module)
            if isinstance(base, Sym) and isinstance(e.slice, ast.Slice):
                def part(x):
                    if x is None:
                        return ""
                    v = self.ev(x, env, module)
                    return str(v.value()) if isinstance(v, BV) and v.is_const() else (v.name if isinstance(v, Sym) else norm_text(x))
                return Sym(f"{base.name}[{part(e.slice.lower)}:{part(e.slice.upper)}]", base.typ)
            if isinstance(base, Sym):
                idx = self.ev(e.slice, env, module) if not isinstance(e.slice, ast.Slice) else None
                if isinstance(idx, Py) and isinstance(idx.v, EnumVal):
                    return BoolV(("truthy", f"{base.name}[{idx.v.name}]"))
                if isinstance(idx, BV) and idx.is_const():
                    return BV.src(f"{base.name}[{idx.value()}]", 8)
                return Sym(f"{base.name}[{norm_text(e.slice)}]")
            if isinstance(base, (Packed, Cat, Span)) and isinstance(e.slice, ast.Slice) and e.slice.step is None:
                def cb(x):
                    if x is None:
                        return None
                    v = self.ev(x, env, module)
                    if isinstance(v, BV) and v.is_const():
                        return v.value()
                    raise Unsupported("slice of packed bytes with a non-constant / negative bound")
                return Span(base, cb(e.slice.lower) or 0, cb(e.slice.upper))
            if isinstance(base, Tup) and isinstance(e.slice, ast.Slice) and e.slice.step is None:
                def bound(x, default):
                    if x is None:
                        return default
                    v = self.ev(x, env, module)
                    if isinstance(v, BV) and v.is_const():
                        return v.value()
                    if isinstance(v, Py) and isinstance(v.v, int):
                        return v.v
                    raise Unsupported("slice of a tuple with a non-constant bound")
                return Tup(base.items[bound(e.slice.lower, None):bound(e.slice.upper, None)])
            if isinstance(base, Tup):
                idx = self.ev(e.slice, env, module)
                if isinstance(idx, BV) and idx.is_const():
                    return base.items[idx.value()]
                if isinstance(idx, Py) and isinstance(idx.v, int) and -len(base.items) <= idx.v < 0:
                    return base.items[idx.v]
            items = self._const_items(base) if not isinstance(e.slice, ast.Slice) else None
            if items:
                # lookup in a constant table with a symbolic integer key: a case split over the keys (a key outside the table
                # raises KeyError at run time; callers guard the lookup with `in`, the split keeps the last row as default)
                idx = self.ev(e.slice, env, module)
                if isinstance(idx, BV) and all(isinstance(k, int) and not isinstance(k, bool) and k >= 0 for k, _ in items):
                    if idx.is_const():
                        for k, x in items:
                            if k == idx.value():
                                return x
                        raise Unsupported("constant key missing from a constant table")
                    alts = [(self.eq_const(idx, k), x) for k, x in items]
                    alts[-1] = (TRUE, alts[-1][1])
                    return self.merge(alts)
            raise Unsupported(f"subscript of {type(base).__name__}")
        if isinstance(e, (ast.DictComp, ast.GeneratorExp, ast.ListComp, ast.SetComp)) and len(e.generators) == 1 and not e.generators[0].is_async:
            rows = self._const_rows(e.generators[0], env, module)
            if rows is not None:
                if isinstance(e, ast.DictComp):
                    return DictV([(self.ev(e.key, r, module), self.ev(e.value, r, module)) for r in rows])
                return Tup([self.ev(e.elt, r, module) for r in rows])
        if isinstance(e, (ast.SetComp, ast.ListComp)):
            return self.comprehension(e, env, module)
        if isinstance(e, ast.Call):
            return self.call(e, env, module)
        if isinstance(e, ast.JoinedStr):
            return Py("<fstring>")
        raise Unsupported(f"expression {type(e).__name__}: {unparse(e)[:60]}")

    def _const_rows(self, g, env, module):
        """Environments for the iterations of a comprehension over a constant iterable (module-level tuple/list/dict/enum), or None."""
        items = None
        if any(isinstance(x, ast.Name) and x.id in env for x in ast.walk(g.iter)):
            # a local / parameter bound to a constant table
            try:
                v = self.ev(g.iter, env, module)
            except Unsupported:
                return None
            if isinstance(v, Py) and isinstance(v.v, (tuple, list)):
                items = list(v.v)
            elif isinstance(v, Py) and isinstance(v.v, dict):
                items = list(v.v)
            else:
                return None
        if items is None:
            try:
                items = self.repo._fold_iter(module, g.iter, None, 0)
            except (NotConst, AnalysisError):
                return None
        if len(items) > 64:
            return None
        rows = []
        for it in items:
            env2 = dict(env)

            def bind(t, v):
                if isinstance(t, ast.Name):
                    env2[t.id] = self.lift(v)
                elif isinstance(t, (ast.Tuple, ast.List)) and isinstance(v, (tuple, list)) and len(v) == len(t.elts):
                    for tt, vv in zip(t.elts, v):
                        bind(tt, vv)
                else:
                    raise Unsupported("comprehension target")

            bind(g.target, it)
            ok = True
            for f in g.ifs:
                c = self.cond(self.ev(f, env2, module))
                if c == FALSE:
                    ok = False
                elif c != TRUE:
                    return None  # symbolic filter: the set-valued comprehension path handles it
            if ok:
                rows.append(env2)
        return rows

    def comprehension(self, e, env, module):
        if len(e.generators) != 1:
            raise Unsupported("nested comprehension")
        g = e.generators[0]
        it = g.iter
        if isinstance(it, ast.Call) and dotted(it.func) == "range" and isinstance(g.target, ast.Name):
            args = []
            for a in it.args:
                v = self.ev(a, env, module)
                if not (isinstance(v, BV) and v.is_const()):
                    raise Unsupported("comprehension over a symbolic range")
                args.append(v.value())
            items = []
            for i in range(*args):
                env2 = dict(env)
                env2[g.target.id] = BV.const(i)
                c = TRUE
                for f in g.ifs:
                    c = c_and(c, self.cond(self.ev(f, env2, module)))
                el = self.ev(e.elt, env2, module)
                items.append((el, c))
            return SetV(items)
        raise Unsupported("comprehension over a non-range iterable")

    def binop(self, op, a, b):
        if isinstance(op, ast.Add) and (isinstance(a, (Packed, Cat, Span)) or isinstance(b, (Packed, Cat, Span))):
            def parts(x):
                if isinstance(x, Cat):
                    return list(x.parts)
                if isinstance(x, (Packed, Span)) or (isinstance(x, Py) and isinstance(x.v, (bytes, bytearray))):
                    return [x]
                raise Unsupported(f"concatenation with {type(x).__name__}")
            return Cat(parts(a) + parts(b))
        # distribute over guarded alternatives
        if isinstance(a, Choice):
            return self.merge([(c, self.binop(op, v, b)) for c, v in a.alts])
        if isinstance(b, Choice):
            return self.merge([(c, self.binop(op, a, v)) for c, v in b.alts])
        # float / affine arithmetic
        if isinstance(a, Py) and isinstance(b, Py) and isinstance(a.v, (int, float)) and isinstance(b.v, (int, float)):
            import operator as _o

            f = {ast.Add: _o.add, ast.Sub: _o.sub, ast.Mult: _o.mul, ast.Div: _o.truediv, ast.FloorDiv: _o.floordiv, ast.Mod: _o.mod}.get(type(op))
            if f:
                return self.lift(f(a.v, b.v)) if not isinstance(f(a.v, b.v), float) else Py(f(a.v, b.v))
        num = lambda x: (Fraction(x.value()) if isinstance(x, BV) and x.is_const() else Fraction(str(x.v)) if isinstance(x, Py) and isinstance(x.v, (int, float)) and not isinstance(x.v, bool) else None)  # noqa: E731
        isfloat = lambda x: isinstance(x, Py) and isinstance(x.v, float)  # noqa: E731
        # an integer (truncated affine value) times a power of two is a left shift of that integer
        if isinstance(op, ast.Mult):
            for x, y in ((a, b), (b, a)):
                k = num(y)
                if isinstance(x, Lin) and x.trunc and k is not None and k.denominator == 1 and k > 0 and (int(k) & (int(k) - 1)) == 0:
                    return bv_shl(BV.src(self._lin_name(x), INT_WIDTH), int(k).bit_length() - 1)
        if isinstance(op, (ast.Add, ast.Sub, ast.Mult, ast.Div)):
            la = a if isinstance(a, Lin) else (Lin(a, Fraction(1), Fraction(0)) if (isinstance(a, Sym) and a.typ in ("float", "optfloat", "int", "optint")) else None)
            lb = b if isinstance(b, Lin) else (Lin(b, Fraction(1), Fraction(0)) if (isinstance(b, Sym) and b.typ in ("float", "optfloat", "int", "optint")) else None)
            # BV (symbolic) combined with a float / subtraction / division -> affine
            if la is None and isinstance(a, BV) and not a.is_const() and (isfloat(b) or isinstance(op, (ast.Sub, ast.Div)) or (isinstance(b, Py))):
                la = Lin(a, Fraction(1), Fraction(0))
            if lb is None and isinstance(b, BV) and not b.is_const() and (isfloat(a) or isinstance(a, Py)):
                lb = Lin(b, Fraction(1), Fraction(0))
            if la is not None and num(b) is not None:
                k = num(b)
                if isinstance(op, ast.Add):
                    return Lin(la.raw, la.mul, la.add + k, la.trunc)
                if isinstance(op, ast.Sub):
                    return Lin(la.raw, la.mul, la.add - k, la.trunc)
                if isinstance(op, ast.Mult):
                    return Lin(la.raw, la.mul * k, la.add * k, la.trunc)
                if isinstance(op, ast.Div):
                    return Lin(la.raw, la.mul / k, la.add / k, la.trunc)
            if lb is not None and num(a) is not None:
                k = num(a)
                if isinstance(op, ast.Add):
                    return Lin(lb.raw, lb.mul, lb.add + k, lb.trunc)
                if isinstance(op, ast.Mult):
                    return Lin(lb.raw, lb.mul * k, lb.add * k, lb.trunc)
                if isinstance(op, ast.Sub):
                    return Lin(lb.raw, -lb.mul, k - lb.add, lb.trunc)
        if isinstance(a, Sym) and a.typ in ("int", "optint") and isinstance(op, (ast.BitAnd, ast.BitOr, ast.LShift, ast.RShift)):
            a = BV.src(a.name, INT_WIDTH)
        if isinstance(b, Sym) and b.typ in ("int", "optint") and isinstance(op, (ast.BitAnd, ast.BitOr)):
            b = BV.src(b.name, INT_WIDTH)
        # truncated affine values behave like integer sources in bit operations
        if isinstance(a, Lin) and a.trunc:
            a = BV.src(self._lin_name(a), INT_WIDTH)
        if isinstance(b, Lin) and b.trunc:
            b = BV.src(self._lin_name(b), INT_WIDTH)
        if isinstance(a, BV) and isinstance(b, BV):
            if isinstance(op, ast.BitAnd):
                return bv_and(a, b)
            if isinstance(op, ast.BitOr):
                return bv_or(a, b)
            if isinstance(op, ast.Add):
                try:
                    return bv_add(a, b)
                except Unsupported:
                    if b.is_const() and not a.is_const():
                        return Lin(a, Fraction(1), Fraction(b.value()))
                    if a.is_const() and not b.is_const():
                        return Lin(b, Fraction(1), Fraction(a.value()))
                    raise
            if isinstance(op, ast.Sub) and b.is_const() and not a.is_const():
                return Lin(a, Fraction(1), Fraction(-b.value()))
            if isinstance(op, ast.LShift) and b.is_const():
                return bv_shl(a, b.value())
            if isinstance(op, ast.RShift) and b.is_const():
                return bv_shr(a, b.value())
            if b.is_const() and b.value() > 0 and b.value() & (b.value() - 1) == 0:
                n = b.value().bit_length() - 1
                if isinstance(op, ast.FloorDiv):
                    return bv_shr(a, n)
                if isinstance(op, ast.Mod):
                    return bv_mask(a, n)
                if isinstance(op, ast.Mult):
                    return bv_shl(a, n)
            if a.is_const() and b.is_const():
                import operator as _o

                f = {ast.Sub: _o.sub, ast.Mult: _o.mul, ast.FloorDiv: _o.floordiv, ast.Mod: _o.mod, ast.BitXor: _o.xor}.get(type(op))
                if f:
                    return self.lift(f(a.value(), b.value()))
                if isinstance(op, ast.Div):
                    return Py(a.value() / b.value())
        if isinstance(a, Sym) or isinstance(b, Sym):
            def nm(x):
                return x.name if isinstance(x, Sym) else str(x.value()) if isinstance(x, BV) and x.is_const() else repr(x)
            return Sym(f"({nm(a)} {type(op).__name__} {nm(b)})")
        raise Unsupported(f"operator {type(op).__name__} on {type(a).__name__}/{type(b).__name__}")

    def _lin_name(self, l: Lin) -> str:
        raw = l.raw.name if isinstance(l.raw, Sym) else repr(l.raw)
        return f"lin:{raw}*{l.mul}+{l.add}"

    def compare(self, e: ast.Compare, env, module):
        if len(e.ops) != 1:
            raise Unsupported("chained comparison")
        op = e.ops[0]
        a, b = self.ev(e.left, env, module), self.ev(e.comparators[0], env, module)
        if isinstance(op, (ast.Is, ast.IsNot)):
            neg = isinstance(op, ast.IsNot)
            for x, y in ((a, b), (b, a)):
                if isinstance(y, Py) and y.v is None:
                    if isinstance(x, Sym):
                        c = ("isnone", x.name)
                        return BoolV(c_not(c) if neg else c)
                    if isinstance(x, Py):
                        r = x.v is None
                        return BoolV(TRUE if (r != neg) else FALSE)
                    return BoolV(FALSE if not neg else TRUE)
            raise Unsupported("identity comparison")
        if isinstance(op, (ast.In, ast.NotIn)):
            keys = self._const_keys(b)
            if keys is not None and isinstance(a, BV):
                c = FALSE
                for k in keys:
                    if isinstance(k, int) and not isinstance(k, bool) and k >= 0:
                        c = c_or(c, self.eq_const(a, k) if not a.is_const() else (TRUE if a.value() == k else FALSE))
                return BoolV(c if isinstance(op, ast.In) else c_not(c))
            if keys is not None and isinstance(a, Py):
                r = a.v in keys
                return BoolV(TRUE if r == isinstance(op, ast.In) else FALSE)
        sym = {ast.Eq: "==", ast.NotEq: "!=", ast.Lt: "<", ast.LtE: "<=", ast.Gt: ">", ast.GtE: ">="}.get(type(op))
        if sym is None:
            raise Unsupported(f"comparison {type(op).__name__}")
        if isinstance(a, BV) and isinstance(b, BV):
            if a.is_const() and b.is_const():
                r = {"==": a.value() == b.value(), "!=": a.value() != b.value(), "<": a.value() < b.value(), "<=": a.value() <= b.value(), ">": a.value() > b.value(), ">=": a.value() >= b.value()}[sym]
                return BoolV(TRUE if r else FALSE)
            x, c = (a, b) if b.is_const() else (b, a)
            if not c.is_const():
                raise Unsupported("comparison of two symbolic integers")
            if x is b and sym in ("<", "<=", ">", ">="):
                sym = {"<": ">", "<=": ">=", ">": "<", ">=": "<="}[sym]
            if sym in ("==", "!="):
                cond = self.eq_const(x, c.value())
                return BoolV(cond if sym == "==" else c_not(cond))
            return BoolV(("cmp", sym, x.trim(), c.value()))
        if isinstance(a, Lin) or isinstance(b, Lin):
            l, k = (a, b) if isinstance(a, Lin) else (b, a)
            kv = Fraction(k.value()) if isinstance(k, BV) and k.is_const() else Fraction(str(k.v)) if isinstance(k, Py) and isinstance(k.v, (int, float)) else None
            if kv is None:
                raise Unsupported("comparison of an affine value with a non-constant")
            if l is b:
                sym = {"<": ">", "<=": ">=", ">": "<", ">=": "<=", "==": "==", "!=": "!="}[sym]
            return BoolV(("lincmp", sym, l, kv))
        if isinstance(a, Py) and isinstance(b, Py):
            try:
                r = {"==": a.v == b.v, "!=": a.v != b.v}[sym]
            except KeyError:
                raise Unsupported("ordering of constants")
            return BoolV(TRUE if r else FALSE)
        for x, y in ((a, b), (b, a)):
            if isinstance(x, Sym) and isinstance(y, Py) and y.v is None and sym in ("==", "!="):
                c = ("isnone", x.name)  # `x == None` reads like `x is None` for the values modelled here
                return BoolV(c if sym == "==" else c_not(c))
            if isinstance(x, Sym) and isinstance(y, Py):
                c = ("symeq", x.name, repr(y.v))
                return BoolV(c if sym == "==" else c_not(c))
            if isinstance(x, Sym) and isinstance(y, BV) and y.is_const():
                c = ("symeq", x.name, repr(y.value()))
                return BoolV(c if sym == "==" else c_not(c)) if sym in ("==", "!=") else BoolV(("symcmp", sym if x is a else {"<": ">", "<=": ">=", ">": "<", ">=": "<="}[sym], x.name, y.value()))
            if isinstance(x, Py) and isinstance(y, BV):
                # e.g. bytes prefix compared with a constant
                raise Unsupported("comparison of a constant with bits")
        raise Unsupported(f"comparison of {type(a).__name__} and {type(b).__name__}")

    def _const_keys(self, v):
        """Python keys of a constant container value (dict / tuple / set of constants), or None."""
        if isinstance(v, Py) and isinstance(v.v, (dict, tuple, list, set, frozenset)):
            return list(v.v)
        if isinstance(v, (DictV, Tup)):
            out = []
            for it in v.items:
                k = it[0] if isinstance(v, DictV) else it
                if isinstance(k, BV) and k.is_const():
                    out.append(k.value())
                elif isinstance(k, Py):
                    out.append(k.v)
                else:
                    return None
            return out
        return None

    def _const_items(self, v):
        if isinstance(v, Py) and isinstance(v.v, dict):
            return [(k, self.lift(x)) for k, x in v.v.items()]
        if isinstance(v, DictV):
            ks = self._const_keys(v)
            if ks is not None:
                return list(zip(ks, [x for _, x in v.items]))
        return None

    def eq_const(self, x: BV, c: int):
        """Condition `x == c`; a single symbolic bit with zero elsewhere becomes a bit test."""
        x = x.trim()
        if c >> max(len(x.bits), 1) and c.bit_length() > len(x.bits):
            return FALSE
        for i, b in enumerate(x.bits):
            if b in (0, 1) and ((c >> i) & 1) != b:
                return FALSE
        srcs = x.sources()
        if not srcs:
            return TRUE
        if len(srcs) == 1:
            i, n, k = srcs[0]
            return ("bit", S(n, k), bool((c >> i) & 1))
        return ("eq", x, c)

    def cond(self, v):
        if isinstance(v, BoolV):
            return v.cond
        if isinstance(v, BV):
            if v.is_const():
                return TRUE if v.value() else FALSE
            srcs = v.sources()
            if len(srcs) == 1 and v.ones() == 0:
                return ("bit", S(srcs[0][1], srcs[0][2]), True)
            return c_not(("eq", v.trim(), 0))
        if isinstance(v, Py):
            return TRUE if v.v else FALSE
        if isinstance(v, Sym):
            return ("truthy", v.name)
        if isinstance(v, (Lin, EnumV, Obj)):
            return ("truthy", repr(v))
        raise Unsupported(f"truthiness of {type(v).__name__}")

    # ---- calls ------------------------------------------------------------------
    def call(self, e: ast.Call, env, module):
        d = dotted(e.func) or ""
        args = e.args
        kws = {k.arg: k.value for k in e.keywords}
        q = self.repo.qual(module, e.func) if d else None
        if d == "int" and len(args) == 1:
            v = self.ev(args[0], env, module)
            if isinstance(v, Lin):
                return Lin(v.raw, v.mul, v.add, True)
            return v
        if d == "isinstance" and len(args) == 2:
            v = self.ev(args[0], env, module)
            ci = self.repo.resolve_class(module, args[1])
            if isinstance(v, Sym) and ci is not None:
                return BoolV(("isinst", v.name, ci.name))
            if isinstance(v, Obj) and ci is not None:
                return BoolV(TRUE if v.cls == ci.name else FALSE)
            raise Unsupported("isinstance on a non-symbol")
        if d == "sum" and 1 <= len(args) <= 2 and not kws:
            seq = self.ev(args[0], env, module)
            if isinstance(seq, Tup):
                acc = self.ev(args[1], env, module) if len(args) == 2 else BV.const(0)
                for it in seq.items:
                    acc = self.binop(ast.Add(), acc, it)
                return acc
            raise Unsupported("sum over a symbolic sequence")
        if d == "len":
            v = self.ev(args[0], env, module)
            if isinstance(v, Sym):
                return BV.src(f"len({v.name})", INT_WIDTH)
            if isinstance(v, Py) and isinstance(v.v, (bytes, str)):
                return self.lift(len(v.v))
            raise Unsupported("len of non-symbol")
        if d in ("bytes", "bytearray", "memoryview") and len(args) == 1 and not kws:
            v = self.ev(args[0], env, module)
            if isinstance(v, (Packed, Cat, Span)) or (isinstance(v, Py) and isinstance(v.v, (bytes, bytearray))) or (isinstance(v, Sym) and v.typ == "bytes"):
                return v
            raise Unsupported(f"builtin {d}")
        if d in ("bytes", "bytearray", "bool", "round", "divmod", "reduce", "range"):
            raise Unsupported(f"builtin {d}")
        if isinstance(e.func, ast.Attribute) and e.func.attr not in ("pack", "pack_into", "unpack", "unpack_from"):
            try:
                bv = self.ev(e.func.value, env, module)
            except Unsupported:
                bv = None
            if isinstance(bv, (Packed, Cat, Span)):
                # a bytes method applied to packed bytes (strip, replace, ...): the result depends on the byte values - it is no longer
                # a fixed-position part of the packed record
                return Sym(f"<value-dependent bytes: {norm_text(e)[:50]}>", "bytes")
        # struct pack / unpack
        if isinstance(e.func, ast.Attribute) and e.func.attr in ("unpack_from", "unpack", "pack", "pack_into"):
            st = self.const(module, e.func.value)
            if isinstance(st, StructVal):
                if e.func.attr in ("unpack_from", "unpack"):
                    off = args[1] if len(args) > 1 else kws.get("offset")
                    tag = ""
                    if args:
                        try:
                            bval = self.ev(args[0], env, module)
                            if isinstance(bval, Sym) and bval.name not in ("buffer",):
                                tag += f"@{bval.name}"
                        except Unsupported:
                            pass
                    if off is not None:
                        try:
                            ov = self.ev(off, env, module)
                            tag += "@" + (ov.name if isinstance(ov, Sym) else str(ov.value()) if isinstance(ov, BV) and ov.is_const() else norm_text(off))
                        except Unsupported:
                            tag += f"@{norm_text(off)}"
                    items = []
                    for sl in st.slots:
                        nm = f"slot{sl.index}{tag}"
                        items.append(Sym(nm, "bytes") if sl.code == "s" else BV.src(nm, 8 * sl.size))
                    self.notes.append(("unpack", st, norm_text(args[0]) if args else "", tag))
                    return Tup(items)
                if e.func.attr == "pack":
                    return Packed(st, [self.ev(a, env, module) for a in args])
                if e.func.attr == "pack_into":
                    p = Packed(st, [self.ev(a, env, module) for a in args[2:]])
                    self.notes.append(("pack_into", norm_text(args[1]), p))
                    return Py(None)
        # repo function / method / class
        if d.startswith("self.") and d.count(".") == 1 and self.cls is not None:
            found = self.repo.find_method(self.cls, d.split(".")[1])
            if found:
                return self.invoke(found[1], found[0].module, [self.ev(a, env, module) for a in args], {k: self.ev(v, env, module) for k, v in kws.items()}, skip_self=True)
        s = self.repo.resolve(module, e.func) if d else None
        if s is not None and s.kind == "function":
            return self.invoke(s.node, s.module, [self.ev(a, env, module) for a in args], {k: self.ev(v, env, module) for k, v in kws.items()}, skip_self=False)
        ci = self.repo.resolve_class(module, e.func) if d else None
        if ci is not None:
            if ci.is_enum():
                v = self.ev(args[0], env, module)
                if isinstance(v, BV) and v.is_const():
                    v = BV.const(v.value())
                return EnumV(ci, v)
            names = [n for n, _, _ in self._all_fields(ci)]
            fields = {}
            pos = []
            for a in args:
                if isinstance(a, ast.Starred):
                    sv = self.ev(a.value, env, module)
                    if not isinstance(sv, Tup):
                        raise Unsupported("* of a non-tuple value")
                    pos.extend(sv.items)
                else:
                    pos.append(self.ev(a, env, module))
            for i, a in enumerate(pos):
                if i < len(names):
                    fields[names[i]] = a
            for k, v in kws.items():
                try:
                    fields[k] = self.ev(v, env, module)
                except Unsupported as ex:
                    if not getattr(self, "opaque_fields", False):
                        raise
                    fields[k] = Sym(f"<opaque:{norm_text(v)[:40]}>")
            return Obj(ci.name, fields)
        if q and q.startswith("datetime."):
            return Obj(q, {k: self.ev(v, env, module) for k, v in kws.items()})
        if d in ("min", "max") and len(args) == 2 and not kws and not any(isinstance(a, ast.Starred) for a in args):
            # a clamp against a constant: not a bit operation; the result is a fresh source that names the clamp, so that a rule can
            # accept it exactly when the bound lies outside the field's valid range and report it otherwise
            a0, a1 = self.ev(args[0], env, module), self.ev(args[1], env, module)
            cst, val = (a0, a1) if isinstance(a0, BV) and a0.is_const() else (a1, a0)
            if isinstance(cst, BV) and cst.is_const() and isinstance(val, (Lin, BV)) and not (isinstance(val, BV) and val.is_const()):
                c = cst.value()
                if isinstance(val, Lin) and val.trunc:
                    nm = f"lin:{val.raw.name if isinstance(val.raw, Sym) else '?'}*{val.mul}+{val.add}"
                elif isinstance(val, BV):
                    srcs = sorted({n_ for _, n_, _ in val.sources()})
                    nm = "+".join(srcs) if srcs else "?"
                else:
                    raise Unsupported(f"call {d} of a non-integer value")
                return BV.src(f"{d}({c}):{nm}", 8 if 0 <= c < 256 else 16)
        # methods on values we do not model
        raise Unsupported(f"call {d or unparse(e.func)[:40]}")

    def invoke(self, fn, module: Module, args: list, kwargs: dict, skip_self: bool):
        self.depth += 1
        if self.depth > 12:
            self.depth -= 1
            raise Unsupported("helper recursion too deep")
        try:
            params = [a.arg for a in fn.args.args]
            env = {}
            if skip_self and params and params[0] == "self":
                params = params[1:]
                env["self"] = Sym("self")
            for p, v in zip(params, args):
                env[p] = v
            for k, v in kwargs.items():
                env[k] = v
            defaults = fn.args.defaults
            for p, dflt in zip(params[len(params) - len(defaults):], defaults):
                if p not in env:
                    env[p] = self.ev(dflt, {}, module)
            missing = [p for p in params if p not in env]
            if missing:
                raise Unsupported(f"missing arguments {missing} for {fn.name}")
            outs = self.run(fn.body, env, module, TRUE)
            rets = outs["returns"]
            if outs["fall"] != FALSE:
                rets.append((outs["fall"], Py(None)))
            # path conditions of the exits are mutually exclusive and exhaustive: under first-match reading the last one is the default
            if len(rets) > 1 and rets[-1][0] != TRUE:
                rets[-1] = (TRUE, rets[-1][1])
            return self.merge(rets)
        finally:
            self.depth -= 1

    # ---- statements ---------------------------------------------------------------
    def run(self, stmts, env: dict, module: Module, pc):
        """Execute statements under path condition pc. Returns {'returns': [(cond, value)], 'fall': cond, 'env': env}."""
        returns = []
        for i, s in enumerate(stmts):
            if pc == FALSE:
                break
            if isinstance(s, ast.Expr):
                if isinstance(s.value, ast.Constant):
                    continue
                # calls for effect (logging etc.) are ignored unless they are buffer mutations handled by the caller
                self.effect(s.value, env, module, pc)
                continue
            if isinstance(s, ast.Return):
                v = self.ev(s.value, env, module) if s.value is not None else Py(None)
                returns.append((pc, v))
                pc = FALSE
                break
            if isinstance(s, ast.Raise):
                exc = s.exc.func if isinstance(s.exc, ast.Call) else s.exc
                returns.append((pc, Raised((dotted(exc) or "?").split(".")[-1])))
                pc = FALSE
                break
            if isinstance(s, (ast.Assign, ast.AnnAssign)):
                if isinstance(s, ast.AnnAssign):
                    if s.value is None:
                        continue
                    targets = [s.target]
                else:
                    targets = s.targets
                v = self.ev(s.value, env, module)
                for t in targets:
                    self.bind(t, v, env)
                continue
            if isinstance(s, ast.AugAssign) and isinstance(s.target, ast.Name):
                env[s.target.id] = self.binop(s.op, env[s.target.id], self.ev(s.value, env, module))
                continue
            if isinstance(s, ast.If):
                c = self.cond(self.ev(s.test, env, module))
                e1, e2 = dict(env), dict(env)
                nar = self.narrowing(s.test, env, module)
                if nar:
                    e1["__narrow__"] = {**env.get("__narrow__", {}), **nar}
                o1 = self.run(s.body, e1, module, c_and(pc, c)) if c != FALSE else {"returns": [], "fall": FALSE, "env": e1}
                o2 = self.run(s.orelse, e2, module, c_and(pc, c_not(c))) if c != TRUE else {"returns": [], "fall": FALSE, "env": e2}
                returns += o1["returns"] + o2["returns"]
                # merge environments of the arms that fall through
                if o1["fall"] == FALSE and o2["fall"] == FALSE:
                    pc = FALSE
                    break
                outer_narrow = env.get("__narrow__")
                if o1["fall"] == FALSE:
                    env.clear(); env.update(o2["env"]); pc = o2["fall"]
                elif o2["fall"] == FALSE:
                    env.clear(); env.update(o1["env"]); pc = o1["fall"]
                    env.pop("__narrow__", None)
                    if outer_narrow:
                        env["__narrow__"] = outer_narrow
                else:
                    merged = {}
                    for k in set(o1["env"]) | set(o2["env"]):
                        a, b = o1["env"].get(k), o2["env"].get(k)
                        if a is None or b is None or k == "__narrow__":
                            continue
                        merged[k] = a if _same(a, b) else self.merge([(c, a), (TRUE, b)])
                    env.clear(); env.update(merged)
                continue
            if isinstance(s, ast.Try):
                # idiom: try: return Enum(x) / except ValueError: pass
                handled = [h for h in s.handlers if h.type is not None and (dotted(h.type) or "").split(".")[-1] == "ValueError"]
                hb = handled[0].body if handled else []
                # logging has no effect on the decoded value
                hb = [x for x in hb if not (isinstance(x, ast.Expr) and isinstance(x.value, ast.Call) and (dotted(x.value.func) or "").split(".")[0] in ("_LOGGER", "logging", "_LOG", "logger"))] or ([ast.Pass()] if hb else [])
                simple_handler = all(isinstance(x, ast.Pass) for x in hb) or (len(hb) == 1 and isinstance(hb[0], ast.Return))
                if len(s.body) == 1 and isinstance(s.body[0], ast.Return) and handled and len(s.handlers) == 1 and simple_handler and not s.orelse and not s.finalbody:
                    v = self.ev(s.body[0].value, env, module)
                    if isinstance(v, EnumV):
                        c = ("in_enum", v.cls.name, v.raw)
                        returns.append((c_and(pc, c), v))
                        pc = c_and(pc, c_not(c))
                        if hb and isinstance(hb[0], ast.Return):
                            # `except ValueError: return X`: the value for codes outside the enum
                            hv = self.ev(hb[0].value, env, module) if hb[0].value is not None else Py(None)
                            returns.append((pc, hv))
                            pc = FALSE
                            break
                        continue
                raise Unsupported("try statement outside the `try: return Enum(x) except ValueError: pass` idiom")
            if isinstance(s, ast.Match):
                subj = self.ev(s.subject, env, module)
                remaining = pc
                fall_envs = []
                for case in s.cases:
                    p = case.pattern
                    if isinstance(p, ast.MatchClass) and isinstance(subj, Sym):
                        ci = self.repo.resolve_class(module, p.cls)
                        c = ("isinst", subj.name, ci.name if ci else "?")
                        e1 = dict(env)
                        if ci is not None:
                            typed = Sym(subj.name, ci)
                            if isinstance(s.subject, ast.Name):
                                e1[s.subject.id] = typed
                            for kw, sub in zip(p.kwd_attrs, p.kwd_patterns):
                                if isinstance(sub, ast.MatchAs) and sub.name:
                                    e1[sub.name] = self.attr_of_sym(typed, kw)
                        o = self.run(case.body, e1, module, c_and(remaining, c))
                        returns += o["returns"]
                        if o["fall"] != FALSE:
                            fall_envs.append((c, o["env"]))
                        remaining = c_and(remaining, c_not(c))
                    elif isinstance(p, ast.MatchAs) and p.pattern is None:
                        o = self.run(case.body, dict(env), module, remaining)
                        returns += o["returns"]
                        if o["fall"] != FALSE:
                            fall_envs.append((TRUE, o["env"]))
                        remaining = FALSE
                    else:
                        raise Unsupported("match pattern not modelled")
                if remaining != FALSE:
                    fall_envs.append((TRUE, dict(env)))
                # merge fall-through environments in case order
                merged = {}
                keys = set()
                for _, ev_ in fall_envs:
                    keys |= set(ev_)
                for k in keys:
                    alts = [(c, ev_[k]) for c, ev_ in fall_envs if k in ev_]
                    if len(alts) != len(fall_envs):
                        continue
                    merged[k] = alts[0][1] if all(_same(alts[0][1], a[1]) for a in alts) else self.merge(alts[:-1] + [(TRUE, alts[-1][1])])
                env.clear(); env.update(merged)
                continue
            if isinstance(s, ast.Pass):
                continue
            raise Unsupported(f"statement {type(s).__name__}: {unparse(s)[:60]}")
        return {"returns": returns, "fall": pc, "env": env}

    def effect(self, e, env, module, pc):
        if isinstance(e, ast.Call) and isinstance(e.func, ast.Attribute) and e.func.attr == "pack_into":
            self.call(e, env, module)
        return None

    def bind(self, target, v, env):
        if isinstance(target, ast.Name):
            env[target.id] = v
        elif isinstance(target, ast.Subscript) and isinstance(target.value, ast.Name) and isinstance(env.get(target.value.id), DictV):
            k = self.ev(target.slice, env, self.module)
            d = env[target.value.id]
            env[target.value.id] = DictV([(kk, vv) for kk, vv in d.items if not _same(kk, k)] + [(k, v)])
        elif isinstance(target, (ast.Tuple, ast.List)) and sum(isinstance(t, ast.Starred) for t in target.elts) == 1 and isinstance(v, Tup) and len(v.items) >= len(target.elts) - 1:
            i = next(k for k, t in enumerate(target.elts) if isinstance(t, ast.Starred))
            after = len(target.elts) - i - 1
            for t, x in zip(target.elts[:i], v.items[:i]):
                self.bind(t, x, env)
            self.bind(target.elts[i].value, Tup(list(v.items[i:len(v.items) - after])), env)
            for t, x in zip(target.elts[i + 1:], v.items[len(v.items) - after:]):
                self.bind(t, x, env)
        elif isinstance(target, (ast.Tuple, ast.List)):
            if isinstance(v, Tup) and len(v.items) == len(target.elts):
                for t, x in zip(target.elts, v.items):
                    self.bind(t, x, env)
            elif isinstance(v, Choice) and all(isinstance(a[1], Tup) and len(a[1].items) == len(target.elts) for a in v.alts):
                for i, t in enumerate(target.elts):
                    self.bind(t, self.merge([(c, tv.items[i]) for c, tv in v.alts]), env)
            else:
                raise Unsupported("tuple unpacking of a non-tuple value")
        elif isinstance(target, ast.Attribute) and getattr(self, "opaque_fields", False):
            pass  # object state is not part of the value analysis in this mode
        else:
            raise Unsupported("assignment target")

    # ---- merging ------------------------------------------------------------------
    def merge(self, alts: list):
        alts = [(c, v) for c, v in alts if c != FALSE]
        if len(alts) == 2 and alts[1][0] == TRUE and alts[0][0][0] == "not":
            # `A if not c else B` is `B if c else A`: one normal form for a two-way choice
            alts = [(alts[0][0][1], alts[1][1]), (TRUE, alts[0][1])]
        if not alts:
            return Py(None)
        if len(alts) == 1:
            return alts[0][1]
        if all(_same(alts[0][1], v) for _, v in alts[1:]):
            return alts[0][1]
        # alternatives that are all tuples of one arity: a tuple of merged components (so that `a, b = f(...)` works when
        # f returns the tuple from several branches)
        if all(isinstance(v, Tup) for _, v in alts) and len({len(v.items) for _, v in alts}) == 1:
            return Tup([self.merge([(c, v.items[i]) for c, v in alts]) for i in range(len(alts[0][1].items))])
        # two constant bit vectors selected by one boolean source -> a bit vector with that source as a bit
        if len(alts) == 2 and all(isinstance(v, BV) and v.is_const() for _, v in alts):
            c = alts[0][0]
            a, b = alts[0][1], alts[1][1]
            name = None
            if c[0] == "truthy":
                name = c[1]
            elif c[0] == "and" and c[2][0] == "truthy" and c[1] == TRUE:
                name = c[2][1]
            if name is not None and b.value() == 0 and a.value() & (a.value() - 1) == 0:
                return bv_shl(BV.src(name, 1), a.value().bit_length() - 1)
        flat = []
        for c, v in alts:
            if isinstance(v, Choice):
                for c2, v2 in v.alts:
                    flat.append((c_and(c, c2), v2))
            else:
                flat.append((c, v))
        # first-match semantics: drop impossible alternatives and those shadowed by an earlier identical guard
        out, seen = [], []
        for c, v in flat:
            if c == FALSE or c in seen:
                continue
            seen.append(c)
            out.append((c, v))
            if c == TRUE:
                break
        if len(out) == 1:
            return out[0][1]
        if all(_same(out[0][1], v) for _, v in out[1:]) and out[-1][0] == TRUE:
            return out[0][1]
        return Choice(out)


def _same(a, b) -> bool:
    try:
        return a == b
    except Exception:
        return False
