"""Vendor-spec tables transcribed from docs/protocol/*.pdf (DESIGN Appendix A). Bytes are 0-based within a record,
bits numbered 7..0 (vendor 'Bit8' = bit 7).  A field's `bits` list gives, for result bit 0, 1, 2, ... the (byte, bit) it
comes from.  Enum code tables use the repository's member names so that they can be compared with the enum classes.

QA: sa/rules/c05.py re-derives the vendor's own example frames from these tables before any repository code is looked at.
"""
from fractions import Fraction as Fr


def rng(byte, hi, lo):
    return [(byte, b) for b in range(lo, hi + 1)]


def be(bytes_, hi_bits=8):
    """Big-endian concatenation of whole bytes (first byte most significant) -> LSB-first list."""
    out = []
    for byte in reversed(bytes_):
        out += rng(byte, 7, 0)
    return out


def F(kind, bits, **kw):
    d = {"kind": kind, "bits": bits}
    d.update(kw)
    return d


TEMP11_AT4 = rng(5, 7, 5) + rng(4, 7, 0)  # bits 15..5 of the big-endian pair at bytes 4,5
TEMP11_AT5 = rng(5, 7, 0) + rng(4, 2, 0)  # low 11 bits of the big-endian pair at bytes 4,5

MODES = {0: "AUTO", 1: "HEAT", 2: "DRY", 3: "FAN", 4: "COOL"}
FANS = {0: "AUTO", 1: "QUIET", 2: "LOW", 3: "MEDIUM", 4: "HIGH", 5: "POWERFUL", 6: "TURBO"}

STATUS = {
    # ---------------- AirTouch 4 v1.6 p.5: group status, 6 bytes per group
    ("at4", "x2B_group_status", "GroupStatusDecoder"): {
        "size": 6,
        "page": "AT4 v1.6 p.5",
        "fields": {
            "power_state": F("enum", rng(0, 7, 6), enum="GroupPowerState", codes={0: "OFF", 1: "ON", 3: "TURBO"}),
            "group_number": F("uint", rng(0, 5, 0)),
            "control_method": F("enum", rng(1, 7, 7), enum="GroupControlMethod", codes={0: "DAMPER", 1: "TEMPERATURE"}),
            "damper_percentage": F("uint", rng(1, 6, 0)),
            "battery_status": F("enum", rng(2, 7, 7), enum="SensorBatteryStatus", codes={0: "NORMAL", 1: "LOW"}),
            "supports_turbo": F("bool", rng(2, 6, 6)),
            "set_point": F("uint", rng(2, 5, 0), optional="no sensor"),
            "has_sensor": F("bool", rng(3, 7, 7)),
            "temperature": F("affine", TEMP11_AT4, mul=Fr(1, 10), add=Fr(-50), na={"desc": "byte 5 == 0xFF", "raw": list(range(0x7F8, 0x800))}, requires={"has_sensor": 1}),
            "spill_active": F("bool", rng(5, 4, 4)),
        },
    },
    # ---------------- AirTouch 4 v1.6 p.8: AC status, 8 bytes per AC
    ("at4", "x2D_ac_status", "AcStatusDecoder"): {
        "size": 8,
        "page": "AT4 v1.6 p.8",
        "fields": {
            "power_state": F("enum", rng(0, 7, 6), enum="AcPowerState", codes={0: "OFF", 1: "ON"}),
            "ac_number": F("uint", rng(0, 5, 0)),
            "mode": F("enum", rng(1, 7, 4), enum="AcMode", codes={**MODES, 8: "AUTO_HEAT", 9: "AUTO_COOL"}),
            "fan_speed": F("enum", rng(1, 3, 0), enum="AcFanSpeed", codes=FANS),
            "spill_active": F("bool", rng(2, 7, 7)),
            "timer_set": F("bool", rng(2, 6, 6)),
            "set_point": F("uint", rng(2, 5, 0)),
            "temperature": F("affine", TEMP11_AT4, mul=Fr(1, 10), add=Fr(-50), na={"desc": "byte 5 == 0xFF", "raw": list(range(0x7F8, 0x800))}),
            "error_code": F("uint", be([6, 7])),
        },
    },
    # ---------------- AirTouch 5 v1.2 p.6: zone status, 8 bytes per zone
    ("at5", "xC021_zone_status", "ZoneStatusDecoder"): {
        "size": 8,
        "page": "AT5 v1.2 p.6",
        "fields": {
            "power_state": F("enum", rng(0, 7, 6), enum="ZonePowerState", codes={0: "OFF", 1: "ON", 3: "TURBO"}),
            "zone_number": F("uint", rng(0, 5, 0)),
            "control_method": F("enum", rng(1, 7, 7), enum="ZoneControlMethod", codes={0: "DAMPER", 1: "TEMPERATURE"}),
            "damper_percentage": F("uint", rng(1, 6, 0)),
            "set_point": F("affine", rng(2, 7, 0), mul=Fr(1, 10), add=Fr(10), na={"desc": "0xFF invalid", "raw": [0xFF]}),
            "has_sensor": F("bool", rng(3, 7, 7)),
            "temperature": F("affine", TEMP11_AT5, mul=Fr(1, 10), add=Fr(-50), na={"desc": "value > 150.0 (raw > 2000)", "raw": list(range(2001, 2048))}, requires={"has_sensor": 1}),
            "spill_active": F("bool", rng(6, 1, 1)),
            "battery_status": F("enum", rng(6, 0, 0), enum="SensorBatteryStatus", codes={0: "NORMAL", 1: "LOW"}),
        },
    },
    # ---------------- AirTouch 5 v1.2 p.10-11: AC status, 8 (or 10) bytes per AC
    ("at5", "xC023_ac_status", "AcStatusDecoder"): {
        "size": 8,
        "page": "AT5 v1.2 p.10",
        "fields": {
            "power_state": F("enum", rng(0, 7, 4), enum="AcPowerState", codes={0: "OFF", 1: "ON", 2: "OFF_AWAY", 3: "ON_AWAY", 5: "SLEEP"}),
            "ac_number": F("uint", rng(0, 3, 0)),
            "mode": F("enum", rng(1, 7, 4), enum="AcMode", codes={**MODES, 8: "AUTO_HEAT", 9: "AUTO_COOL"}),
            "fan_speed": F("enum", rng(1, 3, 0), enum="AcFanSpeed", codes={**FANS, 9: "INTELLIGENT_AUTO_QUIET", 10: "INTELLIGENT_AUTO_LOW", 11: "INTELLIGENT_AUTO_MEDIUM", 12: "INTELLIGENT_AUTO_HIGH", 13: "INTELLIGENT_AUTO_POWERFUL", 14: "INTELLIGENT_AUTO_TURBO"}),
            "set_point": F("affine", rng(2, 7, 0), mul=Fr(1, 10), add=Fr(10), na={"desc": "value > 250 not available", "raw": list(range(251, 256))}),
            "turbo_active": F("bool", rng(3, 3, 3)),
            "bypass_active": F("bool", rng(3, 2, 2)),
            "spill_active": F("bool", rng(3, 1, 1)),
            "timer_set": F("bool", rng(3, 0, 0)),
            "temperature": F("affine", TEMP11_AT5, mul=Fr(1, 10), add=Fr(-50), na={"desc": "value > 150.0 (raw > 2000)", "raw": list(range(2001, 2048))}),
            "error_code": F("uint", be([6, 7])),
        },
    },
    # ---------------- ability records (AT4 p.9-10, AT5 p.12); byte 0 = AC number (vendor byte 3)
    ("at4", "x1FFF11_ac_ability", "AcAbilityDecoder"): {
        "size": 24,
        "page": "AT4 v1.6 p.9",
        "fields": {
            "ac_number": F("uint", rng(0, 7, 0)),
            "start_group": F("uint", rng(18, 7, 0)),
            "group_count": F("uint", rng(19, 7, 0)),
            "ac_mode_support": F("flags", None, flags={"AUTO": (20, 0), "HEAT": (20, 1), "DRY": (20, 2), "FAN": (20, 3), "COOL": (20, 4)}),
            "fan_speed_support": F("flags", None, flags={"AUTO": (21, 0), "QUIET": (21, 1), "LOW": (21, 2), "MEDIUM": (21, 3), "HIGH": (21, 4), "POWERFUL": (21, 5), "TURBO": (21, 6)}),
            "min_set_point": F("uint", rng(22, 7, 0)),
            "max_set_point": F("uint", rng(23, 7, 0)),
            "groups": F("bitset", None, flags={str(g): (24 + g // 8, g % 8) for g in range(16)}, when={"following_length": 24}),
        },
    },
    ("at5", "x1FFF11_ac_ability", "AcAbilityDecoder"): {
        "size": 26,
        "page": "AT5 v1.2 p.12",
        "fields": {
            "ac_number": F("uint", rng(0, 7, 0)),
            "start_zone": F("uint", rng(18, 7, 0)),
            "zone_count": F("uint", rng(19, 7, 0)),
            "ac_mode_support": F("flags", None, flags={"AUTO": (20, 0), "HEAT": (20, 1), "DRY": (20, 2), "FAN": (20, 3), "COOL": (20, 4)}),
            "fan_speed_support": F("flags", None, flags={"AUTO": (21, 0), "QUIET": (21, 1), "LOW": (21, 2), "MEDIUM": (21, 3), "HIGH": (21, 4), "POWERFUL": (21, 5), "TURBO": (21, 6), "INTELLIGENT_AUTO": (21, 7)}),
            "min_cool_set_point": F("uint", rng(22, 7, 0)),
            "max_cool_set_point": F("uint", rng(23, 7, 0)),
            "min_heat_set_point": F("uint", rng(24, 7, 0)),
            "max_heat_set_point": F("uint", rng(25, 7, 0)),
        },
    },
}

# Control records: what the console reads.  `keep` = the codes the vendor defines as "keep / other".
CONTROL = {
    ("at4", "x2A_group_ctrl", "GroupControlEncoder"): {
        "size": 4,
        "page": "AT4 v1.6 p.4",
        "fields": {
            "group_number": F("uint", rng(0, 7, 0), valid_bits=4),
            "setting": F("tagged", rng(1, 7, 5), tags={"GroupIncreaseDecrease": {"codes": {2: "DECREASE", 3: "INCREASE"}}, "GroupDamperControl": {"code": 4, "value": ("open_percentage", rng(2, 7, 0), 7)}, "GroupSetPointControl": {"code": 5, "value": ("set_point", rng(2, 7, 0), 6)}, None: {"code": 0}}, keep={0}),
            "control_method": F("enum", rng(1, 4, 3), enum="GroupControlMethod", codes={0: "UNCHANGED", 1: "CHANGE", 2: "DAMPER", 3: "TEMPERATURE"}, keep={0}),
            "power": F("enum", rng(1, 2, 0), enum="GroupPowerControl", codes={0: "UNCHANGED", 1: "TOGGLE", 2: "TURN_OFF", 3: "TURN_ON", 5: "TURBO"}, keep={0}),
        },
        "zero": rng(3, 7, 0),
    },
    ("at4", "x2C_ac_ctrl", "AcControlEncoder"): {
        "size": 4,
        "page": "AT4 v1.6 p.7",
        "fields": {
            "power": F("enum", rng(0, 7, 6), enum="AcPowerControl", codes={0: "UNCHANGED", 1: "TOGGLE", 2: "TURN_OFF", 3: "TURN_ON"}, keep={0}),
            "ac_number": F("uint", rng(0, 5, 0), valid_bits=2),
            "mode": F("enum", rng(1, 7, 4), enum="AcModeControl", codes={**MODES, 0xFF: "UNCHANGED"}, keep=set(range(5, 16)), low_bits=4),
            "fan_speed": F("enum", rng(1, 3, 0), enum="AcFanSpeedControl", codes={**FANS, 0xFF: "UNCHANGED"}, keep=set(range(7, 16)), low_bits=4),
            "set_point_control": F("tagged", rng(2, 7, 6), tags={"AcIncreaseDecrease": {"codes": {2: "DECREASE", 3: "INCREASE"}, "fill": (rng(2, 5, 0), 0x3F)}, "AcSetPointValue": {"code": 1, "value": ("set_point", rng(2, 5, 0), 6)}, None: {"code": 0, "fill": (rng(2, 5, 0), 0x3F)}}, keep={0}),
        },
        "zero": rng(3, 7, 0),
    },
    ("at5", "xC020_zone_ctrl", "ZoneControlEncoder"): {
        "size": 4,
        "page": "AT5 v1.2 p.5",
        "fields": {
            "zone_number": F("uint", rng(0, 7, 0), valid_bits=4),
            "zone_setting": F("tagged", rng(1, 7, 5), tags={"ZoneIncreaseDecrease": {"codes": {2: "DECREASE", 3: "INCREASE"}}, "ZoneDamperControl": {"code": 4, "value": ("open_percentage", rng(2, 7, 0), 7)}, "ZoneSetPointControl": {"code": 5, "value": ("set_point", rng(2, 7, 0), "affine10-100")}, None: {"code": 0, "fill": (rng(2, 7, 0), 0xFF)}}, keep={0, 1, 6, 7}),
            "zone_power": F("enum", rng(1, 2, 0), enum="ZonePowerControl", codes={0: "UNCHANGED", 1: "TOGGLE", 2: "TURN_OFF", 3: "TURN_ON", 5: "TURBO"}, keep={0, 4, 6, 7}),
        },
        "zero": rng(3, 7, 0) + rng(1, 4, 3),
    },
    ("at5", "xC022_ac_ctrl", "AcControlEncoder"): {
        "size": 4,
        "page": "AT5 v1.2 p.8",
        "fields": {
            "power": F("enum", rng(0, 7, 4), enum="AcPowerControl", codes={0: "UNCHANGED", 1: "TOGGLE", 2: "TURN_OFF", 3: "TURN_ON", 4: "SET_TO_AWAY", 5: "SET_TO_SLEEP"}, keep={0} | set(range(6, 16))),
            "ac_number": F("uint", rng(0, 3, 0), valid_bits=4),
            "mode": F("enum", rng(1, 7, 4), enum="AcModeControl", codes={**MODES, 0xFF: "UNCHANGED"}, keep=set(range(5, 16)), low_bits=4),
            "fan_speed": F("enum", rng(1, 3, 0), enum="AcFanSpeedControl", codes={**FANS, 8: "INTELLIGENT_AUTO", 0xFF: "UNCHANGED"}, keep={7} | set(range(9, 16)), low_bits=4),
            "set_point": F("optaffine", rng(3, 7, 0), flag=(rng(2, 7, 0), 0x40, 0x00), mul=10, add=-100, keep_value=0xFF),
        },
        "zero": [],
    },
}

HEADER = {
    "at4": {"prefix": b"\x55\x55", "fields": ["to_address", "from_address", "packet_id", "message_id", "message_length"], "sizes": [1, 1, 1, 1, 2], "page": "AT4 v1.6 p.3"},
    "at5": {"prefix": b"\x55\x55\x55\xaa", "outer_prefix": b"\x55\x55\x55\xab", "fields": ["to_address", "from_address", "packet_id", "message_id", "message_length"], "sizes": [1, 1, 1, 1, 2], "page": "AT5 v1.2 p.3 + docs/design.md (outer header)"},
}

IDS = {
    "at4": {"x2A_group_ctrl": 0x2A, "x2B_group_status": 0x2B, "x2C_ac_ctrl": 0x2C, "x2D_ac_status": 0x2D, "x1F_ext": 0x1F, "x1FFF10_err_info": 0xFF10, "x1FFF11_ac_ability": 0xFF11, "x1FFF12_group_names": 0xFF12, "x1FFF30_console_ver": 0xFF30},
    "at5": {"xC0_ctrl_status": 0xC0, "xC020_zone_ctrl": 0x20, "xC021_zone_status": 0x21, "xC022_ac_ctrl": 0x22, "xC023_ac_status": 0x23, "x1F_ext": 0x1F, "x1FFF10_err_info": 0xFF10, "x1FFF11_ac_ability": 0xFF11, "x1FFF13_zone_names": 0xFF13, "x1FFF30_console_ver": 0xFF30},
}
ADDRESSES = {"ADDRESS_AIRTOUCH": 0x80, "ADDRESS_AIRTOUCH_EXTENDED": 0x90, "ADDRESS_CLIENT": 0xB0}

# Vendor example frames (address .. payload) used to QA this transcription: (generation, record key, payload hex after the
# message header / sub-header, expected field readings)
EXAMPLES = [
    ("at4", "x2A", "01020000", {"group_number": 1, "power": "TURN_OFF", "control_method": "UNCHANGED", "setting": None}),
    ("at4", "x2C", "81ff3f00", {"ac_number": 1, "power": "TURN_OFF", "mode": "UNCHANGED", "fan_speed": "UNCHANGED", "set_point_control": None}),
    ("at4", "x2C", "00403f00", {"ac_number": 0, "power": "UNCHANGED", "mode": "COOL", "fan_speed": "AUTO", "set_point_control": None}),
    ("at5", "xC020", "0102ff00", {"zone_number": 1, "zone_power": "TURN_OFF", "zone_setting": None}),
    ("at5", "xC022", "21ff00ff", {"ac_number": 1, "power": "TURN_OFF", "mode": "UNCHANGED", "fan_speed": "UNCHANGED", "set_point": None}),
]
