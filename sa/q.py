"""Query helpers shared by the rule modules (function wrapper, expression expansion, condition normal forms)."""
from __future__ import annotations

import ast
import copy
from typing import Callable, Iterable, Optional

from . import cfg as cfgmod
from .model import AnalysisError, ClassInfo, Module, Repo, dotted, norm_text, unparse, walk_no_nested

NONEXC = {"next", "true", "false", "iter", "done", "match", "nomatch"}


class Fn:
    """A function of the repo with its CFG and def-use helpers."""

    def __init__(self, repo: Repo, module: Module, qual: str, effects=None):
        """With `effects` (sa.effects.Effects) exception edges are added only where the effect analysis says the
        statement may raise (or awaits: cancellation); without it every call/subscript/await may raise."""
        self.repo = repo
        self.module = module
        self.qual = qual
        self.node = module.get_function(qual)
        self.cls: Optional[ClassInfo] = module.classes.get(qual.split(".")[0]) if "." in qual else None
        raises = None
        if effects is not None:
            cls = self.cls

            def raises(probe, effects=effects, module=module, cls=cls):
                if isinstance(probe, ast.stmt):
                    return effects.of_stmt(probe, module, cls) != frozenset()
                return effects.of_expr(probe, module, cls) != frozenset()

        self.cfg = cfgmod.build(self.node, qual, raises)
        self._rd: dict = {}
        self.params = [a.arg for a in self.node.args.posonlyargs + self.node.args.args + self.node.args.kwonlyargs]

    @property
    def name(self) -> str:
        return f"{self.module.name}.{self.qual}"

    # -- finding things ------------------------------------------------
    def calls(self, suffix: str) -> list:
        """[(cfg node, ast.Call)] whose dotted callee equals suffix or ends with '.'+suffix."""
        return self.cfg.call_nodes(lambda d: d == suffix or d.endswith("." + suffix))

    def calls_pred(self, pred: Callable[[str], bool]) -> list:
        return self.cfg.call_nodes(pred)

    def assigns(self, target: str) -> list:
        """CFG nodes that assign to the dotted target (e.g. 'self.is_connected'); [(node, value expr|None)]."""
        out = []
        for n in self.cfg.nodes:
            a = n.ast
            if n.kind != "stmt" or a is None or "defn" in n.meta:
                continue
            if isinstance(a, ast.Assign):
                for t in a.targets:
                    for tt, vv in _pairs(t, a.value):
                        if dotted(tt) == target:
                            out.append((n, vv))
            elif isinstance(a, ast.AnnAssign) and a.value is not None and dotted(a.target) == target:
                out.append((n, a.value))
            elif isinstance(a, ast.AugAssign) and dotted(a.target) == target:
                out.append((n, None))
        return out

    def tests(self, pred: Callable[[ast.expr], bool]) -> list:
        return [n for n in self.cfg.nodes if n.kind == "test" and pred(n.ast)]

    def presence(self, target: str) -> list:
        """[(test node, label of the branch on which `target` is present/truthy)] for `target`, `target is not None`,
        `target is None`, `target != None`, `target == None` tests (an Optional object held in an attribute)."""
        out = []
        for n in self.cfg.nodes:
            if n.kind != "test":
                continue
            e = n.ast
            if dotted(e) == target:
                out.append((n, "true"))
            elif isinstance(e, ast.Compare) and len(e.ops) == 1 and dotted(e.left) == target and isinstance(e.comparators[0], ast.Constant) and e.comparators[0].value is None:
                if isinstance(e.ops[0], (ast.IsNot, ast.NotEq)):
                    out.append((n, "true"))
                elif isinstance(e.ops[0], (ast.Is, ast.Eq)):
                    out.append((n, "false"))
        return out

    def eq_branches(self, target: str, value_pred: Callable[[ast.expr], bool]) -> list:
        """CFG branch nodes on which `target == <value satisfying value_pred>` is known to hold: the true branch of an
        equality test, the false branch of an inequality test (either operand order)."""
        out = []
        for n in self.cfg.nodes:
            e = n.ast
            if n.kind != "test" or not (isinstance(e, ast.Compare) and len(e.ops) == 1 and isinstance(e.ops[0], (ast.Eq, ast.NotEq, ast.Is, ast.IsNot))):
                continue
            l, r = e.left, e.comparators[0]
            if dotted(l) == target and value_pred(r) or dotted(r) == target and value_pred(l):
                out.append(self.branch(n, "true" if isinstance(e.ops[0], (ast.Eq, ast.Is)) else "false"))
        return out

    def branch(self, test_node, label: str):
        for lbl, s in test_node.succ:
            if lbl == label:
                return self.cfg.nodes[s]
        raise AnalysisError(f"{self.name}: test node without {label} branch")

    def handlers(self) -> list:
        return [n for n in self.cfg.nodes if n.kind == "handler"]

    # -- reaching definitions / expansion --------------------------------
    def rd(self, name: str) -> dict:
        if name not in self._rd:
            self._rd[name] = self.cfg.reaching_defs(name)
        return self._rd[name]

    def defs_reaching(self, name: str, at) -> list:
        return [self.cfg.nodes[i] for i in sorted(self.rd(name)[at.id])]

    def unique_def_value(self, name: str, at):
        """If exactly one definition of local `name` reaches `at` and it is 'name = <expr>' (or a tuple
        unpack element), return (def node, expr); if it is the parameter return (entry, None); else None."""
        ds = self.defs_reaching(name, at)
        if len(ds) != 1:
            return None
        d = ds[0]
        if d.kind == "entry":
            return (d, None)
        if d.kind == "stmt" and isinstance(d.ast, ast.Assign) and len(d.ast.targets) == 1:
            for tt, vv in _pairs(d.ast.targets[0], d.ast.value):
                if isinstance(tt, ast.Name) and tt.id == name and vv is not None:
                    return (d, vv)
        if d.kind == "stmt" and isinstance(d.ast, ast.AnnAssign) and isinstance(d.ast.target, ast.Name) and d.ast.value is not None:
            return (d, d.ast.value)
        return None

    def expand(self, expr: ast.AST, at, depth: int = 0, keep=(), state_safe: bool = True) -> ast.AST:
        """Inline local variables with a unique simple definition reaching `at` (recursively); names in `keep` stay."""
        if depth > 12:
            return expr
        fn = self

        class T(ast.NodeTransformer):
            def visit_Name(self, n):
                if not isinstance(n.ctx, ast.Load) or n.id in keep:
                    return n
                u = fn.unique_def_value(n.id, at)
                if u is None or u[1] is None:
                    return n
                dnode, val = u
                # the definition's own inputs must still have the values they had there (no re-assignment in between)
                if hasattr(at, "id"):
                    bound_inside = {x.id for x in ast.walk(val) if isinstance(x, ast.Name) and isinstance(x.ctx, ast.Store)} | {a.arg for x in ast.walk(val) if isinstance(x, ast.Lambda) for a in x.args.args}
                    for sub in ast.walk(val):
                        if isinstance(sub, ast.Name) and isinstance(sub.ctx, ast.Load) and sub.id != n.id and sub.id not in bound_inside:
                            try:
                                if fn.rd(sub.id)[dnode.id] != fn.rd(sub.id)[at.id] and (fn.rd(sub.id)[dnode.id] or fn.rd(sub.id)[at.id]):
                                    return n
                            except KeyError:
                                pass
                # a definition that reads object state (self.x...) stands for that state only while nothing re-assigns it
                for sub in (ast.walk(val) if state_safe else ()):
                    if isinstance(sub, ast.Attribute):
                        d = dotted(sub)
                        if d and d.startswith("self."):
                            btw = fn.cfg.between(dnode.id, at.id, NONEXC) if hasattr(at, "id") else set()
                            if any(an.id in btw and an.id not in (dnode.id, at.id) for an, _ in fn.assigns(d)):
                                return n
                return fn.expand(copy.deepcopy(val), dnode, depth + 1, keep, state_safe)

            def visit_Lambda(self, n):
                return n

        out = T().visit(copy.deepcopy(expr))
        return self._project(out) if depth == 0 else out

    def _project(self, expr: ast.AST) -> ast.AST:
        """`C(a=x, b=y).a` -> `x` for dataclasses of the repo (a record built and read back in one function)."""
        fn = self

        class P(ast.NodeTransformer):
            def visit_Attribute(self, n):
                self.generic_visit(n)
                if isinstance(n.value, ast.Call) and dotted(n.value.func):
                    ci = fn.repo.resolve_class(fn.module, n.value.func)
                    if ci is not None and ci.is_dataclass:
                        names = [f for f, _, _ in ci.fields]
                        vals = {}
                        for i, a in enumerate(n.value.args):
                            if i < len(names):
                                vals[names[i]] = a
                        for k in n.value.keywords:
                            if k.arg:
                                vals[k.arg] = k.value
                        if n.attr in vals:
                            return vals[n.attr]
                return n

            def visit_Subscript(self, n):
                self.generic_visit(n)
                return fn._fold_subscript(n)

        return P().visit(expr)

    def _int(self, e):
        if e is None:
            return None
        v = self.repo.try_fold(self.module, e)
        return v if isinstance(v, int) and not isinstance(v, bool) else None

    def _arity(self, e):
        """number of values of `<struct>.unpack_from(...)` / `<struct>.unpack(...)`"""
        if isinstance(e, ast.Call) and isinstance(e.func, ast.Attribute) and e.func.attr in ("unpack_from", "unpack"):
            from .model import StructVal
            st = self.repo.try_fold(self.module, e.func.value)
            if isinstance(st, StructVal):
                return len(st.slots)
        if isinstance(e, ast.Tuple) and not any(isinstance(x, ast.Starred) for x in e.elts):
            return len(e.elts)
        return None

    def _fold_subscript(self, n: ast.Subscript):
        """`(a, b, c)[1]` -> b; `X[a:b][i]` -> `X[a+i]`; `X[a:b][c:d]` -> one slice; `X[-1]` -> `X[N-1]` when the arity N of X is
        known (struct unpack).  Only constant, in-range bounds are folded; anything else is left as written."""
        base, sl = n.value, n.slice
        N = self._arity(base)
        if isinstance(sl, ast.Slice):
            if sl.step is not None:
                return n
            lo = self._int(sl.lower) if sl.lower is not None else 0
            hi = self._int(sl.upper) if sl.upper is not None else None
            if lo is None or (sl.upper is not None and hi is None):
                return n
            if N is not None:
                lo = lo + N if lo < 0 else lo
                hi = N if hi is None else (hi + N if hi < 0 else min(hi, N))
                if isinstance(base, ast.Tuple):
                    return ast.copy_location(ast.Tuple(elts=base.elts[lo:hi], ctx=ast.Load()), n)
            if lo < 0 or (hi is not None and hi < 0):
                return n
            if isinstance(base, ast.Subscript) and isinstance(base.slice, ast.Slice) and base.slice.step is None:
                blo = self._int(base.slice.lower) if base.slice.lower is not None else 0
                bhi = self._int(base.slice.upper) if base.slice.upper is not None else None
                if blo is None or blo < 0 or (base.slice.upper is not None and (bhi is None or bhi < 0)):
                    return n
                nlo = blo + lo
                nhi = bhi if hi is None else (blo + hi if bhi is None else min(bhi, blo + hi))
                new = ast.Subscript(value=base.value, slice=ast.Slice(lower=ast.Constant(value=nlo) if nlo else None, upper=ast.Constant(value=nhi) if nhi is not None else None), ctx=ast.Load())
                return ast.copy_location(new, n)
            if N is not None and (sl.lower is None or not isinstance(sl.lower, ast.Constant) or sl.upper is None or not isinstance(sl.upper, ast.Constant)):
                new = ast.Subscript(value=base, slice=ast.Slice(lower=ast.Constant(value=lo) if lo else None, upper=ast.Constant(value=hi)), ctx=ast.Load())
                return ast.copy_location(new, n)
            return n
        i = self._int(sl)
        if i is None:
            return n
        if N is not None:
            j = i + N if i < 0 else i
            if 0 <= j < N:
                if isinstance(base, ast.Tuple):
                    return base.elts[j]
                if j != i or not isinstance(sl, ast.Constant):
                    return ast.copy_location(ast.Subscript(value=base, slice=ast.Constant(value=j), ctx=ast.Load()), n)
            return n
        if isinstance(base, ast.Subscript) and isinstance(base.slice, ast.Slice) and base.slice.step is None:
            blo = self._int(base.slice.lower) if base.slice.lower is not None else 0
            bhi = self._int(base.slice.upper) if base.slice.upper is not None else None
            if blo is None or blo < 0 or (base.slice.upper is not None and (bhi is None or bhi < 0)):
                return n
            if i >= 0 and (bhi is None or blo + i < bhi):
                return ast.copy_location(ast.Subscript(value=base.value, slice=ast.Constant(value=blo + i), ctx=ast.Load()), n)
            if i < 0 and bhi is not None and bhi + i >= blo:
                return ast.copy_location(ast.Subscript(value=base.value, slice=ast.Constant(value=bhi + i), ctx=ast.Load()), n)
        return n

    def expand_text(self, expr: ast.AST, at, keep=()) -> str:
        return norm_text(self.expand(expr, at, keep=keep))

    def node_of(self, stmt_or_expr):
        """CFG node whose statement/test is (or contains) the given ast node."""
        for n in self.cfg.nodes:
            if n.ast is stmt_or_expr:
                return n
        for n in self.cfg.nodes:
            if n.ast is not None and any(x is stmt_or_expr for x in walk_no_nested(n.ast)):
                return n
        return None

    def is_param(self, name: str, at) -> bool:
        ds = self.defs_reaching(name, at)
        return len(ds) == 1 and ds[0].kind == "entry" and name in self.params

    # -- path predicates ----------------------------------------------------
    def awaits_between(self, a, b, labels=NONEXC, fresh: bool = False) -> list:
        """fresh=True: only paths on which a is not executed again (the value a defines is the one b reads)"""
        return [self.cfg.nodes[i] for i in sorted(self.cfg.between(a.id, b.id, labels, avoid=(a.id,) if fresh else ())) if self.cfg.nodes[i].awaits and i not in (a.id, b.id)]

    def dominated_by_branch(self, node, test_pred: Callable[[ast.expr], bool], label: str) -> bool:
        """node is dominated by the `label` branch of some test satisfying test_pred."""
        for t in self.tests(test_pred):
            if self.cfg.dominates(self.branch(t, label).id, node.id):
                return True
        return False

    def loc(self, node) -> str:
        return f"{self.module.relpath}:{getattr(node if isinstance(node, ast.AST) else node.ast, 'lineno', 0)}"


def _is_unpack(e) -> bool:
    """`<struct>.unpack_from(buf)` / `<struct>.unpack(buf)`: a pure function of its arguments, so `call[i]` names its i-th value"""
    return isinstance(e, ast.Call) and isinstance(e.func, ast.Attribute) and e.func.attr in ("unpack_from", "unpack") and not any(isinstance(x, (ast.Await, ast.NamedExpr)) for x in ast.walk(e))


def _pairs(target, value):
    """(target element, value element|None) pairs of an assignment, descending into parallel tuples."""
    if isinstance(target, (ast.Tuple, ast.List)):
        if isinstance(value, (ast.Tuple, ast.List)) and len(value.elts) == len(target.elts):
            for t, v in zip(target.elts, value.elts):
                yield from _pairs(t, v)
        elif value is not None and (isinstance(value, (ast.Name, ast.Attribute)) or _is_unpack(value) or (isinstance(value, ast.Subscript) and isinstance(value.slice, ast.Slice) and isinstance(value.value, (ast.Name, ast.Attribute)))) and not any(isinstance(t, ast.Starred) for t in target.elts):
            # `a, b, c = seq`: element i of the sequence
            for i, t in enumerate(target.elts):
                sub = ast.Subscript(value=copy.deepcopy(value), slice=ast.Constant(value=i), ctx=ast.Load())
                ast.copy_location(sub, value)
                ast.fix_missing_locations(sub)
                yield from _pairs(t, sub)
        elif value is not None and (isinstance(value, (ast.Name, ast.Attribute)) or _is_unpack(value)) and sum(isinstance(t, ast.Starred) for t in target.elts) == 1:
            # `a, *rest, z = seq`: a = seq[0], rest = seq[1:-1], z = seq[-1]
            k = next(i for i, t in enumerate(target.elts) if isinstance(t, ast.Starred))
            after = len(target.elts) - k - 1
            for i, t in enumerate(target.elts):
                if i < k:
                    sl = ast.Constant(value=i)
                elif i == k:
                    sl = ast.Slice(lower=ast.Constant(value=k) if k else None, upper=ast.UnaryOp(op=ast.USub(), operand=ast.Constant(value=after)) if after else None)
                else:
                    sl = ast.UnaryOp(op=ast.USub(), operand=ast.Constant(value=len(target.elts) - i))
                sub = ast.Subscript(value=copy.deepcopy(value), slice=sl, ctx=ast.Load())
                ast.copy_location(sub, value)
                ast.fix_missing_locations(sub)
                yield from _pairs(t.value if isinstance(t, ast.Starred) else t, sub)
        else:
            for i, t in enumerate(target.elts):
                yield from _pairs(t, None)
    else:
        yield target, value


def ctor_fields(repo: Repo, module: Module, call: ast.Call) -> dict:
    """{field name: argument expr} of a dataclass construction, positional arguments mapped through the field order."""
    ci = repo.resolve_class(module, call.func) if dotted(call.func) else None
    out = {}
    if ci is not None and ci.is_dataclass:
        names = [n for n, _, _ in ci.fields]
        for i, a in enumerate(call.args):
            if isinstance(a, ast.Starred):
                out["*"] = a.value
                break
            if i < len(names):
                out[names[i]] = a
    for k in call.keywords:
        if k.arg:
            out[k.arg] = k.value
    return out


def poly(repo: Repo, module: Module, e: ast.expr) -> dict:
    """Polynomial normal form over name/attribute atoms with module constants folded: {sorted tuple of atoms: coefficient}."""
    v = repo.try_fold(module, e)
    if isinstance(v, int) and not isinstance(v, bool):
        return {(): v} if v else {}
    if isinstance(e, ast.BinOp) and isinstance(e.op, (ast.Add, ast.Sub)):
        a, b = poly(repo, module, e.left), poly(repo, module, e.right)
        out = dict(a)
        for k, c in b.items():
            out[k] = out.get(k, 0) + (c if isinstance(e.op, ast.Add) else -c)
        return {k: c for k, c in out.items() if c}
    if isinstance(e, ast.BinOp) and isinstance(e.op, ast.Mult):
        a, b = poly(repo, module, e.left), poly(repo, module, e.right)
        out = {}
        for ka, va in a.items():
            for kb, vb in b.items():
                k = tuple(sorted(ka + kb))
                out[k] = out.get(k, 0) + va * vb
        return {k: c for k, c in out.items() if c}
    if isinstance(e, ast.UnaryOp) and isinstance(e.op, ast.USub):
        return {k: -c for k, c in poly(repo, module, e.operand).items()}
    d = dotted(e)
    if d is not None:
        return {(d,): 1}
    return {(norm_text(e),): 1}


def same_relation(repo: Repo, module: Module, test: ast.expr, want: ast.expr) -> bool:
    """Both are `a != b` / `a == b` comparisons and a - b agrees up to sign (operand order, constant folding and
    re-association do not matter)."""
    if not (isinstance(test, ast.Compare) and isinstance(want, ast.Compare) and len(test.ops) == 1 and len(want.ops) == 1 and type(test.ops[0]) is type(want.ops[0]) and isinstance(test.ops[0], (ast.Eq, ast.NotEq))):
        return False
    def diff(c):
        a, b = poly(repo, module, c.left), poly(repo, module, c.comparators[0])
        out = dict(a)
        for k, v in b.items():
            out[k] = out.get(k, 0) - v
        return {k: v for k, v in out.items() if v}
    d1, d2 = diff(test), diff(want)
    return d1 == d2 or d1 == {k: -v for k, v in d2.items()}


def inline_properties(repo: Repo, module: Module, expr: ast.AST, var: str, ci: Optional[ClassInfo], depth: int = 0, exclude=()) -> ast.AST:
    """`var.p` where p is a @property of class ci whose body is a single `return E`: replaced by E[self := var]."""
    if ci is None or depth > 4:
        return expr

    class T(ast.NodeTransformer):
        def visit_Attribute(self, n):
            self.generic_visit(n)
            if isinstance(n.value, ast.Name) and n.value.id == var and ci.is_property(n.attr) and n.attr not in exclude:
                fn = ci.methods[n.attr]
                body = [b for b in fn.body if not (isinstance(b, ast.Expr) and isinstance(b.value, ast.Constant))]
                if len(body) == 1 and isinstance(body[0], ast.Return) and body[0].value is not None:
                    e = copy.deepcopy(body[0].value)

                    class S(ast.NodeTransformer):
                        def visit_Name(self, x):
                            return ast.Name(id=var, ctx=x.ctx) if x.id == "self" else x

                    return inline_properties(repo, module, S().visit(e), var, ci, depth + 1, exclude)
            return n

    return T().visit(copy.deepcopy(expr))


# ----------------------------------------------------------------------------------------------
# case tables: `if subj == A: ... elif isinstance(subj, C): ... else: ...`, also as a run of early-exit ifs
def _terminates(body) -> bool:
    return bool(body) and isinstance(body[-1], (ast.Return, ast.Raise, ast.Continue, ast.Break))


def _case_key(test: ast.expr, subject: str):
    """('eq', value expr) | ('isinstance', class expr) | None for a test on the subject (either operand order)."""
    if isinstance(test, ast.Compare) and len(test.ops) == 1 and isinstance(test.ops[0], (ast.Eq, ast.Is)):
        l, r = test.left, test.comparators[0]
        if norm_text(l) == subject:
            return ("eq", r)
        if norm_text(r) == subject:
            return ("eq", l)
    if isinstance(test, ast.Call) and dotted(test.func) == "isinstance" and len(test.args) == 2 and norm_text(test.args[0]) == subject:
        return ("isinstance", test.args[1])
    return None


def case_table(stmts: list, subject: str):
    """[(kind, key expr | None, body stmts)] for a chain of tests on `subject` in a statement list; kind 'default' has key None and
    holds the statements executed when no test matched (the else branch, or what follows a run of terminating ifs).
    Returns None when the statement list does not start such a chain."""
    out = []
    i = 0
    while i < len(stmts):
        st = stmts[i]
        if isinstance(st, ast.If):
            k = _case_key(st.test, subject)
            if k is None:
                break
            out.append((k[0], k[1], st.body))
            cur = st
            while len(cur.orelse) == 1 and isinstance(cur.orelse[0], ast.If) and _case_key(cur.orelse[0].test, subject) is not None:
                cur = cur.orelse[0]
                k = _case_key(cur.test, subject)
                out.append((k[0], k[1], cur.body))
            if cur.orelse:
                out.append(("default", None, cur.orelse))
                return out
            # no else: when every arm so far terminates, the following statements are the remaining cases / the default
            if all(_terminates(b) for _, _, b in out):
                i += 1
                continue
            return out
        break
    if not out:
        return None
    rest = stmts[i:]
    if rest:
        out.append(("default", None, rest))
    return out


def find_case_table(fn_node, subject: str):
    """First statement list in the function that starts a case table on `subject` (skipping leading non-if statements)."""
    for holder in walk_no_nested(fn_node):
        for field in ("body", "orelse"):
            blk = getattr(holder, field, None)
            if isinstance(blk, list):
                for i, st in enumerate(blk):
                    if isinstance(st, ast.If) and _case_key(st.test, subject) is not None:
                        return case_table(blk[i:], subject)
    return None


# ----------------------------------------------------------------------------------------------
# comparisons / conditions

_FLIP = {ast.Lt: ast.Gt, ast.Gt: ast.Lt, ast.LtE: ast.GtE, ast.GtE: ast.LtE, ast.Eq: ast.Eq, ast.NotEq: ast.NotEq, ast.Is: ast.Is, ast.IsNot: ast.IsNot}
_NEG = {ast.Lt: ast.GtE, ast.Gt: ast.LtE, ast.LtE: ast.Gt, ast.GtE: ast.Lt, ast.Eq: ast.NotEq, ast.NotEq: ast.Eq, ast.Is: ast.IsNot, ast.IsNot: ast.Is, ast.In: ast.NotIn, ast.NotIn: ast.In}
_SYM = {ast.Lt: "<", ast.Gt: ">", ast.LtE: "<=", ast.GtE: ">=", ast.Eq: "==", ast.NotEq: "!=", ast.Is: "is", ast.IsNot: "is not", ast.In: "in", ast.NotIn: "not in"}


def cmp_parts(test: ast.expr):
    """(left expr, op symbol, right expr) for a single binary comparison, else None."""
    if isinstance(test, ast.Compare) and len(test.ops) == 1:
        return test.left, _SYM.get(type(test.ops[0])), test.comparators[0]
    return None


def cmp_oriented(test: ast.expr, left_pred: Callable[[ast.expr], bool], truth: bool = True):
    """Orient a comparison so that the operand satisfying left_pred is on the left; negate the operator when
    truth is False (we are on the false branch).  Returns (left, op symbol, right) or None."""
    if not (isinstance(test, ast.Compare) and len(test.ops) == 1):
        return None
    l, op, r = test.left, type(test.ops[0]), test.comparators[0]
    if not left_pred(l):
        if left_pred(r) and op in _FLIP:
            l, r, op = r, l, _FLIP[op]
        else:
            return None
    if not truth:
        if op not in _NEG:
            return None
        op = _NEG[op]
    return l, _SYM[op], r


def package_calls(repo: Repo, pred: Callable[[str], bool]) -> list:
    """All calls in the package whose dotted callee satisfies pred: [(module, enclosing qualname, call)]."""
    out = []
    for m in repo.modules.values():
        for qual, fn in iter_functions(m):
            for n in walk_no_nested(fn):
                if isinstance(n, ast.Call):
                    d = dotted(n.func)
                    if d is not None and pred(d):
                        out.append((m, qual, n))
        for n in _module_level_nodes(m):
            if isinstance(n, ast.Call):
                d = dotted(n.func)
                if d is not None and pred(d):
                    out.append((m, "<module>", n))
    return out


def _module_level_nodes(m: Module):
    for stmt in m.tree.body:
        if isinstance(stmt, (ast.FunctionDef, ast.AsyncFunctionDef, ast.ClassDef)):
            continue
        yield from ast.walk(stmt)


def iter_functions(m: Module):
    """(qualname, FunctionDef) for every function/method, including nested functions (qual 'A.b.<locals>.c')."""

    def rec(body, prefix):
        for stmt in body:
            if isinstance(stmt, (ast.FunctionDef, ast.AsyncFunctionDef)):
                q = f"{prefix}{stmt.name}"
                yield q, stmt
                yield from rec_nested(stmt, q)
            elif isinstance(stmt, ast.ClassDef):
                yield from rec(stmt.body, f"{prefix}{stmt.name}.")

    def rec_nested(fn, q):
        for n in ast.walk(fn):
            if n is not fn and isinstance(n, (ast.FunctionDef, ast.AsyncFunctionDef)):
                yield f"{q}.<locals>.{n.name}", n

    yield from rec(m.tree.body, "")


_AU_CACHE: dict = {}


def _module_maps(m: Module):
    key = id(m)
    if key not in _AU_CACHE:
        parents = {}
        for p in ast.walk(m.tree):
            for c in ast.iter_child_nodes(p):
                parents[id(c)] = p
        encl = {}
        # innermost enclosing function: outer first, inner overrides
        for qual, fn in sorted(iter_functions(m), key=lambda x: x[0].count(".")):
            for n in ast.walk(fn):
                encl[id(n)] = qual
        attrs = {}
        for n in ast.walk(m.tree):
            if isinstance(n, ast.Attribute):
                attrs.setdefault(n.attr, []).append(n)
        _AU_CACHE[key] = (parents, encl, attrs, m)
    return _AU_CACHE[key]


def attr_uses(repo: Repo, attr: str) -> list:
    """Every Attribute node '<x>.<attr>' in the package: [(module, enclosing qualname, Attribute node, parent node)]."""
    out = []
    for m in repo.modules.values():
        parents, encl, attrs, _ = _module_maps(m)
        for n in attrs.get(attr, []):
            out.append((m, encl.get(id(n), "<module>"), n, parents.get(id(n))))
    return out


def flatten_add(e: ast.expr) -> list:
    if isinstance(e, ast.BinOp) and isinstance(e.op, ast.Add):
        return flatten_add(e.left) + flatten_add(e.right)
    return [e]


def bool_atoms(e: ast.expr) -> list:
    if isinstance(e, ast.BoolOp):
        out = []
        for v in e.values:
            out += bool_atoms(v)
        return out
    if isinstance(e, ast.UnaryOp) and isinstance(e.op, ast.Not):
        return bool_atoms(e.operand)
    return [e]


def eval_bool(e: ast.expr, atom_value: Callable[[ast.expr], Optional[bool]]) -> Optional[bool]:
    """Three-valued evaluation of a boolean formula given a valuation of its atoms."""
    if isinstance(e, ast.BoolOp):
        vals = [eval_bool(v, atom_value) for v in e.values]
        if isinstance(e.op, ast.And):
            if any(v is False for v in vals):
                return False
            return True if all(v is True for v in vals) else None
        if any(v is True for v in vals):
            return True
        return False if all(v is False for v in vals) else None
    if isinstance(e, ast.UnaryOp) and isinstance(e.op, ast.Not):
        v = eval_bool(e.operand, atom_value)
        return None if v is None else (not v)
    if isinstance(e, ast.Constant):
        return bool(e.value)
    return atom_value(e)


# ----------------------------------------------------------------------------------------------
# guarded paths through a block: `x = A if-tree` and early assignments expressed as (literals, environment) pairs
_POSITIVE = {ast.IsNot: ast.Is, ast.NotEq: ast.Eq, ast.NotIn: ast.In}


def literal(test: ast.expr, truth: bool = True):
    """(positive text, polarity) of an atomic condition: `a is not None` -> ('a is None', False)."""
    t = copy.deepcopy(test)
    while True:
        if isinstance(t, ast.UnaryOp) and isinstance(t.op, ast.Not):
            t, truth = t.operand, not truth
            continue
        if isinstance(t, ast.Compare) and len(t.ops) == 1 and type(t.ops[0]) in _POSITIVE:
            t.ops = [_POSITIVE[type(t.ops[0])]()]
            truth = not truth
            continue
        break
    return norm_text(t), truth


class _SubstEnv(ast.NodeTransformer):
    def __init__(self, env):
        self.env = env

    def visit_Name(self, n):
        if isinstance(n.ctx, ast.Load) and self.env.get(n.id) is not None:
            return copy.deepcopy(self.env[n.id])
        return n

    def _scoped(self, node):
        bound = {x.id for g in node.generators for x in ast.walk(g.target) if isinstance(x, ast.Name)}
        saved = self.env
        self.env = {k: v for k, v in saved.items() if k not in bound}
        try:
            return self.generic_visit(node)
        finally:
            self.env = saved

    visit_ListComp = visit_SetComp = visit_DictComp = visit_GeneratorExp = _scoped

    def visit_Lambda(self, node):
        return node


def subst_env(expr: ast.AST, env: dict) -> ast.AST:
    return _SubstEnv(env).visit(copy.deepcopy(expr))


def block_paths(stmts: list, env: Optional[dict] = None, conds: Optional[list] = None, limit: int = 256) -> list:
    """Paths through a loop-free block: [(literals, env, end)] where literals is a list of (positive text, polarity) with local
    names replaced by the expressions they were bound to on that path, env maps each local assigned on the path to its (substituted)
    value expression (None: not expressible), and end is 'fall' | 'return' | 'raise' | 'break' | 'continue'.  Statements that are
    not assignments / ifs make the names they bind unknown."""
    env = dict(env or {})
    conds = list(conds or [])
    for i, st in enumerate(stmts):
        if isinstance(st, ast.Assign) and len(st.targets) == 1 and isinstance(st.targets[0], ast.Name):
            env[st.targets[0].id] = subst_env(st.value, env)
        elif isinstance(st, ast.AnnAssign) and isinstance(st.target, ast.Name) and st.value is not None:
            env[st.target.id] = subst_env(st.value, env)
        elif isinstance(st, ast.If):
            test = subst_env(st.test, env)
            out = []
            for lits, body in (([literal(test, True)], st.body), ([literal(test, False)], st.orelse)):
                for c2, e2, end in block_paths(body, env, conds + lits, limit):
                    if end == "fall":
                        out.extend(block_paths(stmts[i + 1:], e2, c2, limit))
                    else:
                        out.append((c2, e2, end))
                    if len(out) > limit:
                        raise AnalysisError("too many paths through a block")
            return out
        elif isinstance(st, ast.Return):
            env["<return>"] = subst_env(st.value, env) if st.value is not None else None
            return [(conds, env, "return")]
        elif isinstance(st, ast.Raise):
            return [(conds, env, "raise")]
        elif isinstance(st, ast.Break):
            return [(conds, env, "break")]
        elif isinstance(st, ast.Continue):
            return [(conds, env, "continue")]
        elif isinstance(st, ast.While) and isinstance(st.test, ast.Constant) and st.test.value is True and not st.orelse and _one_shot(st.body):
            # the one-shot loop an inlined multi-exit helper becomes: its body runs once, `break` leaves it
            out = []
            for c2, e2, end in block_paths(st.body, env, conds, limit):
                if end in ("break", "fall"):
                    out.extend(block_paths(stmts[i + 1:], e2, c2, limit))
                else:
                    out.append((c2, e2, end))
            return out
        else:
            for x in ast.walk(st):
                if isinstance(x, ast.Name) and isinstance(x.ctx, (ast.Store, ast.Del)):
                    env[x.id] = None
    return [(conds, env, "fall")]


def _one_shot(body) -> bool:
    """every path through the body ends in break / return / raise (so `while True` runs it exactly once)"""
    if not body:
        return False
    last = body[-1]
    if isinstance(last, (ast.Break, ast.Return, ast.Raise)):
        return not any(isinstance(x, ast.Continue) for s in body for x in ast.walk(s))
    if isinstance(last, ast.If) and last.orelse:
        return _one_shot(last.body) and _one_shot(last.orelse)
    return False


def bind_call(repo: Repo, module: Module, call: ast.Call) -> dict:
    """{parameter name: argument expr}: keywords as written, positional arguments through the signature of the callee when it can be
    found in the package (a function, a class constructor, or a method of the class a module-level object was built from)."""
    out = {k.arg: k.value for k in call.keywords if k.arg}
    if not call.args or any(isinstance(a, ast.Starred) for a in call.args):
        return out
    params = None
    fnode = None
    f = call.func
    if isinstance(f, ast.Attribute) and isinstance(f.value, ast.Name) and f.value.id in module.assigns and isinstance(module.assigns[f.value.id], ast.Call):
        ci = repo.resolve_class(module, module.assigns[f.value.id].func) if dotted(module.assigns[f.value.id].func) else None
        seen = 0
        while ci is not None and fnode is None and seen < 6:
            fnode = ci.methods.get(f.attr)
            if fnode is None:
                nxt = None
                for b in ci.bases:
                    bb = b.value if isinstance(b, ast.Subscript) else b
                    if dotted(bb):
                        nxt = repo.resolve_class(ci.module, bb)
                        if nxt is not None:
                            break
                ci = nxt
            seen += 1
        if fnode is not None:
            params = [a.arg for a in fnode.args.posonlyargs + fnode.args.args][1:]
    elif dotted(f):
        s = repo.resolve(module, f)
        if s is not None and s.kind == "function":
            params = [a.arg for a in s.node.args.posonlyargs + s.node.args.args]
    if params is not None:
        for i, a in enumerate(call.args):
            if i < len(params) and params[i] not in out:
                out[params[i]] = a
    return out
