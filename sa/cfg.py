"""E2 - statement-level control-flow graph with exception edges, dominators and path queries.

Nodes are simple statements, *atomic* branch conditions (BoolOp / not are decomposed so that each
atom has its own true/false successor) and a few structural markers.  Every conditional edge goes
through a synthetic ``branch`` node so that "every path to X takes the true branch of test T" is a
plain node-dominance query.

Exception edges are an over-approximation: any node that may raise has an edge to every handler of
each enclosing ``try`` (innermost first) until a catch-all handler is met, else to RAISE (the
exceptional exit).  ``finally`` bodies are duplicated per continuation (fall-through, exception,
return/break/continue).  ``with contextlib.suppress(E)`` is modelled as try/except E: pass.
More edges mean fewer dominators, so the approximation can only make must-rules harder to
satisfy, never easier.
"""
from __future__ import annotations

import ast
from dataclasses import dataclass, field
from typing import Callable, Iterable, Optional

from .model import contains_await, dotted, walk_no_nested, unparse

CATCH_ALL = {"Exception", "BaseException"}


@dataclass
class Node:
    id: int
    kind: str  # entry exit raise stmt test branch for with_enter with_exit handler case match loop_else join
    ast: Optional[ast.AST] = None
    label: str = ""
    succ: list = field(default_factory=list)  # (edge_label, node_id)
    pred: list = field(default_factory=list)
    awaits: bool = False
    may_raise: bool = False
    meta: dict = field(default_factory=dict)

    @property
    def lineno(self) -> int:
        return getattr(self.ast, "lineno", 0) if self.ast is not None else 0

    def __repr__(self):
        t = unparse(self.ast).split("\n")[0][:60] if self.ast is not None else ""
        return f"<{self.id}:{self.kind}{':' + self.label if self.label else ''} {t}>"


def expr_may_raise(node: ast.AST) -> bool:
    for n in walk_no_nested(node):
        if isinstance(n, (ast.Call, ast.Await, ast.Subscript, ast.Raise, ast.Assert, ast.Yield, ast.YieldFrom)):
            return True
        if isinstance(n, ast.BinOp) and isinstance(n.op, (ast.Div, ast.FloorDiv, ast.Mod)):
            return True
    return False


class _Frame:
    def __init__(self, kind, **kw):
        self.kind = kind  # handlers | finally | loop
        self.__dict__.update(kw)


class CFG:
    def __init__(self, fn: ast.AST, name: str = "", raises=None):
        self.fn = fn
        self._raises = raises  # optional oracle: ast node -> bool ("may raise"); default is the syntactic over-approximation
        self.name = name or getattr(fn, "name", "<fn>")
        self.nodes: list[Node] = []
        self.entry = self._new("entry")
        self.exit = self._new("exit")
        self.raise_exit = self._new("raise")
        self._stack: list[_Frame] = []
        outs = self._block(fn.body, [(self.entry.id, "next")])
        self._connect(outs, self.exit.id)
        for n in self.nodes:
            for lbl, s in n.succ:
                self.nodes[s].pred.append((lbl, n.id))
        self._dom = None
        self._pdom = {}

    # ------------------------------------------------------------------ construction
    def _new(self, kind, node=None, label="", **meta) -> Node:
        n = Node(len(self.nodes), kind, node, label, meta=meta)
        if node is not None and kind in ("stmt", "test", "for", "with_enter", "match", "case"):
            probe = node
            if kind == "for":
                probe = node.iter
            elif kind == "with_enter":
                probe = ast.Tuple(elts=[i.context_expr for i in node.items], ctx=ast.Load())
            elif kind == "match":
                probe = node.subject
            elif kind == "case":
                probe = node.guard if node.guard is not None else ast.Constant(value=None)
            n.awaits = contains_await(probe) or (kind == "for" and isinstance(node, ast.AsyncFor)) or (
                kind == "with_enter" and isinstance(node, ast.AsyncWith)
            )
            if self._raises is not None:
                n.may_raise = bool(self._raises(probe)) or n.awaits
            else:
                n.may_raise = expr_may_raise(probe) or kind in ("for", "with_enter", "case")
        self.nodes.append(n)
        return n

    def _connect(self, outs, target: int):
        for src, lbl in outs:
            self.nodes[src].succ.append((lbl, target))

    def _exc_targets(self, depth: int) -> list:
        """Node ids an exception raised under self._stack[:depth] may transfer control to."""
        targets = []
        i = depth - 1
        while i >= 0:
            f = self._stack[i]
            if f.kind == "handlers":
                targets += [h for h in f.handler_nodes]
                if f.catch_all:
                    return targets
            elif f.kind == "finally":
                if f.exc_entry is None:
                    saved = self._stack
                    self._stack = saved[:i]
                    join = self._new("join", label="finally(exc)")
                    f.exc_entry = join.id
                    outs = self._block(f.body, [(join.id, "next")])
                    for t in self._exc_targets(i):
                        self._connect([(s, "exc") for s, _ in outs], t)
                    self._stack = saved
                targets.append(f.exc_entry)
                return targets
            i -= 1
        targets.append(self.raise_exit.id)
        return targets

    def _add_exc(self, n: Node):
        if n.may_raise:
            for t in self._exc_targets(len(self._stack)):
                n.succ.append(("exc", t))

    def _through_finally(self, outs, upto: int):
        """Run pending finally bodies (innermost first) for a jump leaving frames[upto:]"""
        for i in range(len(self._stack) - 1, upto - 1, -1):
            f = self._stack[i]
            if f.kind == "finally":
                saved = self._stack
                self._stack = saved[:i]
                outs = self._block(f.body, outs)
                self._stack = saved
        return outs

    def _cond(self, test: ast.expr, preds, owner=None):
        """Decompose a condition; returns (true_outs, false_outs)."""
        if isinstance(test, ast.BoolOp):
            if isinstance(test.op, ast.And):
                false_outs = []
                cur = preds
                for v in test.values:
                    t, f = self._cond(v, cur, owner)
                    false_outs += f
                    cur = t
                return cur, false_outs
            true_outs = []
            cur = preds
            for v in test.values:
                t, f = self._cond(v, cur, owner)
                true_outs += t
                cur = f
            return true_outs, cur
        if isinstance(test, ast.UnaryOp) and isinstance(test.op, ast.Not):
            t, f = self._cond(test.operand, preds, owner)
            return f, t
        n = self._new("test", test, owner=owner)
        self._connect(preds, n.id)
        self._add_exc(n)
        bt = self._new("branch", test, "true", test=n.id, owner=owner)
        bf = self._new("branch", test, "false", test=n.id, owner=owner)
        n.succ.append(("true", bt.id))
        n.succ.append(("false", bf.id))
        return [(bt.id, "next")], [(bf.id, "next")]

    def _block(self, stmts, preds):
        for s in stmts:
            preds = self._stmt(s, preds)
        return preds

    def _handler_types(self, h: ast.ExceptHandler) -> list:
        if h.type is None:
            return ["BaseException"]
        elts = h.type.elts if isinstance(h.type, ast.Tuple) else [h.type]
        return [dotted(e) or unparse(e) for e in elts]

    def _stmt(self, s: ast.stmt, preds):
        if isinstance(s, (ast.FunctionDef, ast.AsyncFunctionDef, ast.ClassDef, ast.Import, ast.ImportFrom, ast.Global, ast.Nonlocal)):
            n = self._new("stmt", None, label=f"def {getattr(s, 'name', '')}", defn=s)
            n.ast = s
            n.may_raise = False
            n.awaits = False
            self._connect(preds, n.id)
            return [(n.id, "next")]
        if isinstance(s, ast.If):
            t, f = self._cond(s.test, preds, owner=s)
            t_out = self._block(s.body, t)
            f_out = self._block(s.orelse, f) if s.orelse else f
            return t_out + f_out
        if isinstance(s, ast.While):
            head = self._new("join", s, "while")
            self._connect(preds, head.id)
            const_true = isinstance(s.test, ast.Constant) and bool(s.test.value)
            if const_true:
                t, f = [(head.id, "next")], []
            else:
                t, f = self._cond(s.test, [(head.id, "next")], owner=s)
            frame = _Frame("loop", head=head.id, breaks=[], depth=len(self._stack))
            self._stack.append(frame)
            body_out = self._block(s.body, t)
            self._stack.pop()
            self._connect(body_out, head.id)
            outs = self._block(s.orelse, f) if s.orelse else f
            return outs + frame.breaks
        if isinstance(s, (ast.For, ast.AsyncFor)):
            head = self._new("for", s)
            self._connect(preds, head.id)
            self._add_exc(head)
            frame = _Frame("loop", head=head.id, breaks=[], depth=len(self._stack))
            self._stack.append(frame)
            body_out = self._block(s.body, [(head.id, "iter")])
            self._stack.pop()
            self._connect(body_out, head.id)
            done = [(head.id, "done")]
            outs = self._block(s.orelse, done) if s.orelse else done
            return outs + frame.breaks
        if isinstance(s, ast.Break):
            n = self._new("stmt", s)
            self._connect(preds, n.id)
            for i in range(len(self._stack) - 1, -1, -1):
                if self._stack[i].kind == "loop":
                    outs = self._through_finally([(n.id, "next")], i + 1)
                    self._stack[i].breaks += outs
                    break
            return []
        if isinstance(s, ast.Continue):
            n = self._new("stmt", s)
            self._connect(preds, n.id)
            for i in range(len(self._stack) - 1, -1, -1):
                if self._stack[i].kind == "loop":
                    outs = self._through_finally([(n.id, "next")], i + 1)
                    self._connect(outs, self._stack[i].head)
                    break
            return []
        if isinstance(s, ast.Return):
            n = self._new("stmt", s)
            self._connect(preds, n.id)
            self._add_exc(n)
            outs = self._through_finally([(n.id, "next")], 0)
            self._connect(outs, self.exit.id)
            return []
        if isinstance(s, ast.Raise):
            n = self._new("stmt", s)
            n.may_raise = True
            self._connect(preds, n.id)
            for t in self._exc_targets(len(self._stack)):
                n.succ.append(("exc", t))
            return []
        if isinstance(s, ast.Try):
            return self._try(s.body, s.handlers, s.orelse, s.finalbody, preds, s)
        if isinstance(s, (ast.With, ast.AsyncWith)):
            sup = self._suppressed(s)
            if sup is not None:
                h = ast.ExceptHandler(type=sup, name=None, body=[ast.Pass()])
                ast.copy_location(h, s)
                ast.copy_location(h.body[0], s)
                enter = self._new("with_enter", s)
                self._connect(preds, enter.id)
                self._add_exc(enter)
                return self._try(s.body, [h], [], [], [(enter.id, "next")], s)
            enter = self._new("with_enter", s)
            self._connect(preds, enter.id)
            self._add_exc(enter)
            outs = self._block(s.body, [(enter.id, "next")])
            ex = self._new("with_exit", s)
            ex.may_raise = True  # __exit__/__aexit__ may raise (asyncio.timeout raises TimeoutError here)
            ex.awaits = isinstance(s, ast.AsyncWith)
            self._connect(outs, ex.id)
            self._add_exc(ex)
            return [(ex.id, "next")]
        if isinstance(s, ast.Match):
            m = self._new("match", s)
            self._connect(preds, m.id)
            self._add_exc(m)
            cur = [(m.id, "next")]
            outs = []
            for c in s.cases:
                cn = self._new("case", c, pattern=c.pattern, guard=c.guard)
                self._connect(cur, cn.id)
                self._add_exc(cn)
                outs += self._block(c.body, [(cn.id, "match")])
                irrefutable = c.guard is None and (
                    (isinstance(c.pattern, ast.MatchAs) and c.pattern.pattern is None)
                )
                cur = [] if irrefutable else [(cn.id, "nomatch")]
            return outs + cur
        # simple statement
        n = self._new("stmt", s)
        self._connect(preds, n.id)
        self._add_exc(n)
        return [(n.id, "next")]

    def _suppressed(self, s) -> Optional[ast.expr]:
        if len(s.items) == 1 and isinstance(s.items[0].context_expr, ast.Call):
            c = s.items[0].context_expr
            if (dotted(c.func) or "").split(".")[-1] == "suppress" and c.args:
                return c.args[0] if len(c.args) == 1 else ast.Tuple(elts=list(c.args), ctx=ast.Load())
        return None

    def _try(self, body, handlers, orelse, finalbody, preds, owner):
        fin = None
        if finalbody:
            fin = _Frame("finally", body=finalbody, exc_entry=None)
            self._stack.append(fin)
        hnodes = []
        catch_all = False
        for h in handlers:
            types = self._handler_types(h)
            hn = self._new("handler", h, label=",".join(types), types=types, owner=owner)
            hnodes.append(hn)
            if any(t.split(".")[-1] in CATCH_ALL for t in types):
                catch_all = True
        if handlers:
            self._stack.append(_Frame("handlers", handler_nodes=[h.id for h in hnodes], catch_all=catch_all))
        outs = self._block(body, preds)
        if handlers:
            self._stack.pop()
        if orelse:
            outs = self._block(orelse, outs)
        for h, hn in zip(handlers, hnodes):
            outs += self._block(h.body, [(hn.id, "next")])
        if fin is not None:
            self._stack.pop()
            outs = self._block(finalbody, outs)
        return outs

    # ------------------------------------------------------------------ queries
    def succs(self, nid: int, labels: Optional[set] = None) -> list:
        return [s for lbl, s in self.nodes[nid].succ if labels is None or lbl in labels]

    def find(self, pred: Callable[[Node], bool]) -> list:
        return [n for n in self.nodes if pred(n)]

    def stmt_nodes(self, pred: Callable[[ast.AST], bool]) -> list:
        """Nodes (stmt/test/for/with/case/...) whose own AST satisfies pred somewhere inside (no nested defs)."""
        out = []
        for n in self.nodes:
            if n.ast is None or n.kind in ("branch", "join", "handler"):
                continue
            probe = self._probe(n)
            if probe is None:
                continue
            if any(pred(x) for x in walk_no_nested(probe)):
                out.append(n)
        return out

    def _probe(self, n: Node):
        if n.kind == "for":
            return ast.Tuple(elts=[n.ast.target, n.ast.iter], ctx=ast.Load())
        if n.kind == "with_enter":
            return ast.Tuple(elts=[i.context_expr for i in n.ast.items], ctx=ast.Load())
        if n.kind == "with_exit":
            return None
        if n.kind == "match":
            return n.ast.subject
        if n.kind == "case":
            return n.ast.guard
        if n.kind == "stmt" and "defn" in n.meta:
            return None
        return n.ast

    def call_nodes(self, name_pred: Callable[[str], bool]) -> list:
        """[(node, call)] for calls whose dotted callee satisfies name_pred."""
        out = []
        for n in self.nodes:
            probe = self._probe(n) if n.ast is not None and n.kind not in ("branch", "join", "handler") else None
            if probe is None:
                continue
            for x in walk_no_nested(probe):
                if isinstance(x, ast.Call):
                    d = dotted(x.func)
                    if d is None and isinstance(x.func, ast.Attribute):
                        d = "?." + x.func.attr  # method of a computed receiver: `table[key].method(...)`, `f(x).method(...)`
                    if d is not None and name_pred(d):
                        out.append((n, x))
        return out

    def reachable(self, src: int, avoid: Iterable[int] = (), labels: Optional[set] = None, forward=True) -> set:
        avoid = set(avoid)
        seen = set()
        todo = [src]
        while todo:
            n = todo.pop()
            if n in seen:
                continue
            seen.add(n)
            nxt = self.nodes[n].succ if forward else self.nodes[n].pred
            for lbl, s in nxt:
                if labels is not None and lbl not in labels:
                    continue
                if s in avoid or s in seen:
                    continue
                todo.append(s)
        return seen

    def exists_path(self, src: int, dst: int, avoid: Iterable[int] = (), labels: Optional[set] = None) -> bool:
        avoid = set(avoid) - {src, dst}
        # paths of length >= 1
        for lbl, s in self.nodes[src].succ:
            if labels is not None and lbl not in labels:
                continue
            if s in avoid:
                continue
            if s == dst or dst in self.reachable(s, avoid, labels):
                return True
        return False

    def between(self, a: int, b: int, labels: Optional[set] = None, avoid: Iterable[int] = ()) -> set:
        """Nodes strictly inside some path a -> ... -> b (a and b excluded unless on a cycle); paths through `avoid` do not count."""
        avoid = set(avoid)
        fwd = set()
        for lbl, s in self.nodes[a].succ:
            if (labels is None or lbl in labels) and s not in avoid:
                fwd |= self.reachable(s, avoid, labels)
        back = set()
        for lbl, p in self.nodes[b].pred:
            if (labels is None or lbl in labels) and p not in avoid:
                back |= self.reachable(p, avoid, labels, forward=False)
        return fwd & back

    # dominators --------------------------------------------------------
    def dominators(self) -> dict:
        if self._dom is None:
            self._dom = self._dominators(self.entry.id, forward=True)
        return self._dom

    def _dominators(self, root: int, forward: bool, restrict: Optional[set] = None) -> dict:
        ids = list(self.reachable(root, forward=forward)) if restrict is None else list(restrict)
        idset = set(ids)
        dom = {n: set(idset) for n in ids}
        dom[root] = {root}
        changed = True
        while changed:
            changed = False
            for n in ids:
                if n == root:
                    continue
                ps = [p for _, p in (self.nodes[n].pred if forward else self.nodes[n].succ) if p in idset]
                if not ps:
                    new = {n}
                else:
                    new = set.intersection(*[dom[p] for p in ps]) | {n}
                if new != dom[n]:
                    dom[n] = new
                    changed = True
        return dom

    def dominates(self, a: int, b: int) -> bool:
        """Every path entry -> b passes a (b unreachable => vacuously True is NOT assumed: returns False)."""
        d = self.dominators()
        return b in d and a in d[b]

    def set_dominates(self, aset: Iterable[int], b: int) -> bool:
        """Every path entry -> b passes some node of aset."""
        aset = set(aset)
        if b in aset:
            return True
        if b not in self.reachable(self.entry.id):
            return False
        return b not in self.reachable(self.entry.id, avoid=aset)

    def postdominates(self, a: int, b: int, exits: Optional[Iterable[int]] = None) -> bool:
        """Every path from b to one of `exits` (default: normal exit) passes a. Paths that never reach those exits are ignored."""
        exits = [self.exit.id] if exits is None else list(exits)
        if a == b:
            return True
        reach = self.reachable(b, avoid={a})
        return not any(e in reach for e in exits)

    def all_paths_pass(self, src: int, dsts: Iterable[int], via: Iterable[int], labels: Optional[set] = None) -> bool:
        """Every path src -> any of dsts passes some node of via (src itself not counted)."""
        via = set(via)
        reach = set()
        for lbl, s in self.nodes[src].succ:
            if labels is not None and lbl not in labels:
                continue
            if s in via:
                continue
            reach |= self.reachable(s, avoid=via, labels=labels)
        return not any(d in reach for d in dsts)

    # reaching definitions ----------------------------------------------
    def defs_of(self, n: Node) -> set:
        """Local names (re)bound by this node."""
        names = set()

        def targets(t):
            for x in ast.walk(t):
                if isinstance(x, ast.Name) and isinstance(x.ctx, (ast.Store, ast.Del)):
                    names.add(x.id)

        a = n.ast
        if n.kind == "entry":
            args = self.fn.args
            for x in args.posonlyargs + args.args + args.kwonlyargs:
                names.add(x.arg)
            if args.vararg:
                names.add(args.vararg.arg)
            if args.kwarg:
                names.add(args.kwarg.arg)
        elif n.kind == "stmt" and a is not None:
            if "defn" in n.meta:
                if hasattr(a, "name"):
                    names.add(a.name)
                elif isinstance(a, (ast.Import, ast.ImportFrom)):
                    for al in a.names:
                        names.add((al.asname or al.name).split(".")[0])
            else:
                for x in walk_no_nested(a):
                    if isinstance(x, ast.Name) and isinstance(x.ctx, (ast.Store, ast.Del)):
                        names.add(x.id)
                    elif isinstance(x, ast.NamedExpr) and isinstance(x.target, ast.Name):
                        names.add(x.target.id)
        elif n.kind == "for":
            targets(a.target)
        elif n.kind == "with_enter":
            for it in a.items:
                if it.optional_vars is not None:
                    targets(it.optional_vars)
        elif n.kind == "handler" and isinstance(a, ast.ExceptHandler) and a.name:
            names.add(a.name)
        elif n.kind == "case":
            for x in ast.walk(a.pattern):
                if isinstance(x, (ast.MatchAs, ast.MatchStar)) and x.name:
                    names.add(x.name)
                elif isinstance(x, ast.MatchMapping) and x.rest:
                    names.add(x.rest)
        elif n.kind == "test" and a is not None:
            for x in walk_no_nested(a):
                if isinstance(x, ast.NamedExpr) and isinstance(x.target, ast.Name):
                    names.add(x.target.id)
        return names

    def reaching_defs(self, name: str) -> dict:
        """node id -> set of def-node ids of `name` that reach the *entry* of that node."""
        defs = {n.id for n in self.nodes if name in self.defs_of(n)}
        IN = {n.id: set() for n in self.nodes}
        OUT = {n.id: set() for n in self.nodes}
        changed = True
        while changed:
            changed = False
            for n in self.nodes:
                i = set()
                for _, p in n.pred:
                    i |= OUT[p]
                o = {n.id} if n.id in defs else i
                if i != IN[n.id] or o != OUT[n.id]:
                    IN[n.id], OUT[n.id] = i, o
                    changed = True
        return IN

    def dump(self) -> str:
        return "\n".join(f"{n!r} -> {n.succ}" for n in self.nodes)


def build(fn: ast.AST, name: str = "", raises=None) -> CFG:
    return CFG(fn, name, raises)
