"""Command-line driver: ./check <Cxx|all> [quick|thorough] | explain <file> | selftest [Cxx...]"""
from __future__ import annotations

import importlib
import json
import os
import sys
import time
import traceback

from .model import AnalysisError, Repo
from .report import HOLDS, KNOWN, VIOLATION, Ctx, apply_known, write_evidence, write_replay

ALL = [f"C{i:02d}" for i in range(1, 20)]
REPO_ROOT = os.environ.get("VERIF_REPO", "/repo")


def load_rules(pid: str):
    return importlib.import_module(f"sa.rules.{pid.lower()}")


def analyse(pid: str, root: str, tier: str = "quick", repo=None):
    """Run all armed rules of one property on the tree at `root`; returns (ctx, obligations).  `repo`: an already parsed program
    model of that same tree (the self-test analyses one scratch tree under several properties)."""
    mod = load_rules(pid)
    repo = repo if repo is not None else Repo(root)
    ctx = Ctx(repo, pid, tier)
    ctx.analysis_error = None
    try:
        mod.run(ctx)
    except AnalysisError as ex:
        # keep what was established so far: a refuted rule is reported even when a later rule lost its anchor
        ctx.analysis_error = str(ex)
    floors = getattr(mod, "FLOORS", {})
    counts = {}
    for o in ctx.obligations:
        counts[o.rule] = counts.get(o.rule, 0) + 1
    ctx.floor_failures = [f"{rule}: only {counts.get(rule, 0)} instance(s) analysed, floor is {fl} (vacuity guard)" for rule, fl in floors.items() if counts.get(rule, 0) < fl]
    return ctx, ctx.obligations


def run_property(pid: str, tier: str) -> int:
    t0 = time.time()
    try:
        mod = load_rules(pid)
    except ModuleNotFoundError:
        print(f"ANALYSIS-ERROR property={pid} no rule module")
        return 2
    level = getattr(mod, "LEVEL", "other")
    explanation = getattr(mod, "EXPLANATION", "")
    assumptions = getattr(mod, "ASSUMPTIONS", [])
    floors = getattr(mod, "FLOORS", {})
    ctx = None
    extra = {}
    try:
        ctx, obs = analyse(pid, REPO_ROOT, tier)
        if hasattr(mod, "extra_coverage"):
            extra.update(mod.extra_coverage(ctx))
        selftest_fail = []
        if tier == "thorough":
            from . import selftest

            st = selftest.run([pid], REPO_ROOT)
            extra["selftest"] = st["summary"]
            selftest_fail = st["failures"]
    except AnalysisError as ex:
        print(f"ANALYSIS-ERROR property={pid} {ex}")
        write_evidence(pid, tier, level, ctx, ctx.obligations if ctx else [], time.time() - t0, {"analysis_error": str(ex)}, floors, assumptions, explanation, status="analysis-error")
        return 2
    except Exception:
        traceback.print_exc()
        print(f"ANALYSIS-ERROR property={pid} internal error in the checker (traceback above)")
        try:
            write_evidence(pid, tier, level, ctx, ctx.obligations if ctx else [], time.time() - t0, {"analysis_error": "internal"}, floors, assumptions, explanation, status="analysis-error")
        except Exception:
            pass
        return 2
    apply_known(pid, obs)
    viol = [o for o in obs if o.verdict == VIOLATION]
    if ctx.analysis_error and not viol:
        print(f"ANALYSIS-ERROR property={pid} {ctx.analysis_error}")
        write_evidence(pid, tier, level, ctx, obs, time.time() - t0, {"analysis_error": ctx.analysis_error}, floors, assumptions, explanation, status="analysis-error")
        return 2
    if ctx.analysis_error:
        print(f"  note: part of the analysis was cut short after the violations below were established: {ctx.analysis_error}")
    if not viol and ctx.floor_failures:
        # a rule matched fewer instances than confirmed by hand and nothing was refuted: the analysis lost its anchors
        for f in ctx.floor_failures:
            print(f"ANALYSIS-ERROR property={pid} {f}")
        write_evidence(pid, tier, level, ctx, obs, time.time() - t0, {"analysis_error": "; ".join(ctx.floor_failures)}, floors, assumptions, explanation, status="analysis-error")
        return 2
    known = [o for o in obs if o.verdict == KNOWN]
    if level == "proof":
        proof_rules = getattr(mod, "PROOF_RULES", [])
        pobs = [o for o in obs if o.rule in proof_rules]
        extra.update(
            {
                "obligations": len(pobs),
                "discharged": sum(1 for o in pobs if o.verdict == HOLDS),
                "checker_cmd": f"cd /verif && ./check {pid} {tier}",
                "trusted_base": getattr(mod, "TRUSTED_BASE", []),
            }
        )
    write_evidence(pid, tier, level, ctx, obs, time.time() - t0, extra, floors, assumptions, explanation)
    verbose = os.environ.get("VERIF_VERBOSE")
    per_rule = {}
    for o in obs:
        per_rule.setdefault(o.rule, [0, 0])
        per_rule[o.rule][0] += 1
        per_rule[o.rule][1] += o.verdict == HOLDS
    print(f"{pid} {tier}: {len(obs)} rule instances over {len(ctx.analysed['files'])} files, {len(ctx.analysed['functions'])} anchored functions")
    for r in sorted(per_rule):
        print(f"  {r}: {per_rule[r][1]}/{per_rule[r][0]} hold")
    if verbose:
        for o in obs:
            print("   ", o.brief())
    for o in known:
        print(f"KNOWN-FINDING: property={pid} {o.rule} {o.file} {o.construct}: expected {o.expected}; found {o.found}")
    rc = 0
    for i, o in enumerate(viol):
        path = write_replay(pid, i, o, tier)
        print(f"  {o.brief()}")
        if o.detail:
            print(f"    detail: {o.detail}")
        print(f"VIOLATION property={pid} replay={path}")
        rc = 1
    if tier == "thorough" and extra.get("selftest"):
        s = extra["selftest"]
        print(f"  selftest: {s}")
        if selftest_fail and rc == 0:
            for f in selftest_fail:
                print(f"SELFTEST-MISS {f}")
            print(f"ANALYSIS-ERROR property={pid} checker self-validation failed (not a property violation)")
            return 2
    if rc == 0:
        print(f"{pid}: HOLDS on everything analysed ({time.time() - t0:.2f}s)")
    return rc


def explain(path: str) -> int:
    with open(path) as fh:
        d = json.load(fh)
    print(json.dumps(d, indent=1))
    pid = d.get("property")
    print(f"\nre-running ./check {pid} quick on the current tree:")
    return run_property(pid, "quick")


def main(argv) -> int:
    if not argv:
        print(__doc__)
        return 2
    if argv[0] == "explain":
        return explain(argv[1])
    if argv[0] == "selftest":
        from . import selftest

        st = selftest.run(argv[1:] or ALL, REPO_ROOT, verbose=True)
        print(json.dumps(st["summary"], indent=1))
        for f in st["failures"]:
            print("SELFTEST-MISS", f)
        return 2 if st["failures"] else 0
    tier = argv[1] if len(argv) > 1 else os.environ.get("VERIF_TIER", "quick")
    if tier not in ("quick", "thorough"):
        tier = "quick"
    pids = ALL if argv[0] == "all" else [argv[0].upper()]
    rc = 0
    for pid in pids:
        r = run_property(pid, tier)
        rc = max(rc, r) if r != 1 else (1 if rc != 2 else 2)
        sys.stdout.flush()
    return rc


if __name__ == "__main__":
    sys.exit(main(sys.argv[1:]))
