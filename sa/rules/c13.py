"""C13 - reception is independent of TCP segmentation (decided modulo the readexactly contract)."""
from __future__ import annotations

import ast

from ..model import AnalysisError, dotted, norm_text, unparse, walk_no_nested
from ..q import NONEXC, Fn, attr_uses, package_calls
from .common import SOCKET, SOCK_CLS, sock_fn

LEVEL = "other"
EXPLANATION = (
    'Static analysis of AirTouchSocket._read_one_message/_read: R1 the stream is consumed only by three readexactly() calls, in dominance order header -> '
    'payload -> check bytes, with lengths header_decoder.header_length, header.message_length (of the header decoded from the first read) and '
    'checksum_calculator.checksum_length, none inside a loop or reached twice per frame; R2 who-may-read: no other use of the reader anywhere '
    '(read/readline/readuntil/iteration/handing it out); header_length returns the header struct size; R3 _read delivers each successful result exactly '
    'once before the next read, as the two components of what that read returned, and the whole delivery chain (_notify_message_received -> '
    '_notify_subscribers -> each callback) is awaited, never handed to a background task; R4 the subscriber collections are not shared or mutated during '
    'delivery (C12.R4 re-used). Given the documented contract of StreamReader.readexactly (exactly n bytes or IncompleteReadError, regardless of '
    'segmentation) the delivered sequence is a function of the byte stream alone.'
    ' Added later: R1 also demands that the read path refuses nothing itself: no raise of its own and `no message` only without a reader, on a failed checksum or inside the DecodeError handler (every length the 2-byte field can announce is legal).'
    ' Rounds 7-8: R6 the header codec refuses nothing but wrong prefixes / inconsistent lengths (C03.R2 re-used).'
    ' Rounds 9-10: R3 also: every successful read is delivered (must-pass-through from the truthy result to the notification) and neither the reads of one frame nor the notification chain run under a timer; R8 (C07.R7 re-used); R9 (C03.R6 re-used): the wrapper decoders hand the payload on as received.'
    ' Round 11: R10 (C07.R5 re-used): the read loop is scheduled before anything after is_connected = True can raise or suspend.'
)
ASSUMPTIONS = ["asyncio.StreamReader.readexactly(n) returns exactly n bytes or raises IncompleteReadError, independent of how the bytes arrive"]
FLOORS = {"C13.R1": 5, "C13.R2": 3, "C13.R3": 2, "C13.R4": 1, "C13.R5": 1, "C13.R6": 1, "C13.R7": 1, "C13.R8": 1, "C13.R9": 1, "C13.R10": 1}


def run(ctx):
    r1(ctx, "C13.R1")
    r2(ctx, "C13.R2")
    r3(ctx, "C13.R3")
    from . import c12
    from .common import reuse

    from . import c07

    from . import c03

    reuse(ctx, "C13.R8", [lambda c: c07.check_notify_isolation(c, "C07.R7", SOCKET, f"{SOCK_CLS}._notify_subscribers")], "every subscriber receives every message: a subscriber that raises does not take the delivery to its siblings down with it (C07.R7)")
    reuse(ctx, "C13.R9", [c03.r6], "the wrapper decoders hand the sub-decoder the payload bytes exactly as they were received and framed (no un-stuffing, no re-computed lengths), so whether a frame decodes does not depend on its content (C03.R6)",
          keep=lambda o: "sub-buffer" in o.construct or "sub-length" in o.construct or o.verdict != "HOLDS")
    reuse(ctx, "C13.R10", [c07.r5], "every connection has a read loop from the moment it is established: nothing between is_connected = True and the scheduling of _read() may raise or suspend, so bytes the console sends - however segmented - are never left unread behind a failed notification or flush (C07.R5, the D8 repair)")
    reuse(ctx, "C13.R6", [c03.r2], "the header codec refuses a header only for a wrong prefix or inconsistent lengths: a frame that is legal on the wire is never the cause of a reset that loses the frames behind it (C03.R2)",
          keep=lambda o: "rejects" in o.construct or o.verdict != "HOLDS")
    reuse(ctx, "C13.R7", [c07.r1, c07.r11], "a bad frame is followed by an awaited reset before anything else is read, and each socket's tasks are its own: what is delivered depends on the byte stream only (C07.R1, C07.R11)")
    reuse(ctx, "C13.R5", [c07.r2], "after a rejected frame the old stream is dropped together with the connection (reader and writer cleared), so what is delivered never depends on whether later bytes were already buffered in the abandoned reader (C07.R2)")
    reuse(ctx, "C13.R4", [c12.r4], "each frame is delivered once per subscriber: subscriber containers are sets (a repeated subscribe after re-init does not duplicate deliveries)", keep=lambda o: "AirTouchSocket" in o.construct)


def r1(ctx, R):
    f = sock_fn(ctx, "_read_one_message")
    m, g = f.module, f.cfg
    reads = f.calls_pred(lambda d: d.startswith("self._reader.") or d.startswith("reader."))
    exact = [(n, c) for n, c in reads if dotted(c.func).endswith(".readexactly")]
    other = [(n, c) for n, c in reads if not dotted(c.func).endswith(".readexactly")]
    for n, c in other:
        ctx.violation(R, f"_read_one_message:{dotted(c.func).split('.')[-1]}()", m, c, "the stream is consumed only through readexactly(n)", f"{norm_text(c)[:80]} may return fewer bytes than requested when a segment boundary falls inside the field")
    want = [
        ("header", "self._registry.header_decoder.header_length"),
        ("payload", None),
        ("checksum", "self._registry.checksum_calculator.checksum_length"),
    ]
    if len(exact) != 3:
        ctx.violation(R, "_read_one_message:three-reads", m, f.node, "exactly three readexactly() calls per frame: header, payload, check bytes", f"{len(exact)} readexactly calls")
        return
    exact.sort(key=lambda nc: len(g.dominators().get(nc[0].id, ())))
    chain = all(g.dominates(exact[i][0].id, exact[i + 1][0].id) for i in range(2))
    ctx.check(chain, R, "_read_one_message:read-order", m, exact[0][1], "the three reads dominate one another in the order header, payload, check bytes", "reads on alternative paths")
    loops = [n for n, c in exact if g.exists_path(n.id, n.id)]
    ctx.check(not loops, R, "_read_one_message:no-read-in-loop", m, (loops[0].ast if loops else f.node), "no read is repeated within one frame", f"line {loops[0].lineno} is inside a loop" if loops else "")
    hn, hc = exact[0]
    txt = f.expand_text(hc.args[0], hn) if hc.args else ""
    ctx.check(txt == want[0][1], R, "_read_one_message:header-length", m, hc, want[0][1], txt)
    # header variable: decoded from the first buffer
    pn, pc = exact[1]
    ptxt = ""
    first_buf = hn.ast.targets[0].id if isinstance(hn.ast, ast.Assign) and isinstance(hn.ast.targets[0], ast.Name) else "?"
    ptxt = f.expand_text(pc.args[0], pn, keep={first_buf}) if pc.args else ""
    wantp = f"self._registry.header_decoder.decode({first_buf}).header.message_length"
    ctx.check(ptxt == wantp, R, "_read_one_message:payload-length", m, pc, wantp, ptxt)
    cn, cc = exact[2]
    ctxt = f.expand_text(cc.args[0], cn) if cc.args else ""
    ctx.check(ctxt == want[2][1], R, "_read_one_message:checksum-length", m, cc, want[2][1], ctxt)
    # a frame is rejected only by the header codec, the checksum and the message decoder: the read path itself refuses nothing
    # (every length the 2-byte field can announce is legal, so a plausibility limit loses long frames and everything behind them)
    own_raises = [n for n in g.nodes if n.kind == "stmt" and isinstance(n.ast, ast.Raise) and n.ast.exc is not None]
    ctx.check(not own_raises, R, "_read_one_message:no-rejection-of-its-own", m, (own_raises[0].ast if own_raises else f.node), "_read_one_message raises nothing itself: frames are refused only by the header decoder, the checksum and the message decoder", f"`{norm_text(own_raises[0].ast)[:90]}` at line {own_raises[0].lineno}" if own_raises else "")
    none_rets = [n for n in g.nodes if n.kind == "stmt" and isinstance(n.ast, ast.Return) and (n.ast.value is None or (isinstance(n.ast.value, ast.Constant) and n.ast.value.value is None))]
    allowed = []
    for n in none_rets:
        dom_tests = [t for t in f.tests(lambda e: True) if any(g.dominates(f.branch(t, lab).id, n.id) and not g.dominates(f.branch(t, other).id, n.id) for lab, other in (("true", "false"), ("false", "true")))]
        in_handler = any(h.id != n.id and g.dominates(h.id, n.id) for h in f.handlers())
        reasons = [norm_text(t.ast) for t in dom_tests]
        ok_reason = in_handler or all(("validate(" in r) or r in ("self._reader", "self._reader is None", "self._reader is not None") for r in reasons)
        if not ok_reason:
            allowed.append((n, reasons))
    ctx.check(not allowed, R, "_read_one_message:gives-up-only-on-codec-errors", m, (allowed[0][0].ast if allowed else f.node), "the read path returns no-message only without a reader, on a failed checksum or inside the DecodeError handler", f"`return None` at line {allowed[0][0].lineno} under {allowed[0][1]}" if allowed else "")
    # results are used whole: buffers are not sliced before validation/decoding
    for (n, c), name in zip(exact, ("header", "payload", "checksum")):
        a = n.ast
        ok = isinstance(a, ast.Assign) and isinstance(a.value, ast.Await) and a.value.value is c and len(a.targets) == 1 and isinstance(a.targets[0], ast.Name)
        ctx.check(ok, R, f"_read_one_message:{name}-buffer-kept-whole", m, a, "the bytes read are bound unmodified to a local", norm_text(a)[:90])


def r2(ctx, R):
    m = ctx.repo.module(SOCKET)
    uses = attr_uses(ctx.repo, "_reader")
    bad = []
    for mm, qual, node, parent in uses:
        if mm.name != SOCKET:
            bad.append((mm, qual, node, "used outside socket.py"))
            continue
        if isinstance(node.ctx, ast.Store):
            continue
        if isinstance(parent, ast.Attribute) and parent.value is node:
            if parent.attr != "readexactly":
                bad.append((mm, qual, parent, f".{parent.attr}"))
            elif qual != f"{SOCK_CLS}._read_one_message":
                bad.append((mm, qual, parent, f"readexactly in {qual}"))
            continue
        # truthiness tests (while self._reader / if not self._reader) are fine; anything else hands the reader out
        if isinstance(parent, (ast.While, ast.If, ast.UnaryOp, ast.BoolOp)):
            continue
        bad.append((mm, qual, node, f"reader escapes via {type(parent).__name__}"))
    ctx.check(not bad, R, "who-may-read:self._reader", m, (bad[0][2] if bad else None), "the reader is only tested for presence and read with readexactly in _read_one_message", "; ".join(f"{q}: {w}" for _, q, _, w in bad))
    oth = package_calls(ctx.repo, lambda d: d.split(".")[-1] in ("readline", "readuntil", "read") and "reader" in d.lower())
    ctx.check(not oth, R, "who-may-read:partial-reads", m, (oth[0][2] if oth else None), "no read()/readline()/readuntil() on a stream reader anywhere in the package", "; ".join(f"{mm.relpath}:{q}" for mm, q, _ in oth))
    for gen in ("at4", "at5"):
        hm = ctx.repo.module(f"pyairtouch.{gen}.comms.hdr")
        hd = hm.get_class("HeaderDecoder")
        fn = hd.methods.get("header_length")
        ctx.require(fn is not None, f"{hm.relpath}: HeaderDecoder.header_length vanished")
        rets = [x for x in ast.walk(fn) if isinstance(x, ast.Return)]
        st = ctx.repo.try_fold(hm, hm.get_const_expr("_STRUCT"))
        val = ctx.repo.try_fold(hm, rets[0].value) if len(rets) == 1 and rets[0].value is not None else None
        ctx.check(st is not None and val == st.size, R, f"{gen}:HeaderDecoder.header_length", hm, fn, f"header_length == size of the header struct ({st.size if st else '?'})", repr(val))


def r3(ctx, R):
    # the whole delivery chain is awaited: _read awaits _notify_message_received, which awaits _notify_subscribers, which awaits
    # every callback - nothing is handed to a background task, so frame N's subscribers have finished before frame N+1 is read
    nm = sock_fn(ctx, "_notify_message_received")
    ns = [n for n, c in nm.calls("_notify_subscribers")]
    spawned = [n for n, c in nm.calls_pred(lambda d: d.endswith("_schedule") or d.endswith("create_task") or d.endswith("ensure_future") or d.endswith("call_soon"))]
    ok = bool(ns) and all(n.awaits for n in ns) and not spawned and nm.cfg.all_paths_pass(nm.cfg.entry.id, [nm.cfg.exit.id], [n.id for n in ns], NONEXC)
    ctx.check(ok, R, "_notify_message_received:awaits-the-subscribers", nm.module, nm.node, "the notification of one frame is awaited to completion (not scheduled in the background): deliveries keep the order of the byte stream", "the notification is handed to a background task" if spawned else "not awaited on every path")
    # ... and to completion means without a deadline: a timer around the delivery (asyncio.timeout / wait_for) cuts a frame off
    # in the middle of its subscribers - the entities not yet reached never see it - and its TimeoutError resets a healthy link
    timers = []
    for q_ in ("_read", "_read_one_message", "_notify_message_received", "_notify_subscribers"):
        fq = sock_fn(ctx, q_)
        timers += [(q_, c_) for _, c_ in fq.calls_pred(lambda d_: d_ in ("asyncio.wait_for", "asyncio.timeout", "asyncio.timeout_at", "asyncio.wait"))]
    ctx.check(not timers, R, "delivery:no-deadline-on-subscribers", nm.module, (timers[0][1] if timers else nm.node), "neither the reads of one frame nor the notification chain run under a timer (the time between two segments of a frame is the network's business)", f"{timers[0][0]}: `{norm_text(timers[0][1])[:60]}`" if timers else "")
    f = sock_fn(ctx, "_read")
    m, g = f.module, f.cfg
    reads = [n for n, c in f.calls("self._read_one_message")]
    nots = [n for n, c in f.calls("self._notify_message_received")]
    ctx.require(reads, "socket._read: no call of _read_one_message")
    ok = len(nots) == 1 and len(reads) == 1 and g.dominates(reads[0].id, nots[0].id) and nots[0].awaits
    ctx.check(ok, R, "_read:one-delivery-per-read", m, f.node, "one awaited _notify_message_received per successful read", f"{len(reads)} reads, {len(nots)} notifications")
    if ok:
        # every successful read is delivered: between a truthy result and the next read there is no way round the notification
        # (no frame is swallowed as a 'duplicate', postponed while connecting, or filtered by any state of the socket)
        var0 = reads[0].ast.targets[0].id if isinstance(reads[0].ast, ast.Assign) and isinstance(reads[0].ast.targets[0], ast.Name) else None
        truthy = [f.branch(t, lab) for t in f.tests(lambda e: True) for lab in ("true", "false")
                  if var0 is not None and ((lab == "true" and dotted(t.ast) == var0) or (lab == "true" and isinstance(t.ast, ast.Compare) and dotted(t.ast.left) == var0 and isinstance(t.ast.ops[0], ast.IsNot) and isinstance(t.ast.comparators[0], ast.Constant) and t.ast.comparators[0].value is None))]
        truthy = [b for b in truthy if f.cfg.dominates(b.id, nots[0].id) or f.cfg.exists_path(b.id, nots[0].id, labels=NONEXC)]
        if truthy:
            skip = any(f.cfg.exists_path(b.id, reads[0].id, avoid={nots[0].id}, labels=NONEXC) or f.cfg.exists_path(b.id, f.cfg.exit.id, avoid={nots[0].id}, labels=NONEXC) for b in truthy)
            ctx.check(not skip, R, "_read:every-successful-read-is-delivered", m, nots[0].ast, "from a truthy read result every normal path reaches the notification before the next read or the end of the task", "a path from the successful read goes on to the next read (or leaves) without notifying the subscribers: that frame is lost")
        else:
            ctx.violation(R, "_read:every-successful-read-is-delivered", m, nots[0].ast, "the notification follows the truthiness test of the read result", "no truthiness test of the read result leads to the notification")
        # between two reads at most one notification: no path from the notify node back to itself avoiding the read node
        again = g.exists_path(nots[0].id, nots[0].id, avoid=[reads[0].id])
        ctx.check(not again, R, "_read:no-duplicate-delivery", m, nots[0].ast, "a frame is delivered once (the next notification requires another read)", "the notification can repeat without a new read")
        # delivered values are the pair returned by that read
        a = reads[0].ast
        var = a.targets[0].id if isinstance(a, ast.Assign) and isinstance(a.targets[0], ast.Name) else None
        c = next(c for n, c in f.calls("self._notify_message_received"))
        args = [f.expand_text(x, nots[0]) for x in c.args]
        want = ["(await self._read_one_message())[0]", "(await self._read_one_message())[1]"]
        star = len(c.args) == 1 and isinstance(c.args[0], ast.Starred) and f.expand_text(c.args[0].value, nots[0]) in ("await self._read_one_message()", "(await self._read_one_message())")
        ctx.check((args == want or star) and not c.keywords, R, "_read:delivers-what-was-read", m, c, f"header and message delivered are the two components unpacked from the result of this read ({var})", ", ".join(args))
