"""C17 - unknown and malformed input is tolerated, never misread (structural clauses)."""
from __future__ import annotations

import ast

from ..effects import EMPTY, is_top
from ..model import AnalysisError, dotted, norm_text, unparse, walk_no_nested
from ..q import NONEXC, Fn, inline_properties
from .common import SOCKET, SOCK_CLS, sock_fn

LEVEL = "other"
EXPLANATION = (
    "R1 fallbacks never raise on an unknown id: MessageRegistry.get_decoder and both _sub_message_decoder helpers return the unsupported decoder "
    "when the map lookup misses (no raise on any path), and the three unsupported decoders return raw_data = buffer[:L] and remaining = buffer[L:] "
    "with one and the same L, L being header.message_length (top level / 0x1F) or, as a polynomial identity, non_repeat_length + repeat_count * "
    "repeat_length (0xC0); UnsupportedMessage keeps id and payload. R2 nothing escapes the receive task: the read loop's catch-all (C07.R1 re-used), "
    "_read_one_message converts DecodeError into a None result, and the may-escape analysis gives the empty set for _read. R3 records longer than "
    "the known layout are decoded from their known prefix (stride rules of C05.R5 re-used). R4 framing guards that make misreading impossible: "
    "prefix and length-consistency checks (C03.R2), validate-before-decode (C06.R5), assert_complete (C03.R4)."
    ' Rounds 7-8: R1 also: the 0x1F / 0xC0 wrapper decoders raise nothing themselves.'
    ' Rounds 9-10: R1 also: the wrapper decoders forgive nothing (no handler around the sub-decoder); R8 (C13.R3 re-used): an intact frame is delivered whatever the socket is doing.'
)
ASSUMPTIONS = ["slicing never raises; dict.get returns None on a miss"]
FLOORS = {"C17.R1": 14, "C17.R2": 6, "C17.R3": 6, "C17.R4": 10, "C17.R5": 1, "C17.R6": 1, "C17.R7": 1, "C17.R8": 1}


def run(ctx):
    r1(ctx)
    r2(ctx)
    r3(ctx)
    r4(ctx)
    from . import c03, c07
    from .common import reuse

    reuse(ctx, "C17.R7", [c07.r5, c07.r9], "after a reset the new connection is consistent and has its reader: is_connected is set together with the streams and the read loop is scheduled at once (C07.R5, C07.R9)")
    from . import c13

    reuse(ctx, "C17.R8", [lambda c: c13.r3(c, "C13.R3")], "a frame that was read intact (unknown types included: they decode to a stand-in message) is handed to the subscribers whatever the socket is doing at the time (C13.R3)",
          keep=lambda o: o.construct.startswith("_read:") or o.verdict != "HOLDS")
    reuse(ctx, "C17.R5", [c07.r2, c07.r3], "after malformed input the reset really re-establishes the connection: reset = disconnect + reconnect, every unsuccessful attempt is retried (C07.R2, C07.R3)")
    reuse(ctx, "C17.R6", [c03.r6], "wrappers hand the sub-decoder the rest of the frame and account for the announced sub-lengths, so bytes beyond the declared lengths make the frame incomplete (rejected) instead of being dropped silently (C03.R6)")


def poly(e: ast.expr) -> dict:
    """Polynomial normal form of an arithmetic expression over attribute/name atoms: {sorted tuple of atoms: coefficient}."""
    if isinstance(e, ast.Constant) and isinstance(e.value, int):
        return {(): e.value} if e.value else {}
    if isinstance(e, ast.BinOp) and isinstance(e.op, (ast.Add, ast.Sub)):
        a, b = poly(e.left), poly(e.right)
        out = dict(a)
        for k, v in b.items():
            out[k] = out.get(k, 0) + (v if isinstance(e.op, ast.Add) else -v)
        return {k: v for k, v in out.items() if v}
    if isinstance(e, ast.BinOp) and isinstance(e.op, ast.Mult):
        a, b = poly(e.left), poly(e.right)
        out = {}
        for ka, va in a.items():
            for kb, vb in b.items():
                k = tuple(sorted(ka + kb))
                out[k] = out.get(k, 0) + va * vb
        return {k: v for k, v in out.items() if v}
    d = dotted(e)
    if d is not None:
        return {(d,): 1}
    raise AnalysisError(f"length expression not polynomial: {unparse(e)}")


def r1(ctx):
    R = "C17.R1"
    cm = ctx.repo.module("pyairtouch.comms")
    gd = Fn(ctx.repo, cm, "MessageRegistry.get_decoder")
    ctx.fn(cm, "MessageRegistry.get_decoder")
    wrappers_refuse_nothing(ctx, R)
    # by role: the fallback is whatever attribute __init__ binds to an UnsupportedMessageDecoder instance
    init = cm.get_class("MessageRegistry").methods["__init__"]
    fb_attr = next((dotted(x.targets[0] if isinstance(x, ast.Assign) else x.target) for x in ast.walk(init) if isinstance(x, (ast.Assign, ast.AnnAssign)) and isinstance(getattr(x, "value", None), ast.Call) and (dotted(x.value.func) or "").split(".")[-1] == "UnsupportedMessageDecoder" and (dotted(x.targets[0] if isinstance(x, ast.Assign) else x.target) or "").startswith("self.")), None)
    ctx.check(fb_attr is not None, R, "comms.MessageRegistry:unsupported-decoder-instance", cm, init, "__init__ keeps an UnsupportedMessageDecoder() instance as the fallback", "none")
    _fallback(ctx, R, gd, "comms.MessageRegistry.get_decoder", "self._decoder_map.get", fb_attr or "self._unsupported_decoder")
    _unsupported(ctx, R, cm, "UnsupportedMessageDecoder", {("header.message_length",): 1}, "header.message_id")
    for gen in ("at4", "at5"):
        xm = ctx.repo.module(f"pyairtouch.{gen}.comms.x1F_ext")
        f, inl = _fallback_fn(ctx, xm, "ExtendedMessageDecoder", "_sub_message_decoder")
        _fallback(ctx, R, f, f"{gen}.x1F_ext.ExtendedMessageDecoder._sub_message_decoder", "self._decoder_map.get", "ExtendedMessageDecoder._UNSUPPORTED_DECODER", inl)
        _unsupported(ctx, R, xm, "UnsupportedExtendedDecoder", {("header.message_length",): 1}, "header.message_id")
        ci = xm.get_class("ExtendedMessageDecoder")
        v = ci.attrs.get("_UNSUPPORTED_DECODER") or xm.assigns.get("_UNSUPPORTED_DECODER")  # class attribute or module constant
        ctx.check(isinstance(v, ast.Call) and dotted(v.func) == "UnsupportedExtendedDecoder", R, f"{gen}.x1F_ext:_UNSUPPORTED_DECODER", xm, ci.node, "UnsupportedExtendedDecoder()", norm_text(v) if v is not None else "missing")
    c0 = ctx.repo.module("pyairtouch.at5.comms.xC0_ctrl_status")
    f, inl = _fallback_fn(ctx, c0, "ControlStatusDecoder", "_sub_message_decoder")
    _fallback(ctx, R, f, "at5.xC0.ControlStatusDecoder._sub_message_decoder", "self._decoder_map.get", "ControlStatusDecoder._UNSUPPORTED_DECODER", inl)
    _unsupported(ctx, R, c0, "UnsupportedControlStatusDecoder", {("header.non_repeat_length",): 1, ("header.repeat_count", "header.repeat_length"): 1}, "header.sub_message_id")
    ci = c0.get_class("ControlStatusDecoder")
    v = ci.attrs.get("_UNSUPPORTED_DECODER") or c0.assigns.get("_UNSUPPORTED_DECODER")
    ctx.check(isinstance(v, ast.Call) and dotted(v.func) == "UnsupportedControlStatusDecoder", R, "at5.xC0:_UNSUPPORTED_DECODER", c0, ci.node, "UnsupportedControlStatusDecoder()", norm_text(v) if v is not None else "missing")
    um = cm.get_class("UnsupportedMessage")
    fn = um.methods.get("message_id")
    rets = [x for x in ast.walk(fn) if isinstance(x, ast.Return)] if fn else []
    ctx.check(len(rets) == 1 and norm_text(rets[0].value) == "self.unsupported_id" and [n for n, _, _ in um.fields] == ["unsupported_id", "raw_data"], R, "comms.UnsupportedMessage", cm, um.node, "carries unsupported_id (reported as message_id) and raw_data", "different")


def _fallback_fn(ctx, m, cls: str, helper: str):
    """The helper that picks the decoder, or - when a maintainer inlined it - the decode() method that now contains the lookup."""
    ci = m.get_class(cls)
    if helper in ci.methods:
        ctx.fn(m, f"{cls}.{helper}")
        return Fn(ctx.repo, m, f"{cls}.{helper}"), False
    ctx.fn(m, f"{cls}.decode")
    return Fn(ctx.repo, m, f"{cls}.decode"), True


def _fallback(ctx, R, f: Fn, lab, lookup, fallback, inlined=False):
    m, g = f.module, f.cfg
    raises = [] if inlined else [n for n in g.nodes if n.kind == "stmt" and isinstance(n.ast, ast.Raise)]
    ctx.check(not raises, R, f"{lab}:never-raises", m, f.node, "an unknown id never raises", f"raise at line {raises[0].lineno}" if raises else "")
    calls = f.calls(lookup.split(".", 1)[1] if lookup.startswith("self.") else lookup)
    ok = len(calls) == 1 and len(calls[0][1].args) >= 1 and (dotted(calls[0][1].args[0]) == f.params[1] or inlined)
    ctx.check(ok, R, f"{lab}:lookup", m, f.node, f"{lookup}(<the id>) - a lookup that returns None on a miss", norm_text(calls[0][1]) if calls else "no .get lookup")
    subs = [x for x in walk_no_nested(f.node) if isinstance(x, ast.Subscript) and isinstance(x.ctx, ast.Load) and "_decoder_map" in norm_text(x.value)]
    ctx.check(not subs, R, f"{lab}:no-indexing", m, f.node, "the map is not indexed with [] (KeyError on unknown ids)", norm_text(subs[0]) if subs else "")
    rets = [n for n in g.nodes if n.kind == "stmt" and isinstance(n.ast, ast.Return)]
    var = calls[0][0].ast.targets[0].id if calls and isinstance(calls[0][0].ast, ast.Assign) and isinstance(calls[0][0].ast.targets[0], ast.Name) else None
    miss_ok = False
    for t in f.tests(lambda e: isinstance(e, ast.Name) and e.id == var):
        fb = f.branch(t, "false")
        r = [n for n in rets if g.dominates(fb.id, n.id)]
        if len(r) >= 1 and all(norm_text(n.ast.value) in (fallback, fallback.split(".")[-1]) for n in r) and g.all_paths_pass(fb.id, [g.exit.id], [n.id for n in r], NONEXC):
            tb = f.branch(t, "true")
            r2 = [n for n in rets if g.dominates(tb.id, n.id)]
            if r2 and all(norm_text(n.ast.value) == var for n in r2):
                miss_ok = True
    for t in f.tests(lambda e: isinstance(e, ast.Compare) and isinstance(e.left, ast.Name) and e.left.id == var and isinstance(e.comparators[0], ast.Constant) and e.comparators[0].value is None):
        none_b = f.branch(t, "true" if isinstance(t.ast.ops[0], (ast.Is, ast.Eq)) else "false")
        r = [n for n in rets if g.dominates(none_b.id, n.id)]
        if r and all(norm_text(n.ast.value) in (fallback, fallback.split(".")[-1]) for n in r):
            miss_ok = True
    if inlined and var is not None:
        # the lookup sits in decode(): on a miss the variable is re-assigned the fallback before its .decode() is called
        uses = [n for n, c in f.calls(f"{var}.decode")]
        for t, present in f.presence(var):
            mb = f.branch(t, "false" if present == "true" else "true")
            re = [n for n, v in f.assigns(var) if v is not None and norm_text(v) in (fallback, fallback.split(".")[-1]) and g.dominates(mb.id, n.id)]
            if re and uses and all(g.all_paths_pass(mb.id, [u.id], [n.id for n in re], NONEXC) for u in uses):
                miss_ok = True
    ctx.check(miss_ok, R, f"{lab}:miss-returns-fallback", m, f.node, f"a miss returns {fallback}; a hit returns the registered decoder", "; ".join(norm_text(n.ast) for n in rets))


def wrappers_refuse_nothing(ctx, R):
    """The 0x1F / 0xC0 wrapper decoders pass every sub-type on (to its decoder or to the unsupported fallback): they raise
    nothing themselves, so a well-formed frame of an unknown sub-type cannot reset the connection."""
    for gen, mod, cls in (("at4", "x1F_ext", "ExtendedMessageDecoder"), ("at5", "x1F_ext", "ExtendedMessageDecoder"), ("at5", "xC0_ctrl_status", "ControlStatusDecoder")):
        m = ctx.repo.module(f"pyairtouch.{gen}.comms.{mod}")
        ci = m.get_class(cls)
        ctx.require(ci is not None and "decode" in ci.methods, f"{m.relpath}: {cls}.decode vanished")
        own = [x for mn in ("decode", "_sub_message_decoder") if mn in ci.methods for x in walk_no_nested(ci.methods[mn]) if isinstance(x, ast.Raise)]
        # ... and they forgive nothing either: a DecodeError of the sub-decoder of a *known* sub-type propagates (the frame is
        # rejected and the connection reset) - it is not caught and papered over with the unsupported fallback
        tries = [x for mn in ("decode", "_sub_message_decoder") if mn in ci.methods for x in walk_no_nested(ci.methods[mn]) if isinstance(x, ast.Try) and any(h.type is None or any(n_ in norm_text(h.type) for n_ in ("DecodeError", "Exception", "ValueError")) for h in x.handlers)]
        ctx.check(not tries, R, f"{gen}.{mod}.{cls}:forgives-nothing", m, (tries[0] if tries else ci.methods["decode"]), "the wrapper decoder contains no handler for decode failures of its sub-decoder: a malformed known sub-message rejects the frame", f"handler at line {tries[0].lineno}: a malformed known sub-message is delivered as an 'unsupported' one" if tries else "")
        ctx.check(not own, R, f"{gen}.{mod}.{cls}:refuses-nothing", m, (own[0] if own else ci.methods["decode"]), "the wrapper decoder raises nothing itself: every sub-type goes to its decoder or to the unsupported fallback", f"`{norm_text(own[0])[:80]}` at line {own[0].lineno}" if own else "")


def _unsupported(ctx, R, m, clsname, want_len, want_id):
    ci = m.get_class(clsname)
    fn = ci.methods.get("decode")
    ctx.require(fn is not None, f"{m.relpath}: {clsname}.decode vanished")
    f = Fn(ctx.repo, m, f"{clsname}.decode")
    ctx.fn(m, f"{clsname}.decode")
    buf, hdr = f.params[1], f.params[2]
    rets = [n for n in f.cfg.nodes if n.kind == "stmt" and isinstance(n.ast, ast.Return)]
    lab = f"{m.name.split('.', 1)[1]}.{clsname}"
    if len(rets) != 1:
        ctx.violation(R, f"{lab}:single-return", m, fn, "one return", f"{len(rets)}")
        return
    rn = rets[0]
    kws = {}
    # keywords of the returned result and of the message inside it; a local that holds the message is followed
    todo = [rn.ast.value] if rn.ast.value is not None else []
    seen_ = 0
    while todo and seen_ < 12:
        e_ = todo.pop()
        seen_ += 1
        if isinstance(e_, ast.Name):
            e_ = f.expand(e_, rn)
        for c in ast.walk(e_):
            if isinstance(c, ast.Call):
                for k in c.keywords:
                    if k.arg and k.arg not in kws:
                        kws[k.arg] = k.value
                        if isinstance(k.value, ast.Name) and k.arg == "message":
                            todo.append(k.value)

    def slice_of(e, lower: bool):
        e = f.expand(e, rn)
        if isinstance(e, ast.Subscript) and dotted(e.value) == buf and isinstance(e.slice, ast.Slice) and e.slice.step is None:
            sl = e.slice
            if lower and sl.lower is not None and sl.upper is None:
                return sl.lower
            if not lower and sl.upper is not None and sl.lower is None:
                return sl.upper
        return None

    raw, rem = kws.get("raw_data"), kws.get("remaining")
    a = slice_of(raw, False) if raw is not None else None
    b = slice_of(rem, True) if rem is not None else None
    harg = next((x for x in fn.args.args if x.arg == hdr), None)
    hci = ctx.repo.resolve_class(m, harg.annotation) if harg is not None and harg.annotation is not None else None
    a = inline_properties(ctx.repo, m, a, hdr, hci) if a is not None else None
    b = inline_properties(ctx.repo, m, b, hdr, hci) if b is not None else None
    try:
        pa = poly(a) if a is not None else None
        pb = poly(b) if b is not None else None
    except AnalysisError:
        pa = pb = None
    want = {tuple(x.replace("header", hdr) for x in k): v for k, v in want_len.items()}
    ctx.check(pa == want, R, f"{lab}:raw_data", m, fn, f"raw_data = {buf}[:L] with L = {_pfmt(want)} (the whole announced payload, unchanged)", f"{buf}[:{unparse(a)}]" if a is not None else (norm_text(raw) if raw is not None else "missing"))
    ctx.check(pb == want, R, f"{lab}:remaining", m, fn, f"remaining = {buf}[L:] with the same L", f"{buf}[{unparse(b)}:]" if b is not None else (norm_text(rem) if rem is not None else "missing"))
    uid = kws.get("unsupported_id")
    ctx.check(uid is not None and norm_text(uid) == want_id.replace("header", hdr), R, f"{lab}:id", m, fn, f"unsupported_id = {want_id}", norm_text(uid) if uid is not None else "missing")


def _pfmt(p):
    return " + ".join(("*".join(k) if k else "1") if v == 1 else f"{v}*{'*'.join(k)}" for k, v in p.items())


def r2(ctx):
    R = "C17.R2"
    from . import c07

    before = len(ctx.obligations)
    c07.r1(ctx)
    new = ctx.obligations[before:]
    del ctx.obligations[before:]
    for o in new:
        if o.construct.startswith("_read:catch-all") or o.construct.startswith("_read:notify-covered") or o.construct.startswith("_read:handler("):
            o.rule = R
            ctx.obligations.append(o)
    rd = sock_fn(ctx, "_read")
    esc = ctx.effects.of_function(rd.node, rd.module, rd.cls)
    ctx.check(esc == EMPTY, R, "_read:may-escape", rd.module, rd.node, "no exception class can escape the receive task (effect analysis over the call graph)", "any exception" if is_top(esc) else str(sorted(esc)))
    rom = sock_fn(ctx, "_read_one_message")
    m, g = rom.module, rom.cfg
    hs = [h for h in rom.handlers() if any(t.split(".")[-1] == "DecodeError" for t in h.meta["types"])]
    ok = False
    for h in hs:
        # every return reachable from the handler yields None (its own `return None`, a shared trailing one, or falling off the end)
        reach = g.reachable(h.id, labels=NONEXC)
        rets = [n for n in g.nodes if n.kind == "stmt" and isinstance(n.ast, ast.Return) and n.id in reach]
        none_only = all(n.ast.value is None or (isinstance(n.ast.value, ast.Constant) and n.ast.value.value is None) for n in rets)
        reraises = any(g.nodes[i].kind == "stmt" and isinstance(g.nodes[i].ast, ast.Raise) for i in reach)
        if none_only and not reraises and g.exit.id in reach:
            ok = True
    ctx.check(ok, R, "_read_one_message:DecodeError->None", m, rom.node, "a DecodeError anywhere in header/payload decoding is turned into a None result (reset, not crash)", "no such handler")
    decs = [n for n, c in rom.calls("decode")] + [n for n, c in rom.calls("assert_complete")]
    cov = all(any(g.nodes[s].kind == "handler" and "DecodeError" in g.nodes[s].label for lbl, s in n.succ if lbl == "exc") for n in decs)
    ctx.check(bool(decs) and cov, R, "_read_one_message:decoding-inside-try", m, rom.node, "header decode, payload decode and both assert_complete calls are inside the try", "a decode step is outside the DecodeError handler")


def r3(ctx):
    from . import c05

    before = len(ctx.obligations)
    c05.r5(ctx)
    new = ctx.obligations[before:]
    del ctx.obligations[before:]
    for o in new:
        # the stride / record-count / length-multiple obligations of both generations: a truncated or over-long record area is
        # rejected, never read as fewer or shifted records
        o.rule = "C17.R3"
        ctx.obligations.append(o)


def r4(ctx):
    from . import c03, c06

    before = len(ctx.obligations)
    c03.r2(ctx)
    c06.r5(ctx)
    c03.r4(ctx)
    new = ctx.obligations[before:]
    del ctx.obligations[before:]
    for o in new:
        if ":rejects[" in o.construct or o.construct.startswith("_read_one_message") or "assert_complete" in o.construct or o.construct.startswith("_read:"):
            o.rule = "C17.R4"
            ctx.obligations.append(o)
