"""C14 - state is refreshed after every reconnection and after AT4 group silence (structural clauses)."""
from __future__ import annotations

import ast

from ..model import AnalysisError, dotted, norm_text, unparse, walk_no_nested
from ..q import NONEXC, Fn, package_calls
from .common import AT4_API, AT5_API, SOCKET, SOCK_CLS, fn_of, sock_fn
from .c08 import check_deadline_loop

LEVEL = "other"
EXPLANATION = (
    "Static analysis of AirTouch4/5._connection_changed, the socket's connect path and the AT4 group-status poll: R1 on connected outside the handshake "
    'both an AC-status and a zone/group-status request are sent (right wrapper, 1 s policy), in the handshake only the version request, nothing on '
    'connected=False; R2 the socket notifies connected=True on every successful connect before it drains, and a send issued from that notification cannot '
    'be aborted by the purge of expired buffered messages (purge idiom C16.R2 re-used); R3 deadline-loop idiom for the AT4 poll with T0 == T1 == '
    '_GROUP_STATUS_TIMEOUT == 300.0, event set in the steady-state group-status case, handler requests group status under is_connected and the loop '
    're-arms, task created on reaching CONNECTED; R4 unchanged refresh data notifies nobody (C12.R1 re-used). R5 a lost connection is followed by a new one '
    '(C07.R2 + C07.R3 re-evaluated), without which nothing is refreshed.'
    ' Rounds 7-8: R2 also: _notify_connection_changed passes every change on (no condition, no remembered state).'
    ' Rounds 9-10: R8 now includes that the stored record is the parameter as received (C10.R2).'
)
ASSUMPTIONS = ["asyncio.timeout/reschedule semantics as documented"]
FLOORS = {"C14.R1": 8, "C14.R2": 3, "C14.R3": 8, "C14.R4": 4, "C14.R5": 1, "C14.R6": 1, "C14.R7": 1, "C14.R8": 1}


def run(ctx):
    r1(ctx)
    r2(ctx)
    r3(ctx)
    r4(ctx)
    from . import c07
    from .common import reuse

    from . import c01

    from . import c08

    reuse(ctx, "C14.R7", [c08.r5], "the reconnection a reset promises is not cancelled from a connection callback: only shutdown() stops the heartbeat tasks, one of which is the task running the reset (C08.R5)",
          keep=lambda o: "who-may-call" in o.construct or o.verdict != "HOLDS")
    from . import c10

    reuse(ctx, "C14.R8", [c10.r2], "whatever the refresh returns is stored: every update_* replaces the stored record on every path (C10.R2)",
          keep=lambda o: "last-writer" in o.construct or "stored-before" in o.construct or o.verdict != "HOLDS")
    reuse(ctx, "C14.R6", [c01.r3], "the refresh requests queued on reconnection are written: the queue is drained after every connect and the drain can always start (C01.R3)")
    reuse(ctx, "C14.R5", [c07.r2, c07.r3], "after a connection loss the client reconnects (C07.R2 reset, C07.R3 retry), which is what triggers the refresh")


def _classes_in(ctx, m, e):
    out = []
    for n in ast.walk(e):
        if isinstance(n, ast.Call) and dotted(n.func):
            ci = ctx.repo.resolve_class(m, n.func)
            if ci is not None:
                out.append(ci.name)
    return out


def _arg(call, pos, name):
    for k in call.keywords:
        if k.arg == name:
            return k.value
    return call.args[pos] if len(call.args) > pos else None


def r1(ctx):
    R = "C14.R1"
    for modname, clsname, status_req, wrap in ((AT4_API, "AirTouch4", "GroupStatusRequest", None), (AT5_API, "AirTouch5", "ZoneStatusRequest", "ControlStatusMessage")):
        cc = fn_of(ctx, modname, f"{clsname}._connection_changed")
        m, g = cc.module, cc.cfg
        sends = cc.calls("self._socket.send")
        info = []
        for n, c in sends:
            msg = _arg(c, 0, "message")
            pol = _arg(c, 1, "retry_policy")
            names = _classes_in(ctx, m, cc.expand(msg, n)) if msg is not None else []
            polq = ctx.repo.qual(m, cc.expand(pol, n)) if pol is not None and dotted(cc.expand(pol, n)) else None
            info.append((n, c, names, polq))
        conn_tests = cc.tests(lambda e: isinstance(e, ast.Name) and e.id == "connected")
        ctx.check(bool(conn_tests), R, f"{clsname}._connection_changed:tests-connected", m, cc.node, "the callback distinguishes connected from disconnected", "no test of `connected`")
        # nothing is sent on connected=False
        for n, c, names, polq in info:
            ok = any(g.dominates(cc.branch(t, "true").id, n.id) for t in conn_tests)
            ctx.check(ok, R, f"{clsname}._connection_changed:send({'/'.join(names)}):only-when-connected", m, c, "requests are sent only on connected=True", "send reachable on connected=False")
        # refresh branch: state != CONNECTING
        st_tests = []
        for t in cc.tests(lambda e: isinstance(e, ast.Compare) and len(e.ops) == 1 and isinstance(e.ops[0], (ast.Eq, ast.NotEq, ast.Is, ast.IsNot))):
            te = cc.expand(t.ast, t)
            l, r = dotted(te.left) or "", dotted(te.comparators[0]) or ""
            if (l == "self._state" and r.endswith(".CONNECTING")) or (r == "self._state" and l.endswith(".CONNECTING")):
                st_tests.append((t, "true" if isinstance(t.ast.ops[0], (ast.Eq, ast.Is)) else "false"))
        ctx.check(bool(st_tests), R, f"{clsname}._connection_changed:handshake-vs-refresh", m, cc.node, "the callback tests `self._state == CONNECTING` to tell the first connection from a reconnection", "no such test")
        if not st_tests:
            continue
        t, hs_label = st_tests[0]
        refresh_label = "false" if hs_label == "true" else "true"
        rb = cc.branch(t, refresh_label)
        hb = cc.branch(t, hs_label)
        # on the refresh path: both requests on every path
        want = {"AcStatusRequest": False, status_req: False}
        for req in list(want):
            nodes = [n for n, c, names, polq in info if req in names and (wrap is None or wrap in names)]
            # path: connected true & not handshake.  Walk from the refresh branch (it may precede or follow the connected test)
            start = rb
            ok = bool(nodes) and g.all_paths_pass(start.id, [g.exit.id], [x.id for x in nodes] + [cc.branch(ct, "false").id for ct in conn_tests], NONEXC)
            ctx.check(ok, R, f"{clsname}._connection_changed:refresh:{req}", m, cc.node, f"a reconnection outside the handshake sends {('ControlStatusMessage(' + req + '())') if wrap else req + '()'} on every path", "request missing on the refresh path" + ("" if nodes else " (no such send, or wrong wrapper)"))
            for n, c, names, polq in info:
                if req in names and n in nodes:
                    ctx.check(polq == f"{SOCKET}.RETRY_CONNECTED", R, f"{clsname}._connection_changed:refresh:{req}:policy", m, c, "RETRY_CONNECTED", str(polq))
        # handshake branch: only the version request
        hs_sends = [(n, names) for n, c, names, polq in info if g.dominates(hb.id, n.id)]
        ok = len(hs_sends) == 1 and "ConsoleVersionRequest" in hs_sends[0][1] and "ExtendedMessage" in hs_sends[0][1]
        ctx.check(ok, R, f"{clsname}._connection_changed:handshake-first-request", m, cc.node, "the first connection sends exactly ExtendedMessage(ConsoleVersionRequest())", "; ".join("/".join(nm) for _, nm in hs_sends))
        # the refresh branch must not be taken in CLOSED... (not required by the property)


def r2(ctx):
    R = "C14.R2"
    con = sock_fn(ctx, "_connect")
    m, g = con.module, con.cfg
    sets = [n for n, v in con.assigns("self.is_connected") if isinstance(v, ast.Constant) and v.value is True]
    nots = [(n, c) for n, c in con.calls("self._notify_connection_changed") if n.awaits]
    drains = [n for n, c in con.calls("self._drain_message_queue") if n.awaits]
    ctx.require(sets, "socket._connect: no is_connected = True")
    ok = bool(nots) and all(g.all_paths_pass(s.id, [g.exit.id], [n.id for n, _ in nots], NONEXC) for s in sets)
    ctx.check(ok, R, "_connect:notifies-connected", m, con.node, "every successful connect awaits _notify_connection_changed(connected=...)", "a path skips the notification")
    for n, c in nots:
        v = next((k.value for k in c.keywords if k.arg == "connected"), None)
        txt = con.expand_text(v, n) if v is not None else ""
        ctx.check(txt in ("self.is_connected", "True"), R, "_connect:notifies-True", m, c, "connected=self.is_connected (True at that point)", txt)
        ok = all(g.dominates(s.id, n.id) for s in sets) and all(g.dominates(n.id, d.id) for d in drains)
        ctx.check(ok, R, "_connect:notify-between-flag-and-drain", m, c, "is_connected=True, then the notification, then the drain of buffered messages", "order differs")
    nc = sock_fn(ctx, "_notify_connection_changed")
    calls = [c for n, c in nc.calls("self._notify_subscribers")]
    ok = bool(calls) and any(isinstance(x, (ast.ListComp, ast.GeneratorExp)) and any(dotted(gen.iter) == "self._connection_subscribers" for gen in x.generators) for c in calls for x in ast.walk(c))
    ctx.check(ok, R, "_notify_connection_changed:all-subscribers", m, nc.node, "every connection subscriber is invoked", "subscriber set not iterated")
    # ... unconditionally: the helper neither filters (no early return, no "already told them" memory) nor keeps state
    cond_exit = [x for x in ast.walk(nc.node) if isinstance(x, (ast.Return, ast.If, ast.IfExp))]
    stores = [x for x in ast.walk(nc.node) if isinstance(x, (ast.Assign, ast.AugAssign, ast.AnnAssign)) and any((dotted(t) or "").startswith("self.") for t in (x.targets if isinstance(x, ast.Assign) else [x.target]))]
    ctx.check(not cond_exit and not stores, R, "_notify_connection_changed:unconditional", m, (cond_exit + stores)[0] if (cond_exit or stores) else nc.node, "every connection change is passed on: no condition, no remembered state in the helper", "the notification can be suppressed (a reconnection whose 'connected' is swallowed triggers no refresh)")
    # the refresh sends run inside send() -> _enqueue_message: the purge must not be able to raise (ascending-index deletion does)
    from . import c16

    enq = sock_fn(ctx, "_enqueue_message")
    before = len(ctx.obligations)
    c16.r2(ctx, enq)
    new = ctx.obligations[before:]
    del ctx.obligations[before:]
    for o in new:
        o.rule = R
        o.construct = "refresh-send-survives-purge:" + o.construct
        o.expected = "the purge of expired buffered commands cannot abort the refresh requests: " + o.expected
        ctx.obligations.append(o)


def r3(ctx):
    R = "C14.R3"
    am = ctx.repo.module(AT4_API)
    tv = ctx.repo.try_fold(am, am.get_const_expr("_GROUP_STATUS_TIMEOUT"))
    ctx.check(tv == 300.0, R, "const:_GROUP_STATUS_TIMEOUT", am, am.assign_nodes["_GROUP_STATUS_TIMEOUT"], "300.0 s", repr(tv))
    lp = fn_of(ctx, AT4_API, "AirTouch4._group_status_request_loop")
    dl = check_deadline_loop(ctx, R, lp, "_group_status_request_loop", t_expected_value=300.0)
    ctx.check(dl.event == "self._group_status_received_event", R, "_group_status_request_loop:event", am, lp.node, "waits on self._group_status_received_event", str(dl.event))
    if dl.handler is not None:
        sends = [(n, c) for n, c in lp.calls("self._socket.send") if any(x is c for s in dl.handler.body for x in ast.walk(s))]
        ctx.check(bool(sends), R, "_group_status_request_loop:timeout-requests", am, dl.handler, "the TimeoutError handler sends a group status request", "no send in the handler")
        for n, c in sends:
            names = _classes_in(ctx, am, lp.expand(_arg(c, 0, "message"), n))
            pol = _arg(c, 1, "retry_policy")
            polq = ctx.repo.qual(am, lp.expand(pol, n)) if pol is not None else None
            ctx.check(names == ["GroupStatusRequest"] and polq == f"{SOCKET}.RETRY_CONNECTED", R, "_group_status_request_loop:request", am, c, "GroupStatusRequest() with RETRY_CONNECTED", f"{'/'.join(names)} with {polq}")
            ts = lp.tests(lambda e: dotted(e) == "self._socket.is_connected")
            ok = bool(ts) and all(lp.cfg.dominates(lp.branch(t, "true").id, n.id) for t in ts)
            ctx.check(ok, R, "_group_status_request_loop:only-when-connected", am, c, "the request is sent under is_connected", "unguarded")
        leaves = any(isinstance(x, (ast.Return, ast.Break, ast.Raise)) for s in dl.handler.body for x in ast.walk(s))
        ctx.check(not leaves, R, "_group_status_request_loop:re-arms", am, dl.handler, "after the request the outer loop re-arms the deadline (for as long as the silence lasts)", "the handler leaves the loop")
    # event set in the steady-state group status case; task created on reaching CONNECTED
    mr = fn_of(ctx, AT4_API, "AirTouch4._message_received")
    sets = [n for n, c in mr.calls("self._group_status_received_event.set")]
    allsets = package_calls(ctx.repo, lambda d: d.endswith("_group_status_received_event.set"))
    ok = len(sets) == 1 and len(allsets) == 1
    case_ok = False
    if ok:
        cn = [n for n in mr.cfg.nodes if n.kind == "case" and mr.cfg.dominates(n.id, sets[0].id)]
        for c in cn:
            pat = unparse(c.ast.pattern)
            guard = unparse(c.ast.guard) if c.ast.guard is not None else ""
            if "GroupStatusMessage" in pat and "CONNECTED" in guard:
                case_ok = True
    ctx.check(ok and case_ok, R, "_message_received:event-set-on-group-status", am, mr.node, "the event is set exactly in the `GroupStatusMessage ... if state == CONNECTED` case", f"{len(allsets)} set() sites; in that case: {case_ok}")
    creates = [(n, c) for n, c in mr.calls("create_task") if any(isinstance(x, ast.Call) and dotted(x.func) == "self._group_status_request_loop" for x in ast.walk(c))]
    conn = [n for n, v in mr.assigns("self._state") if (dotted(v) or "").endswith(".CONNECTED")]
    ok = bool(creates) and bool(conn) and all(mr.cfg.all_paths_pass(cn.id, [mr.cfg.exit.id], [n.id for n, _ in creates], NONEXC) for cn in conn)
    ctx.check(ok, R, "_message_received:poll-task-created", am, mr.node, "reaching CONNECTED creates the _group_status_request_loop task", "task not created on some path to CONNECTED")
    for n, c in creates:
        a = n.ast
        ok = isinstance(a, ast.Assign) and dotted(a.targets[0]) == "self._group_status_request_task"
        ctx.check(ok, R, "_message_received:poll-task-stored", am, c, "the task handle is stored in _group_status_request_task (cancelled by shutdown)", norm_text(a)[:80])


def r4(ctx):
    R = "C14.R4"
    try:
        from . import c12
    except ImportError:
        ctx.require(False, "C12 rules not available")
    before = len(ctx.obligations)
    c12.r1(ctx)
    new = ctx.obligations[before:]
    del ctx.obligations[before:]
    for o in new:
        o.rule = R
        ctx.obligations.append(o)
