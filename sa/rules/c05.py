"""C05 - status frames are interpreted as the vendor protocol defines (structural clauses)."""
from __future__ import annotations

import ast
from fractions import Fraction

from .. import offsets as OF
from .. import absval, bits as B, codec
from ..model import AnalysisError, StructVal, dotted, norm_text, unparse, walk_no_nested
from ..q import cmp_oriented, NONEXC, Fn
from ..spec import tables as T

LEVEL = "other"
EXPLANATION = (
    'Bit-provenance abstract interpretation (sa/bits.py) of every status/ability decoder: for each decoded field the analysis derives which bits of which '
    'struct slot reach it, through which mask/shift, enum class, boolean test or affine map, under which guard - for all byte values at once. R1 the '
    "derived layout (absolute byte/bit positions) equals the vendor table; R2 each status enum's members are exactly the vendor's defined codes and the "
    'enum has no _missing_ hook (undefined codes are rejected, never mapped to a defined member); R3 affine readings (temperature (raw-500)/10 on the '
    "vendor's 11 bits, AT5 set-point (raw+100)/10); R4 documented not-available codes: constant propagation of each vendor sentinel, combined with every "
    'value of the unrelated bits sharing its slot, through the derived guarded value must give absent or a rejection; R5 strides: the AT5 status decoders '
    'advance by header.repeat_length in an accepted idiom and reject strides below the record size, AT4 ability reads the group bitmap iff following_length '
    '== 24; R6 variable-length strings, decided in a buffer-offset domain (sa/offsets.py: positions as linear forms over the announced length, the loop '
    'index and byte values; loops summarised by their stride; decode() as exits with path conditions): AT4 group record k of message_length // 9 is number '
    '= byte 9k, name = C string of bytes 9k+1..9k+8; AT5 zone records run from 0 while the position is below the announced length with number = byte p, '
    'length = byte p+1, name = UTF-8 of the next `length` bytes, next record right after, and a name passing the announced length raises; console version = '
    "UTF-8 of bytes 2..2+byte 1 split at '|' (AT4) / ',' (AT5), update flag = byte 0 != 0; AC error text = UTF-8 of bytes 2..2+byte 1 exactly when byte 1 "
    "!= 0, else absent; C strings stop at the first NUL. R7 records are decoded independently: every local a record is built from is assigned in the same loop iteration on every path (reaching definitions with the back edge cut), so an absent optional part never inherits the previous record's value. The transcription of the vendor tables is QA'd on the vendor's example frames first."
    ' Rounds 7-8: R4 also decides the converse of the sentinel clause (a code the vendor defines as a value never decodes to absent, whatever the rest of the record holds); R7 also: no module-level container is modified by a codec, nothing kept on the shared codec objects is filled in place, and outside __init__ a codec stores only constants on itself.'
    " Rounds 9-10: R5 also covers the AT5 ability records (record k at 26k); R6 also: text is decoded strictly (invalid UTF-8 witnesses are refused; no errors= handler in any codec) and the console-version decoder refuses nothing; R4 also: for optional fields without a vendor sentinel every code is a value when the guard field says 'present'."
)
ASSUMPTIONS = ["vendor tables transcribed in sa/spec/tables.py (DESIGN Appendix A) are the oracle", "struct.unpack_from slot layout as computed from the literal format string"]
FLOORS = {"C05.R1": 60, "C05.R2": 12, "C05.R3": 6, "C05.R4": 5, "C05.R5": 7, "C05.R6": 8, "C05.R7": 6}


def r1_ability(ctx):
    """R1-R4 for the two ability decoders only (re-used by C09/C19: the model is built from these records)."""
    r7(ctx, only=("ac_ability",))
    for key, spec in T.STATUS.items():
        if "ac_ability" in str(key):
            check_decoder(ctx, key, spec)


def run(ctx):
    r7(ctx)  # first: its aliasing clause decides constructs that take the bit domain out of its fragment
    for key, spec in T.STATUS.items():
        check_decoder(ctx, key, spec)
    r5(ctx)
    r6(ctx)


def r7(ctx, only=None):
    """Records are decoded independently of one another: a local that a record is built from and that is assigned inside the
    record loop is assigned on every path of the *same* iteration before the record is built (reaching definitions with the back
    edge cut).  Otherwise an optional part that is absent in one record silently inherits the value decoded for the previous
    record.  Instances: every loop of every decode() of the message modules that builds a record inside the loop."""
    from ..q import Fn, iter_functions

    R = "C05.R7"
    n_loops = 0
    for m in ctx.repo.modules.values():
        if not (m.name.startswith("pyairtouch.at4.comms.x") or m.name.startswith("pyairtouch.at5.comms.x")):
            continue
        if only is not None and not any(o in m.name for o in only):
            continue
        for qual, fnode in iter_functions(m):
            if not qual.endswith("Decoder.decode") or ".<locals>." in qual:
                continue
            f = Fn(ctx.repo, m, qual)
            g = f.cfg
            heads = [n for n in g.nodes if (n.kind == "join" and n.label == "while") or n.kind == "for"]
            for h in heads:
                loop_ast = h.ast
                body_ids = {id(x) for st in loop_ast.body for x in ast.walk(st)}
                in_loop = [n for n in g.nodes if n.ast is not None and id(n.ast) in body_ids and n.kind == "stmt"]
                # record constructions inside this loop (a call of a dataclass of the package)
                builds = []
                for n in in_loop:
                    for c in walk_no_nested(n.ast):
                        if isinstance(c, ast.Call) and dotted(c.func):
                            ci = ctx.repo.resolve_class(m, c.func)
                            if ci is not None and ci.is_dataclass and not ci.is_enum():
                                builds.append((n, c))
                if not builds:
                    continue
                n_loops += 1
                assigned = {}
                for n in in_loop:
                    for name in g.defs_of(n):
                        assigned.setdefault(name, []).append(n)
                if h.kind == "for":
                    for t in ast.walk(loop_ast.target):
                        if isinstance(t, ast.Name):
                            assigned.pop(t.id, None)  # bound afresh by the loop itself
                stale = []
                for n, c in builds:
                    used = {x.id for x in ast.walk(c) if isinstance(x, ast.Name) and isinstance(x.ctx, ast.Load)}
                    for v in sorted(used & set(assigned)):
                        defs = [d.id for d in assigned[v] if d.id != n.id]
                        if not defs:
                            continue
                        # cursors and accumulators (`buffer = buffer[n:]`, `offset += n`) carry their value on purpose
                        def _selfref(d, v=v):
                            a_ = d.ast
                            if isinstance(a_, ast.AugAssign):
                                return True
                            val = getattr(a_, "value", None)
                            return val is not None and any(isinstance(x, ast.Name) and x.id == v for x in ast.walk(val))
                        if all(_selfref(d) for d in assigned[v]):
                            continue
                        # is the construction reachable from the loop head without passing a definition of v made in this iteration?
                        if not g.all_paths_pass(h.id, [n.id], defs, None):
                            stale.append((v, n))
                lab = f"{m.name.split('pyairtouch.')[1]}.{qual.split('.')[0]}:loop@{qual.split('.')[-1]}"
                ctx.check(not stale, R, f"{lab}:per-record-state-is-fresh", m, (stale[0][1].ast if stale else loop_ast), "every local a record is built from is assigned in the same iteration on every path (nothing is carried over from the previous record)", "; ".join(f"`{v}` can reach the record built at line {n.lineno} with the value of an earlier iteration" for v, n in stale[:3]))
    # nor is anything carried over through a module-level container: a decoder that fills a dict / list / set defined at module
    # level (directly or through a local alias) hands the same object to every record and every frame
    for m in ctx.repo.modules.values():
        if not (m.name.startswith("pyairtouch.at4.comms.") or m.name.startswith("pyairtouch.at5.comms.") or m.name == "pyairtouch.comms.encoding"):
            continue
        if only is not None and not any(o in m.name for o in only):
            continue
        # the codec objects themselves are shared (one instance per message type in the registry): a buffer or container kept on
        # `self` and filled in place by encode()/decode() is the same kind of shared state
        own = []
        for cname, ci in m.classes.items():
            if not (cname.endswith("Encoder") or cname.endswith("Decoder")):
                continue
            for mname, fnode in ci.methods.items():
                if mname == "__init__":
                    continue
                for x in walk_no_nested(fnode):
                    tgt = None
                    if isinstance(x, ast.Call) and isinstance(x.func, ast.Attribute) and x.func.attr == "pack_into" and x.args:
                        tgt = x.args[0]
                    elif isinstance(x, ast.Call) and isinstance(x.func, ast.Attribute) and x.func.attr in ("update", "append", "add", "extend", "setdefault", "insert", "clear"):
                        tgt = x.func.value
                    elif isinstance(x, (ast.Assign, ast.AugAssign)):
                        for t in (x.targets if isinstance(x, ast.Assign) else [x.target]):
                            if isinstance(t, ast.Subscript):
                                tgt = t.value
                    if tgt is None:
                        continue
                    # follow one local alias (`buf = self._buffer`)
                    if isinstance(tgt, ast.Name):
                        al = [y.value for y in walk_no_nested(fnode) if isinstance(y, ast.Assign) and len(y.targets) == 1 and isinstance(y.targets[0], ast.Name) and y.targets[0].id == tgt.id]
                        if len(al) == 1:
                            tgt = al[0]
                    if (dotted(tgt) or "").startswith("self."):
                        own.append((f"{cname}.{mname}", dotted(tgt), x))
                # ... and no data of one frame is remembered for the next: outside __init__ a codec stores only constants on
                # itself (a log-once flag), never a value taken from a frame or a message
                for x in walk_no_nested(fnode):
                    if isinstance(x, (ast.Assign, ast.AnnAssign, ast.AugAssign)) and getattr(x, "value", None) is not None:
                        for t in (x.targets if isinstance(x, ast.Assign) else [x.target]):
                            if (dotted(t) or "").startswith("self.") and not isinstance(x.value, ast.Constant):
                                own.append((f"{cname}.{mname}", dotted(t) + " (remembered between frames)", x))
        ctx.check(not own, R, f"{m.name.split('pyairtouch.')[1]}:codec-objects-hold-no-buffers", m, (own[0][2] if own else None), "encode()/decode() build their result in fresh objects: nothing kept on the shared codec instance is filled in place", "; ".join(f"{q} writes into {a_} (line {x.lineno}): bytes already handed out change when the next message is encoded" for q, a_, x in own[:3])) if (own or any(c.endswith("Encoder") or c.endswith("Decoder") for c in m.classes)) else None
        mutable_globals = set()
        for gname, gnode in m.assign_nodes.items():
            v = getattr(gnode, "value", None)
            if isinstance(v, (ast.Dict, ast.List, ast.Set, ast.DictComp, ast.ListComp, ast.SetComp)) or (isinstance(v, ast.Call) and dotted(v.func) in ("dict", "list", "set", "bytearray", "collections.defaultdict", "defaultdict")):
                mutable_globals.add(gname)
        if not mutable_globals:
            continue
        shared = []
        for qual, fnode in iter_functions(m):
            if ".<locals>." in qual:
                continue
            alias = {g_: g_ for g_ in mutable_globals}
            for x in walk_no_nested(fnode):
                if isinstance(x, (ast.Assign, ast.AnnAssign)) and isinstance(getattr(x, "value", None), ast.Name) and x.value.id in mutable_globals:
                    for t in (x.targets if isinstance(x, ast.Assign) else [x.target]):
                        if isinstance(t, ast.Name):
                            alias[t.id] = x.value.id
            local_rebinds = {t.id for x in walk_no_nested(fnode) if isinstance(x, (ast.Assign, ast.AnnAssign)) for t in (x.targets if isinstance(x, ast.Assign) else [x.target]) if isinstance(t, ast.Name) and not (isinstance(getattr(x, "value", None), ast.Name) and x.value.id in mutable_globals)}
            for x in walk_no_nested(fnode):
                tgt = None
                if isinstance(x, (ast.Assign, ast.AugAssign, ast.AnnAssign)):
                    for t in (x.targets if isinstance(x, ast.Assign) else [x.target]):
                        if isinstance(t, ast.Subscript) and isinstance(t.value, ast.Name):
                            tgt = t.value.id
                elif isinstance(x, ast.Call) and isinstance(x.func, ast.Attribute) and isinstance(x.func.value, ast.Name) and x.func.attr in ("update", "append", "add", "extend", "setdefault", "pop", "clear", "insert", "remove", "discard"):
                    tgt = x.func.value.id
                elif isinstance(x, ast.Delete):
                    for t in x.targets:
                        if isinstance(t, ast.Subscript) and isinstance(t.value, ast.Name):
                            tgt = t.value.id
                if tgt is not None and tgt in alias and tgt not in (local_rebinds - set(mutable_globals)):
                    shared.append((qual, alias[tgt], x))
        ctx.check(not shared, R, f"{m.name.split('pyairtouch.')[1]}:no-shared-mutable-state", m, (shared[0][2] if shared else None), "codecs build a new container for every record: no dict / list / set defined at module level is modified while decoding or encoding", "; ".join(f"{q} modifies the module-level `{g_}` at line {x.lineno}: every record (and every later frame) shares that one object" for q, g_, x in shared[:3]))
    if only is None:
        ctx.require(n_loops >= 6, f"C05.R7: only {n_loops} record loops found in the decoders")


def slot_map(notes):
    """slot name (as used in descriptors) -> (struct, slot, base offset)"""
    out = {}
    for n in notes:
        if n[0] != "unpack":
            continue
        st, tag = n[1], n[3]
        base = 0
        if tag.startswith("@") and tag[1:].isdigit():
            base = int(tag[1:])
        for sl in st.slots:
            out[f"slot{sl.index}{tag}"] = (st, sl, base)
    return out


def abs_pos(name, k, smap):
    if name not in smap:
        return None
    st, sl, base = smap[name]
    if k >= 8 * sl.size:
        return None
    byte = base + sl.offset + (k // 8 if st.byteorder == "little" else sl.size - 1 - k // 8)
    return (byte, k % 8)


def abs_bits(bits, smap):
    """descriptor bits [(pos, name, k)] -> list indexed by result position of (byte, bit) | None"""
    if not bits:
        return []
    n = max(p for p, _, _ in bits) + 1
    out = [None] * n
    for p, name, k in bits:
        out[p] = abs_pos(name, k, smap) or ("?", name, k)
    return out


def main_alternative(d: codec.Desc):
    """For guarded values: the non-absent, non-raising alternative(s)."""
    if d.kind != "cases":
        return [d]
    return [x for _, x in d.cases if x.kind not in ("none",) and not (x.kind == "const" and str(x.const).startswith("raise"))]


def fmt_abs(bl):
    return "[" + ", ".join("?" if b is None else f"B{b[0]}.{b[1]}" if len(b) == 2 else f"{b[1]}[{b[2]}]" for b in reversed(bl)) + "]"


def check_decoder(ctx, key, spec):
    gen, mod, cls = key
    m = ctx.repo.module(f"pyairtouch.{gen}.comms.{mod}")
    ctx.analysed["functions"].add(f"{m.name}.{cls}.decode")
    rci, fields, problems, st, notes = codec.decoder_fields(ctx.repo, m, cls)
    smap = slot_map(notes)
    lab = f"{gen}.{mod}.{cls}"
    dnode = m.get_class(cls).methods["decode"]
    for fname, fs in spec["fields"].items():
        R1, R2, R3, R4 = "C05.R1", "C05.R2", "C05.R3", "C05.R4"
        if fname not in fields:
            pr = [p for p in problems if p.startswith(fname + ":")]
            if pr:
                raise AnalysisError(f"{m.relpath}: {cls}: field {fname} left the analysable fragment: {pr[0]}")
            ctx.violation(R1, f"{lab}:{fname}", m, dnode, f"field decoded from {spec['page']}", "field not produced by the decoder")
            continue
        v = fields[fname]
        d = codec.describe(v)
        mains = main_alternative(d)
        kind = fs["kind"]
        if kind in ("flags", "bitset"):
            check_flags(ctx, lab, fname, fs, d, smap, m, dnode)
            continue
        if len(mains) != 1:
            ctx.violation(R1, f"{lab}:{fname}", m, dnode, f"{kind} {fmt_abs(fs['bits'])}", d.brief()[:200])
            continue
        md = mains[0]
        got = abs_bits(md.bits, smap)
        want = list(fs["bits"])
        exp_kind = {"uint": "uint", "bool": "bool", "enum": "enum", "affine": "affine"}[kind]
        ok = md.kind == exp_kind and got == want and md.ones == 0
        if kind == "bool" and md.kind == "bool":
            ok = got == want
        ctx.check(ok, R1, f"{lab}:{fname}:layout", m, dnode, f"{kind} from {fmt_abs(want)} ({spec['page']})", f"{md.kind} from {fmt_abs(got)}" + (f" |0x{md.ones:X}" if md.ones else ""))
        if kind == "enum":
            eci = m.classes.get(fs["enum"]) or next((c for mm in ctx.repo.modules.values() for c in mm.classes.values() if c.name == fs["enum"] and mm.name.startswith(f"pyairtouch.{gen}.")), None)
            ctx.require(eci is not None, f"{m.relpath}: enum {fs['enum']} vanished")
            ctx.check(md.enum == fs["enum"], R2, f"{lab}:{fname}:enum-class", m, dnode, fs["enum"], str(md.enum))
            mem = eci.enum_members(ctx.repo)
            want_codes = {n: c for c, n in fs["codes"].items()}
            ctx.check(mem == want_codes, R2, f"{lab}:{fname}:codes", eci.module, eci.node, f"{fs['enum']} members == vendor codes {dict(sorted(fs['codes'].items()))}", str(dict(sorted((v_, k_) for k_, v_ in mem.items()))))
            ctx.check(not eci.has_missing_hook(), R2, f"{lab}:{fname}:undefined-codes-rejected", eci.module, eci.node, "no _missing_ hook on a status enum: an undefined code raises instead of decoding to a defined member", "_missing_ maps undefined codes to a member")
        if kind == "affine":
            ok = md.kind == "affine" and md.mul == fs["mul"] and md.add == fs["add"]
            ctx.check(ok, R3, f"{lab}:{fname}:scale", m, dnode, f"raw*{fs['mul']}+({fs['add']})", f"raw*{md.mul}+({md.add})" if md.kind == "affine" else md.kind)
        if "na" in fs:
            check_sentinel(ctx, lab, fname, fs, spec, v, smap, m, dnode)
        if fs.get("optional"):
            # absent exactly when the guard field says so: the none-alternative exists
            has_none = d.kind == "cases" and any(x.kind == "none" for _, x in d.cases)
            ctx.check(has_none, R4, f"{lab}:{fname}:absent-without-sensor", m, dnode, f"absent when {fs['optional']}", d.brief()[:160])
            # ... and only then: with the guard field saying "present" (all other bits of the record 1) every code of the field
            # is a value - no code is turned into "absent" on the decoder's own authority (the vendor defines no sentinel here)
            if "na" not in fs and len(fs["bits"]) <= 8:
                fb = list(fs["bits"])
                res_by_raw = {}
                for raw in range(1 << len(fb)):
                    assign = {p: (raw >> i) & 1 for i, p in enumerate(fb)}

                    def src3(name, k, assign=assign):
                        return assign.get(abs_pos(name, k, smap), 1)

                    try:
                        res_by_raw[raw] = absval.concretize(v, src3, ctx.repo)[0]
                    except absval.Undefined:
                        res_by_raw = {}
                        break
                nones = sorted(r for r, k in res_by_raw.items() if k == "none")
                if res_by_raw and len(nones) < len(res_by_raw):
                    ctx.check(not nones, R4, f"{lab}:{fname}:every-code-is-a-value-when-present", m, dnode, f"with the guard set, each of the {len(res_by_raw)} codes of the field decodes to a value (absent only when {fs['optional']})", f"raw code(s) {[hex(r) for r in nones[:4]]} decode to absent although the record says the field is present")
    # fields the decoder produces beyond the spec'ed ones are fine (e.g. ac_name); nothing to check


def check_flags(ctx, lab, fname, fs, d, smap, m, dnode):
    R1 = "C05.R1"
    alts = main_alternative(d) if d.kind == "cases" else [d]
    alts = [a for a in alts if a.kind in ("dict", "set")]
    if len(alts) != 1:
        ctx.violation(R1, f"{lab}:{fname}", m, dnode, "one flag per vendor bit", d.brief()[:200])
        return
    sub = alts[0].sub
    for name, pos in fs["flags"].items():
        k = next((x for x in sub if x.endswith("." + name) or x == name), None)
        if k is None:
            ctx.violation(R1, f"{lab}:{fname}[{name}]", m, dnode, f"flag from B{pos[0]}.{pos[1]}", "missing")
            continue
        e = sub[k]
        got = abs_bits(e.bits, smap)
        ctx.check(e.kind == "bool" and got == [pos], R1, f"{lab}:{fname}[{name}]", m, dnode, f"bool from B{pos[0]}.{pos[1]}", f"{e.kind} from {fmt_abs(got)}")
    extra = [k for k in sub if not any(k.endswith("." + n) or k == n for n in fs["flags"]) and not k.endswith(".UNCHANGED")]
    ctx.check(not extra, R1, f"{lab}:{fname}:no-extra-flags", m, dnode, "only the vendor's flags (plus UNCHANGED = always supported)", ", ".join(extra))
    if "when" in fs and d.kind == "cases":
        cond = d.cases[0][0]
        ok = "==0x18" in cond and abs_bits(codec.describe(ctx_cond_bv(d)).bits, smap)[:0] == [] if False else "==0x18" in cond
        ctx.check(ok, "C05.R5", f"{lab}:{fname}:iff-following-length-24", m, dnode, "the group bitmap is read exactly when following_length == 22 + 2", cond)


def ctx_cond_bv(d):
    return None


def check_sentinel(ctx, lab, fname, fs, spec, v, smap, m, dnode):
    R4 = "C05.R4"
    na = fs["na"]
    field_bits = list(fs["bits"])  # (byte, bit) for raw bit i
    # the slot(s) holding the field and their other bits
    inv = {}
    for name, (st, sl, base) in smap.items():
        for k in range(8 * sl.size):
            inv[abs_pos(name, k, smap)] = (name, k)
    field_pos = set(field_bits)
    slots = {inv[p][0] for p in field_bits if p in inv}
    other = [p for p, (nm, k) in inv.items() if nm in slots and p not in field_pos]
    if len(other) > 10:
        other = other[:10]
    req = {}
    for rf, val in (fs.get("requires") or {}).items():
        for (byte, bit) in spec["fields"][rf]["bits"]:
            req[(byte, bit)] = val
    bad = []
    tried = 0
    for raw in na["raw"]:
        for combo in range(1 << len(other)):
            assign = dict(req)
            for i, p in enumerate(field_bits):
                assign[p] = (raw >> i) & 1
            for i, p in enumerate(other):
                if p not in assign:
                    assign[p] = (combo >> i) & 1

            def src(name, k, assign=assign):
                p = abs_pos(name, k, smap)
                return assign.get(p, 0)

            tried += 1
            try:
                res = absval.concretize(v, src, ctx.repo)
            except absval.Undefined as ex:
                raise AnalysisError(f"{m.relpath}: {lab}:{fname}: sentinel evaluation needs {ex}")
            if res[0] not in ("none", "raise"):
                bad.append((raw, combo, res))
    found = ""
    if bad:
        raw, combo, res = bad[0]
        val = float(res[1]) if res[0] == "num" else res[1:]
        found = f"raw code 0x{raw:X} (with neighbouring bits pattern {combo:#x}) decodes to {val} instead of absent; {len(bad)} of {tried} sentinel inputs are misread"
    ctx.check(not bad, R4, f"{lab}:{fname}:not-available", m, dnode, f"vendor not-available code ({na['desc']}) decodes to absent or is rejected, whatever the unrelated bits of the same bytes hold", found)
    # the converse: a code the vendor defines as a value is never turned into "absent" - whatever the rest of the record holds
    # (all other bits 0 / all other bits 1; fields the vendor makes the value depend on are set as required)
    width = len(field_bits)
    na_set = set(na["raw"])
    wit = [r for r in (0, 1, (1 << width) // 3, (1 << (width - 1)) - 1, 100, 200) if 0 <= r < (1 << width) and r not in na_set][:4]
    lost = []
    for raw in wit:
        if "max_valid" in na and raw > na["max_valid"]:
            continue
        for fill in (0, 1):
            assign = dict(req)
            for i, p in enumerate(field_bits):
                assign[p] = (raw >> i) & 1

            def src2(name, k, assign=assign, fill=fill):
                p = abs_pos(name, k, smap)
                return assign.get(p, fill)

            try:
                res = absval.concretize(v, src2, ctx.repo)
            except absval.Undefined:
                continue
            if res[0] == "none":
                lost.append((raw, fill))
    ctx.check(not lost, R4, f"{lab}:{fname}:defined-codes-are-values", m, dnode, "a code the vendor defines as a value decodes to that value, whatever the other bits of the record hold (absent is for the not-available codes only)", f"raw code 0x{lost[0][0]:X} decodes to absent when the other bits of the record are all {lost[0][1]}" if lost else "")


# ------------------------------------------------------------------------------------------ R5 strides
def _record_exits(ctx, m, cls, msgcls):
    ci = m.get_class(cls)
    ctx.require(ci is not None and "decode" in ci.methods, f"{m.relpath}: {cls}.decode vanished")
    fn = ci.methods["decode"]
    ctx.fn(m, f"{cls}.decode")
    ps = [a.arg for a in fn.args.args]
    ctx.require(len(ps) == 3, f"{m.relpath}: {cls}.decode(self, buffer, header) expected")
    eng = OF.Offsets(ctx.repo, m, fn, ps[1], ps[2], ci)
    exits = [OF.simplify_exit(e) for e in eng.analyse()]
    msgs = _message_exits(exits, msgcls)
    ctx.require(msgs, f"{m.relpath}: {cls}.decode returns no {msgcls}")
    out = []
    for ex, f in msgs:
        accs = [v.name for v in f.values() if isinstance(v, OF.Acc)]
        loops = [e for e in ex.emits if isinstance(e, OF.Loop) and any(x[0] in accs for x in e.emits)]
        direct = [e for e in ex.emits if isinstance(e, tuple) and e[0] in accs]
        out.append((ex, loops, direct))
    return fn, out


def _fmt_of(ctx, m, name):
    st = ctx.repo.try_fold(m, m.get_const_expr(name))
    ctx.require(isinstance(st, StructVal), f"{m.relpath}: {name} is not a foldable struct")
    return st


def r5(ctx):
    """Record positions, decided in the buffer-offset domain (sa/offsets.py): which bytes each iteration reads, how many iterations,
    and which lengths are rejected - however the loop is written (re-slicing, running offset, index * stride, comprehension)."""
    R = "C05.R5"
    # AT5: RC records, record k at k * RL (the announced stride), RL below the known layout is rejected
    for mod, cls, msgcls, layout in (
        ("xC021_zone_status", "ZoneStatusDecoder", "ZoneStatusMessage", [("_STRUCT", 0)]),
        ("xC023_ac_status", "AcStatusDecoder", "AcStatusMessage", [("_STRUCT", 0)]),
        ("xC033_ac_timer_status", "AcTimerStatusDecoder", "AcTimerStatusMessage", [("_TIMER_STATE_STRUCT", 1), ("_TIMER_STATE_STRUCT", 3)]),
    ):
        m = ctx.repo.module(f"pyairtouch.at5.comms.{mod}")
        lab = f"at5.{mod}.{cls}"
        fn, paths = _record_exits(ctx, m, cls, msgcls)
        size = ctx.repo.try_fold(m, m.get_const_expr("_TIMER_STATUS_REPEAT_SIZE")) if mod == "xC033_ac_timer_status" else _fmt_of(ctx, m, "_STRUCT").size
        ctx.require(isinstance(size, int), f"{m.relpath}: record size not foldable")
        want_reads = sorted((_fmt_of(ctx, m, nm).fmt, OF.lfmt(OF.L((1, "RL*k"), off))) for nm, off in layout)
        lb = OF.cfmt(OF.mk_cmp(">=", OF.ls("RL"), OF.lc(size)))
        for ex, loops, direct in paths:
            cs = _conds(ex)
            ok = len(loops) == 1 and not direct and loops[0].count is not None and OF.lfmt(loops[0].count) == "RC"
            ctx.check(ok, R, f"{lab}:loop", m, fn, "one record per announced repeat (repeat_count iterations, nothing stored outside the loop)", f"{len(loops)} loops, count {OF.lfmt(loops[0].count) if loops and loops[0].count is not None else None}; when {cs}"[:300])
            if not ok:
                continue
            reads = sorted((e[1], repr(e[2])) for e in loops[0].emits if e[0] == "read")
            ctx.check(reads == want_reads, R, f"{lab}:stride", m, fn, f"record k is read at k * repeat_length (the announced stride): {want_reads}", str(reads))
            ctx.check(lb in cs, R, f"{lab}:stride-lower-bound", m, fn, f"repeat_length < {size} raises DecodeError before any record is read (every decoding path has `{lb}`)", f"path conditions {cs}"[:300])
    # AT4: fixed record size S, message_length // S records at S*k, length must be a multiple of S
    for gen_, mod, cls, msgcls, layout in (
        ("at4", "x2B_group_status", "GroupStatusDecoder", "GroupStatusMessage", [("_STRUCT", 0)]),
        ("at4", "x2D_ac_status", "AcStatusDecoder", "AcStatusMessage", [("_STRUCT", 0)]),
        ("at4", "x37_ac_timer_status", "AcTimerStatusDecoder", "AcTimerStatusMessage", [("_TIMER_STATE_STRUCT", 0), ("_TIMER_STATE_STRUCT", 2)]),
        ("at5", "x1FFF11_ac_ability", "AcAbilityDecoder", "AcAbilityMessage", [("_STRUCT", 0)]),
    ):
        m = ctx.repo.module(f"pyairtouch.{gen_}.comms.{mod}")
        fn, paths = _record_exits(ctx, m, cls, msgcls)
        size = ctx.repo.try_fold(m, m.get_const_expr("_TIMER_STATUS_REPEAT_SIZE")) if mod == "x37_ac_timer_status" else _fmt_of(ctx, m, "_STRUCT").size
        ctx.require(isinstance(size, int), f"{m.relpath}: record size not foldable")
        want_reads = sorted((_fmt_of(ctx, m, nm).fmt, OF.lfmt(OF.L((size, "k"), off))) for nm, off in layout)
        mult = f"mod(ML,{size}) == 0"
        for ex, loops, direct in paths:
            cs = _conds(ex)
            cnt = OF.lfmt(loops[0].count) if len(loops) == 1 and loops[0].count is not None else None
            reads = sorted((e[1], repr(e[2])) for e in loops[0].emits if e[0] == "read") if len(loops) == 1 else None
            ok = len(loops) == 1 and not direct and mult in cs and cnt in (f"1/{size}*ML", f"fd(ML,{size})") and reads == want_reads
            ctx.check(ok, R, f"{gen_}.{mod}.{cls}:records", m, fn, f"message_length / {size} records, record k read at {size}*k ({want_reads}); a length that is not a multiple of {size} is rejected", f"count {cnt}, reads {reads}, when {cs}"[:300])


# ------------------------------------------------------------------------------------------ R6 strings
def _offset_exits(ctx, m, cls):
    """exits of <cls>.decode in the buffer-offset domain (sa/offsets.py), equalities of the path conditions applied"""
    ci = m.get_class(cls)
    ctx.require(ci is not None and "decode" in ci.methods, f"{m.relpath}: {cls}.decode vanished")
    fn = ci.methods["decode"]
    ctx.fn(m, f"{cls}.decode")
    ps = [a.arg for a in fn.args.args]
    ctx.require(len(ps) == 3, f"{m.relpath}: {cls}.decode(self, buffer, header) expected")
    eng = OF.Offsets(ctx.repo, m, fn, ps[1], ps[2])
    return fn, [OF.simplify_exit(e) for e in eng.analyse()]


def _message_exits(exits, cls):
    out = []
    for ex in exits:
        v = ex.value
        if ex.kind == "return" and isinstance(v, OF.Obj) and isinstance(v.fields.get("message"), OF.Obj) and v.fields["message"].cls == cls:
            out.append((ex, v.fields["message"].fields))
    return out


def _conds(ex):
    return [OF.cfmt(c) for c in ex.conds]


def console_version_refuses_nothing(ctx, R="C05.R6"):
    """The version strings are free text (the documents show examples, no grammar): the decoder splits them and judges nothing.
    A decoder that refuses "1.3.0-rc1" turns every heartbeat answer of such a console into a connection reset."""
    for gen in ("at4", "at5"):
        m = ctx.repo.module(f"pyairtouch.{gen}.comms.x1FFF30_console_ver")
        ci = m.get_class("ConsoleVersionDecoder")
        ctx.require(ci is not None and "decode" in ci.methods, f"{m.relpath}: ConsoleVersionDecoder.decode vanished")
        rs = [x for x in walk_no_nested(ci.methods["decode"]) if isinstance(x, ast.Raise)]
        ctx.check(not rs, R, f"{gen}:ConsoleVersionDecoder:refuses-nothing", m, (rs[0] if rs else ci.methods["decode"]), "decode() raises nothing of its own: any version text is passed on", f"`{norm_text(rs[0])[:70]}`" if rs else "")


def r6(ctx):
    R = "C05.R6"
    console_version_refuses_nothing(ctx, R)
    for gen, sep in (("at4", "|"), ("at5", ",")):
        m = ctx.repo.module(f"pyairtouch.{gen}.comms.x1FFF30_console_ver")
        v = ctx.repo.try_fold(m, m.get_const_expr("VERSION_SEP"))
        ctx.check(v == sep, R, f"{gen}:VERSION_SEP", m, m.assign_nodes["VERSION_SEP"], repr(sep), repr(v))
        fn, exits = _offset_exits(ctx, m, "ConsoleVersionDecoder")
        msgs = _message_exits(exits, "ConsoleVersionMessage")
        ctx.require(msgs, f"{m.relpath}: ConsoleVersionDecoder.decode returns no ConsoleVersionMessage")
        want = {"update_available": "b@(0) != 0", "versions": f"utf8(buffer[2:b@(1) + 2]).split({sep!r})"}
        for ex, f in msgs:
            got = {k: repr(x) for k, x in f.items()}
            ctx.check(got == want, R, f"{gen}:ConsoleVersionDecoder", m, fn, "update flag = byte 0 != 0; versions = bytes[2 : 2 + byte 1] decoded as UTF-8 and split at VERSION_SEP", f"{got} when {_conds(ex)}")
        em = ctx.repo.module(f"pyairtouch.{gen}.comms.x1FFF10_err_info")
        fn, exits = _offset_exits(ctx, em, "AcErrorInformationDecoder")
        msgs = _message_exits(exits, "AcErrorInformationMessage")
        ctx.require(msgs, f"{em.relpath}: AcErrorInformationDecoder.decode returns no AcErrorInformationMessage")
        seen = set()
        for ex, f in msgs:
            got = {k: repr(x) for k, x in f.items()}
            cs = _conds(ex)
            ok = got.get("ac_number") == "b@(0)" and set(got) == {"ac_number", "error_info"}
            if got.get("error_info") == "None":
                ok = ok and "b@(1) == 0" in cs
                seen.add("none")
            else:
                ok = ok and got.get("error_info") == "utf8(buffer[2:b@(1) + 2])" and "b@(1) != 0" in cs
                seen.add("text")
            ctx.check(ok, R, f"{gen}:AcErrorInformationDecoder", em, fn, "AC = byte 0; text = bytes[2 : 2 + byte 1] decoded as UTF-8 exactly when byte 1 != 0, None when it is 0", f"{got} when {cs}")
        ctx.check(seen == {"none", "text"}, R, f"{gen}:AcErrorInformationDecoder:both-cases", em, fn, "an error text when the length byte is non-zero and None when it is zero", str(sorted(seen)))
    # fixed-length C strings
    em = ctx.repo.module("pyairtouch.comms.encoding")
    fn = em.get_function("decode_c_string")
    from ..minieval import Mini, Unsupported

    bad = None
    pv = fn.args.args[0].arg
    for raw in (b"Bed\0\0\0\0\0", b"Bedroom1", b"Bed\0room", b"\0abc", b"", b"caf\xc3\xa9\0\0", b"Daikin\0Upstairs\0", b"\0\0\0"):
        want = raw.split(b"\0", 1)[0].decode("utf-8")
        try:
            got = Mini(ctx.repo, em, {}).function_value(fn, {pv: raw})
        except Unsupported as ex:
            raise AnalysisError(f"{em.relpath}: decode_c_string left the evaluable fragment: {ex}")
        if got != want:
            bad = f"decode_c_string({raw!r}) = {got!r}, expected {want!r}"
            break
    ctx.check(bad is None, R, "encoding.decode_c_string", em, fn, "everything before the first NUL, decoded as UTF-8 (8 witnesses, stale bytes after the terminator included)", bad or "")
    # name bytes that are not UTF-8 have no reading: the payload is rejected, never decoded to the text of different bytes
    bad = None
    for raw in (b"Bedroom\xc3", b"Caf\xe9 1\0\0", b"\x80abc", b"ab\xff\0cd"):
        try:
            got = Mini(ctx.repo, em, {}).function_value(fn, {pv: raw})
        except Unsupported as ex:
            raise AnalysisError(f"{em.relpath}: decode_c_string left the evaluable fragment: {ex}")
        if not (isinstance(got, tuple) and len(got) == 2 and got[0] == "raise"):
            bad = f"decode_c_string({raw!r}) = {got!r}, expected a decoding error"
            break
    ctx.check(bad is None, R, "encoding.decode_c_string:strict", em, fn, "bytes before the first NUL that are not valid UTF-8 are refused (4 witnesses: truncated character, Latin-1 byte, lone continuation byte, 0xFF)", bad or "")
    from ..q import iter_functions
    from ..model import walk_no_nested as _wnn

    lenient = []
    for mm in ctx.repo.modules.values():
        if ".comms" not in mm.name:
            continue
        for qual, f_ in iter_functions(mm):
            for n_ in _wnn(f_):
                if isinstance(n_, ast.Call) and isinstance(n_.func, ast.Attribute) and n_.func.attr == "decode" and (any(k.arg == "errors" for k in n_.keywords) or (len(n_.args) >= 2 and not isinstance(n_.args[0], (ast.Name,)) and isinstance(n_.args[1], ast.Constant) and isinstance(n_.args[1].value, str))):
                    lenient.append((mm, qual, n_))
    ctx.check(not lenient, R, "comms:text-is-decoded-strictly", lenient[0][0] if lenient else em, lenient[0][2] if lenient else None, "no bytes-to-text conversion in the codecs passes an error handler (errors=...): undecodable text rejects the payload", "; ".join(f"{mm.relpath}:{q}: {norm_text(n_)[:60]}" for mm, q, n_ in lenient[:3]))
    enc = ctx.repo.try_fold(em, em.get_const_expr("STRING_ENCODING"))
    ctx.check(enc == "utf-8", R, "encoding.STRING_ENCODING", em, em.assign_nodes["STRING_ENCODING"], "'utf-8'", repr(enc))
    gm = ctx.repo.module("pyairtouch.at4.comms.x1FFF12_group_names")
    fn, exits = _offset_exits(ctx, gm, "GroupNamesDecoder")
    msgs = _message_exits(exits, "GroupNamesMessage")
    ctx.require(msgs, f"{gm.relpath}: GroupNamesDecoder.decode returns no GroupNamesMessage")
    for ex, f in msgs:
        acc = f.get("group_names")
        mine = [e for e in ex.emits if (isinstance(e, OF.Loop) and any(a == getattr(acc, "name", None) for a, _, _ in e.emits)) or (isinstance(e, tuple) and e[0] == getattr(acc, "name", None))]
        cs = _conds(ex)
        ok = isinstance(acc, OF.Acc) and len(mine) == 1 and isinstance(mine[0], OF.Loop)
        desc = repr(mine)[:300]
        if ok:
            lp = mine[0]
            cnt = OF.lfmt(lp.count) if lp.count is not None else None
            ok = lp.kind == "for" and (cnt == "fd(ML,9)" or (cnt == "1/9*ML" and "mod(ML,9) == 0" in cs)) and [(repr(k), repr(v)) for _, k, v in lp.emits] == [("b@(9*k)", "cstr(buffer[9*k + 1:9*k + 9])")]
        ctx.check(ok, R, "at4:GroupNamesDecoder:records", gm, fn, "record k of message_length // 9: group number = byte 9k, name = C string of bytes 9k+1 .. 9k+8", f"{desc} when {cs}")
    zm = ctx.repo.module("pyairtouch.at5.comms.x1FFF13_zone_names")
    fn, exits = _offset_exits(ctx, zm, "ZoneNamesDecoder")
    msgs = _message_exits(exits, "ZoneNamesMessage")
    ctx.require(msgs, f"{zm.relpath}: ZoneNamesDecoder.decode returns no ZoneNamesMessage")
    for ex, f in msgs:
        acc = f.get("zone_names")
        mine = [e for e in ex.emits if (isinstance(e, OF.Loop) and any(a == getattr(acc, "name", None) for a, _, _ in e.emits)) or (isinstance(e, tuple) and e[0] == getattr(acc, "name", None))]
        cs = _conds(ex)
        ok = isinstance(acc, OF.Acc) and len(mine) == 1 and isinstance(mine[0], OF.Loop)
        lp = mine[0] if ok else None
        if ok:
            ok = (lp.kind == "while" and lp.head is not None and OF.cfmt(lp.head) == "-1*ML + p < 0" and {k: OF.lfmt(v) for k, v in lp.init.items()} == {"p": "0"}
                  and {k: OF.lfmt(v) for k, v in lp.stride.items()} == {"p": "b@(p + 1) + 2"}
                  and [(repr(k), repr(v)) for _, k, v in lp.emits] == [("b@(p)", "utf8(buffer[p + 2:b@(p + 1) + p + 2])")])
        ctx.check(ok, R, "at5:ZoneNamesDecoder:records", zm, fn, "from position 0 while position < message_length: zone = byte p, length = byte p+1, name = UTF-8 of bytes p+2 .. p+2+length; next record at p+2+length", f"{mine!r} when {cs}"[:400])
        bounded = lp is not None and any("ML - 1*b@(p + 1) - 1*p - 2 < 0" in [OF.cfmt(c) for c in r] and len(r) == 1 for r in lp.raises)
        ctx.check(bounded, R, "at5:ZoneNamesDecoder:bounded", zm, fn, "a name running past the announced length raises DecodeError", f"raises in the loop: {[[OF.cfmt(c) for c in r] for r in lp.raises] if lp else None}")
    # ability names
    for gen in ("at4", "at5"):
        am = ctx.repo.module(f"pyairtouch.{gen}.comms.x1FFF11_ac_ability")
        f = am.get_class("AcAbilityDecoder").methods["decode"]
        ok = any(isinstance(k, ast.keyword) and k.arg == "ac_name" and norm_text(k.value) == "encoding.decode_c_string(ac_name_raw)" for k in ast.walk(f))
        st = ctx.repo.try_fold(am, am.get_const_expr("_STRUCT"))
        name_slot = st.slots[2] if st else None
        ctx.check(ok and name_slot is not None and name_slot.code == "s" and name_slot.size == 16 and name_slot.offset == 2, R, f"{gen}:AcAbilityDecoder:name", am, f, "ac_name = C string of the 16 bytes at offset 2", f"slot {name_slot}")
