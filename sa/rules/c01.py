"""C01 - accepted commands reach the wire once each, in order, unsubstituted (structural clauses)."""
from __future__ import annotations

import ast

from ..model import AnalysisError, NotConst, dotted, norm_text, unparse, walk_no_nested
from ..q import NONEXC, Fn, attr_uses, flatten_add, package_calls
from .common import SOCKET, SOCK_CLS, fn_of, queue_ref, sock_fn

LEVEL = "other"
EXPLANATION = (
    'Static analysis (ast + CFG with exception edges + reaching definitions) of pyairtouch/comms/socket.py and both registries: R1 value provenance of what '
    'is queued/written (reaching definitions, local expansion), R2 who-may-mutate the pending queue and at which end, R3 drain triggers (post-dominance / '
    'who-may-call), R4 frame atomicity (no await between the writes, encode before first write, write order), R5 every _MessageQueueEntry construction is a '
    'submission or a faithful re-queue (nothing raises after the append, so a rejected send is never transmitted; R2 also: the queue is cleared only once '
    'the socket is no longer open), R6 packet counter stays inside its header slot and runs 0..limit-1 round (bounded evaluation of __init__ + '
    "create_from_message by the checker's own interpreter until the counter state repeats; the slot is read off the header bytes as the encoder builds "
    'them). These are necessary conditions of the history property; the interleaving/timing clauses are not decided.'
    ' Added later: R3 also demands that any entry condition of the drain other than `is_connected` (a re-entrancy flag) is released on every exit, cancellation included; R7 (C07.R9 re-used): while is_connected holds a writer is stored at every suspension point, so a popped message always finds a stream.'
    ' Rounds 7-8: R4 also: no timer (asyncio.timeout / wait_for) around the write - only the stream reports a failed write; R5 also: every accepted message is enqueued and every entry that passes the capacity test is appended (no de-duplication or shortcut); R8 the bytes handed to the stream are owned by their frame (C05.R7 aliasing clauses re-used).'
    ' Rounds 9-10: R10 (C16.R1/R2 re-used): a held message leaves the queue only by being written, by its own expiry or by the explicit overflow error (the purge deletes exactly the expired entries, the deque has no maxlen); R11 an encoding error does not end the flush (D15); R12 the connection is re-tested before every popleft(), from the start of the drain and after every suspension inside it (D16).'
)
ASSUMPTIONS = [
    "asyncio runs a task without interleaving between two awaits (cooperative scheduling)",
    "collections.deque append/appendleft/popleft have their documented end-of-queue semantics",
    "StreamWriter.write buffers bytes in call order",
]
FLOORS = {"C01.R1": 7, "C01.R2": 5, "C01.R3": 4, "C01.R4": 4, "C01.R5": 2, "C01.R6": 2, "C01.R7": 1, "C01.R8": 1, "C01.R9": 1, "C01.R10": 1, "C01.R11": 1, "C01.R12": 1}

QUEUE_READ_OK = {"len", "bool", "reversed", "list", "tuple", "iter", "enumerate"}
MUTATORS = {"append", "appendleft", "pop", "popleft", "insert", "extend", "extendleft", "clear", "rotate", "remove", "reverse", "sort", "__setitem__", "__delitem__"}


def run(ctx):
    from .common import reuse
    from . import c05

    reuse(ctx, "C01.R8", [lambda c: c05.r7(c, only=("hdr", "comms.x"))], "the bytes handed to the stream are owned by that frame: encoders build fresh objects, no buffer kept on a shared codec object is rewritten while an earlier frame still waits in the transport (C05.R7)",
          keep=lambda o: "codec-objects" in o.construct or "shared-mutable" in o.construct or o.verdict != "HOLDS")
    r1(ctx)
    r2(ctx)
    r3(ctx)
    r4(ctx)
    r5(ctx)
    r6(ctx)
    r11(ctx)
    r12(ctx)
    from . import c07
    from .common import reuse

    from . import c02

    reuse(ctx, "C01.R9", [c02.r2], "a message lives exactly as long as its own policy says: expiry = acceptance time + retry_policy.max_lifetime, copied unchanged, tested strictly before the write (C02.R2)")
    from . import c16

    def _c16_queue(c):
        enq = sock_fn(c, "_enqueue_message")
        c16.r1(c, enq, c16.r2(c, enq))

    reuse(ctx, "C01.R10", [_c16_queue], "a held message leaves the queue only by being written, by its own expiry or by the explicit overflow error at acceptance: the purge deletes exactly the expired entries and the container discards nothing on its own (C16.R1/R2)",
          keep=lambda o: "purge" in o.construct or "unbounded" in o.construct or o.verdict != "HOLDS")
    reuse(ctx, "C01.R7", [c07.r9], "while is_connected is True a writer is stored whenever another task can run, so the drain never pops a message for which _write finds no stream (C07.R9)",
          keep=lambda o: o.construct.startswith("coherence:connected-implies-writer") or o.construct.startswith("coherence:__init__"))


# ------------------------------------------------------------------------------------------ R1
def popped_entry_var(ctx, drain: Fn):
    """The local bound by `self._message_queue.popleft()` in _drain_message_queue -> (name, def node)."""
    pops = drain.calls("_message_queue.popleft")
    ctx.require(len(pops) >= 1 or True, "")
    for n, call in pops:
        a = n.ast
        if isinstance(a, ast.Assign) and len(a.targets) == 1 and isinstance(a.targets[0], ast.Name) and a.value is call:
            return a.targets[0].id, n
    return None, None


def r1(ctx):
    R = "C01.R1"
    enq = sock_fn(ctx, "_enqueue_message")
    m = enq.module
    # (a) what is appended is the parameter
    apps = enq.calls("_message_queue.append")
    if not apps:
        ctx.violation(R, "_enqueue_message:append", m, enq.node, "the new entry is appended to the tail of the pending queue", "no _message_queue.append(...) call")
    for n, call in apps:
        arg = call.args[0] if call.args else None
        ok = isinstance(arg, ast.Name) and enq.is_param(arg.id, n)
        found = ""
        if isinstance(arg, ast.Name) and not ok:
            ds = enq.defs_reaching(arg.id, n)
            found = f"'{arg.id}' may have been rebound at " + ", ".join(f"line {d.lineno} ({norm_text(d.ast)[:60]})" if d.ast is not None else d.kind for d in ds)
        elif not ok:
            found = f"append({unparse(arg) if arg is not None else ''})"
        ctx.check(ok, R, "_enqueue_message:append(entry)", m, call, "the only definition reaching the appended name is the function parameter", found)

        # a rejected submission must not be held: nothing raises after the append
        after = [enq.cfg.nodes[i] for i in enq.cfg.reachable(n.id, labels=None) if i != n.id]
        raises = [x for x in after if x.kind == "stmt" and isinstance(x.ast, ast.Raise)]
        ctx.check(not raises, R, "_enqueue_message:no-raise-after-append", m, (raises[0].ast if raises else call), "once the entry is appended _enqueue_message returns normally (a message whose send() raised is never transmitted)", f"raise at line {raises[0].lineno} is reachable after the append: the caller is told the message was refused, yet it stays queued and is sent later" if raises else "")

    # (b) send_with_header builds the entry from its own parameters
    swh = sock_fn(ctx, "send_with_header")
    cons = swh.calls("_MessageQueueEntry")
    enq_calls = swh.calls("_enqueue_message")
    if not cons or not enq_calls:
        ctx.violation(R, "send_with_header:entry", m, swh.node, "send_with_header builds a _MessageQueueEntry and passes it to _enqueue_message", "construction or enqueue call missing")
    for n, call in cons:
        vals = {kw.arg: kw.value for kw in call.keywords}
        fields = ["header", "message", "retries_remaining", "expiry"]
        for i, a in enumerate(call.args):
            vals[fields[i]] = a
        for fld in ("header", "message"):
            v = vals.get(fld)
            ok = isinstance(v, ast.Name) and v.id == fld and swh.is_param(fld, n)
            ctx.check(ok, R, f"send_with_header:entry.{fld}", m, call, f"_MessageQueueEntry.{fld} is the parameter '{fld}'", unparse(v) if v is not None else "missing")
    for n, call in enq_calls:
        arg = call.args[0] if call.args else None
        exp = swh.expand(arg, n) if arg is not None else None
        ok = isinstance(exp, ast.Call) and (dotted(exp.func) or "").endswith("_MessageQueueEntry")
        ctx.check(ok, R, "send_with_header:enqueue(arg)", m, call, "the entry handed to _enqueue_message is the one built from the parameters", unparse(arg) if arg is not None else "no argument")

    # (c) send: header computed for this very message with the encoder's size
    send = sock_fn(ctx, "send")
    calls = send.calls("send_with_header")
    if not calls:
        ctx.violation(R, "send:delegate", m, send.node, "send() delegates to send_with_header", "no call")
    for n, call in calls:
        hdr = call.args[0] if call.args else next((k.value for k in call.keywords if k.arg == "header"), None)
        msg = call.args[1] if len(call.args) > 1 else next((k.value for k in call.keywords if k.arg == "message"), None)
        ok_msg = isinstance(msg, ast.Name) and send.is_param(msg.id, n) and msg.id == "message"
        ctx.check(ok_msg, R, "send:message", m, call, "the message forwarded is the parameter", unparse(msg) if msg is not None else "missing")
        ht = send.expand_text(hdr, n) if hdr is not None else ""
        want = "self._registry.header_factory.create_from_message(message, self._registry.get_encoder(message.message_id).size(message))"
        he = send.expand(hdr, n) if hdr is not None else None
        if isinstance(he, ast.Call) and dotted(he.func) == "self._registry.header_factory.create_from_message" and he.keywords and all(k.arg in ("message", "message_length") for k in he.keywords) and len(he.args) + len(he.keywords) == 2:
            # keyword spelling of the same call: bound through the factory protocol's parameter names
            bound = {"message": he.args[0]} if he.args else {}
            bound.update({k.arg: k.value for k in he.keywords})
            if set(bound) == {"message", "message_length"}:
                ht = f"self._registry.header_factory.create_from_message({norm_text(bound['message'])}, {norm_text(bound['message_length'])})"
        ctx.check(ht == want, R, "send:header", m, call, want, ht)

    # (d) drain writes header and message of the one popped entry
    drain = sock_fn(ctx, "_drain_message_queue")
    var, defnode = popped_entry_var(ctx, drain)
    writes = drain.calls("self._write")
    if not writes:
        ctx.violation(R, "_drain_message_queue:_write", m, drain.node, "the popped entry is written", "no self._write(...) call")
    for n, call in writes:
        args = list(call.args)
        if call.keywords and not any(isinstance(a, ast.Starred) for a in call.args):
            # keyword spelling: bound through the parameter names of _write
            wnode = ctx.repo.module(SOCKET).get_class(SOCK_CLS).methods.get("_write")
            pnames = [a.arg for a in wnode.args.args[1:]] if wnode is not None else []
            bound = dict(zip(pnames, call.args))
            bound.update({k.arg: k.value for k in call.keywords if k.arg})
            if pnames and set(bound) == set(pnames):
                args = [bound[p_] for p_ in pnames]
        ok = (
            var is not None
            and len(args) == 2
            and all(isinstance(a, ast.Attribute) and isinstance(a.value, ast.Name) and a.value.id == var for a in args)
            and args[0].attr == "header"
            and args[1].attr == "message"
        )
        if ok:
            ds = drain.defs_reaching(var, n)
            ok = len(ds) == 1 and ds[0] is defnode
        found = f"_write({', '.join(unparse(a) for a in args)})" + ("" if var else "; no local is bound by _message_queue.popleft()")
        ctx.check(ok, R, "_drain_message_queue:_write(entry.header, entry.message)", m, call, "both arguments are attributes of the single local bound by popleft() in this iteration", found)
        if ok:
            aw = drain.awaits_between(defnode, n)
            ctx.check(not aw, R, "_drain_message_queue:pop-then-write", m, call, "no suspension between removing the entry and writing it", f"await at line {aw[0].lineno}" if aw else "")

    # (e) _write: bytes come from this header and this message
    w = sock_fn(ctx, "_write")
    wcalls = [(n, c) for n, c in w.calls("_writer.write")] + [(n, c) for n, c in w.calls("_writer.writelines")]
    pieces = []
    for n, c in wcalls:
        for a in c.args:
            e = w.expand(a, n)
            elts = e.elts if isinstance(e, (ast.List, ast.Tuple)) else [e]
            for el in elts:
                pieces += [norm_text(x) for x in flatten_add(el)]
    hdr_enc = "self._registry.header_encoder.encode(header)"
    msg_enc = "self._registry.get_encoder(message.message_id).encode(header, message)"
    want = [f"{hdr_enc}.header_bytes", msg_enc, f"self._registry.checksum_calculator.calculate({hdr_enc}.checksum_data + {msg_enc})"]
    ctx.check(pieces == want, R, "_write:written-bytes", m, w.node, " ; ".join(want), " ; ".join(pieces) or "no writes")


# ------------------------------------------------------------------------------------------ R2
def r2(ctx):
    R = "C01.R2"
    uses = attr_uses(ctx.repo, "_message_queue")
    ctx.require(uses, "no use of _message_queue found")
    seen = {"append": 0, "popleft": 0, "appendleft": 0, "del": 0}
    for m, qual, node, parent in uses:
        where = f"{qual}"
        # method call on the queue
        if isinstance(parent, ast.Attribute) and parent.value is node:
            meth = parent.attr
            if meth in MUTATORS or meth not in ("copy", "count", "index", "maxlen"):
                allowed = {
                    "append": f"{SOCK_CLS}._enqueue_message",
                    "popleft": f"{SOCK_CLS}._drain_message_queue",
                    "appendleft": f"{SOCK_CLS}._drain_message_queue",
                }
                ok = meth in allowed and qual == allowed[meth] and m.name == SOCKET
                if meth == "clear" and m.name == SOCKET and qual in (f"{SOCK_CLS}.close", f"{SOCK_CLS}.open_socket"):
                    # discarding what is pending when the client stops being open (C15.R5): not a loss "while the client is open"
                    f = sock_fn(ctx, qual.split(".")[-1])
                    at = [n for n, c in f.calls("self._message_queue.clear")]
                    if qual.endswith(".close"):
                        gates = [n for n, v in f.assigns("self.is_open") if isinstance(v, ast.Constant) and v.value is False]
                        ok = bool(at) and all(any(f.cfg.dominates(gt.id, a.id) for gt in gates) for a in at)
                        # ... and in the same step: across an await the socket may have been re-opened and have accepted messages
                        susp = [n2 for a in at for gt in gates if f.cfg.dominates(gt.id, a.id) for n2 in f.awaits_between(gt, a)]
                        why = "clear() while the socket is open loses accepted messages"
                        if ok and susp:
                            ok, why = False, f"close() suspends (line {susp[0].lineno}) between marking the socket not open and clearing the queue: a re-open during that await accepts messages that are then wiped"
                    else:
                        ts = f.tests(lambda e: dotted(e) == "self.is_open")
                        ok = bool(at) and bool(ts) and all(any(f.cfg.dominates(f.branch(t, "false").id, a.id) for t in ts) for a in at)
                        why = "clear() while the socket is open loses accepted messages"
                        if ok:
                            susp = [n2 for a in at for t in ts for n2 in f.awaits_between(t, a)]
                            if susp:
                                ok, why = False, "open_socket() suspends between the not-open test and clearing the queue"
                    ctx.check(ok, R, f"{where}:_message_queue.clear", m, parent, "pending messages are discarded only once the socket is no longer open and before anything is awaited (close() right after is_open = False, or open_socket() on a closed socket)", why)
                    continue
                if ok:
                    seen[meth] += 1
                ctx.check(ok, R, f"{where}:_message_queue.{meth}", m, parent, "queue mutated only by append (enqueue, tail), popleft (drain, head), appendleft (drain re-queue, head)", f"{meth}() in {m.relpath}:{qual}")
            continue
        # subscript: load is fine; store/del checked
        if isinstance(parent, ast.Subscript) and parent.value is node:
            if isinstance(parent.ctx, ast.Load):
                continue
            ok = isinstance(parent.ctx, ast.Del) and qual == f"{SOCK_CLS}._enqueue_message" and m.name == SOCKET
            if ok:
                seen["del"] += 1
            ctx.check(ok, R, f"{where}:_message_queue[...]{'=' if isinstance(parent.ctx, ast.Store) else ' del'}", m, parent, "entries are only deleted by the expiry purge in _enqueue_message", f"{type(parent.ctx).__name__} in {qual}")
            continue
        # (re)assignment of the attribute itself
        if isinstance(node.ctx, ast.Store):
            ok = qual.endswith(".__init__")
            ctx.check(ok, R, f"{where}:_message_queue=", m, node, "the queue object is created once in __init__", f"assigned in {qual}")
            continue
        if isinstance(node.ctx, ast.Del):
            ctx.violation(R, f"{where}:del _message_queue", m, node, "queue never deleted", "del")
            continue
        # passed to a call: only pure readers
        if isinstance(parent, ast.Call) and node in parent.args:
            fn = dotted(parent.func) or ""
            if fn not in QUEUE_READ_OK:
                ctx.violation(R, f"{where}:{fn}(_message_queue)", m, parent, "the queue is not handed to other code", f"passed to {fn}")
            continue
    for k in ("append", "popleft"):
        if seen[k] == 0:
            ctx.violation(R, f"queue:{k}", ctx.repo.module(SOCKET), None, f"_message_queue.{k} present at its owner", "absent")
    ctx.holds(R, "queue:mutator-census", ctx.repo.module(SOCKET), None, f"{len(uses)} uses of _message_queue classified; mutators: {seen}")


# ------------------------------------------------------------------------------------------ R3
def r11(ctx):
    """D15: a message that cannot be encoded is dropped - and the flush goes on.  From the handler of the encoding errors every
    normal path reaches the loop again or an awaited drain of the rest; otherwise the messages accepted behind the faulty one
    stay queued on a live connection until somebody happens to send again (and expire if nobody does)."""
    R = "C01.R11"
    drain = sock_fn(ctx, "_drain_message_queue")
    m, g = drain.module, drain.cfg
    hs = [h for h in drain.handlers() if any(t.split(".")[-1] in ("ValueError", "NotImplementedError") for t in h.meta["types"])]
    ctx.require(hs, "socket._drain_message_queue: no handler for encoding errors (ValueError / NotImplementedError)")
    pops = [n for n, c in drain.calls("_message_queue.popleft")]
    again = [n.id for n, c in drain.calls("self._drain_message_queue") if n.awaits] + [n.id for n in pops]
    for h in hs:
        ok = bool(again) and g.all_paths_pass(h.id, [g.exit.id], again, NONEXC)
        ctx.check(ok, R, "_drain_message_queue:encoding-error-does-not-end-the-flush", m, h.ast, "after an encoding error the rest of the queue is still flushed (the handler leads back to the loop or awaits a further drain)", "the handler falls out of the function: messages queued behind the unencodable one wait for the next send() or reconnect, and expire unsent if there is none")


def r12(ctx):
    """D16: a held message is taken out of the queue only while the connection it is to be written to still stands.  Between a
    suspension inside the flush (the awaited write: another task may reset the connection meanwhile, and a drain() paused by flow
    control returns normally on a local close) and the next popleft() the connection state is tested again; otherwise the popped
    message meets `_write` without a writer and is dropped as "unencodable" instead of waiting for the new connection."""
    R = "C01.R12"
    drain = sock_fn(ctx, "_drain_message_queue")
    m, g = drain.module, drain.cfg
    pops = [n for n, c in drain.calls("_message_queue.popleft")]
    ctx.require(pops, "socket._drain_message_queue: no popleft()")
    gates = [drain.branch(t, "true").id for t in drain.tests(lambda e: dotted(e) == "self.is_connected")]
    for t, present in drain.presence("self._writer"):
        gates.append(drain.branch(t, present).id)
    susp = [n for n in g.nodes if n.awaits and any(g.exists_path(n.id, p.id, labels=NONEXC) for p in pops)]
    bad = next(((a, p) for a in susp for p in pops if g.exists_path(a.id, p.id, avoid=set(gates), labels=NONEXC)), None)
    entry_ok = all(not g.exists_path(g.entry.id, p.id, avoid=set(gates), labels=NONEXC) for p in pops)
    ctx.check(bad is None and entry_ok and bool(gates), R, "_drain_message_queue:connection-retested-before-every-pop", m, pops[0].ast, "every way to popleft() - from the start of the drain and from each suspension inside it - passes a successful test of self.is_connected", (f"after `{norm_text(bad[0].ast)[:50]}` (line {bad[0].lineno}) the next message is popped without looking at the connection again" if bad else "the first pop is not guarded by the connection state"))


def r3(ctx):
    R = "C01.R3"
    swh = sock_fn(ctx, "send_with_header")
    m = swh.module
    enq = swh.calls("self._enqueue_message")
    drains = [n for n, c in swh.calls("self._drain_message_queue") if n.awaits]
    for n, call in enq:
        ok = bool(drains) and swh.cfg.all_paths_pass(n.id, [swh.cfg.exit.id], [d.id for d in drains], NONEXC)
        ctx.check(ok, R, "send_with_header:drain-after-enqueue", m, call, "every normal path from the enqueue to the return awaits _drain_message_queue()", "a path returns without draining" if drains else "no awaited drain")
    con = sock_fn(ctx, "_connect")
    sets = [n for n, v in con.assigns("self.is_connected") if isinstance(v, ast.Constant) and v.value is True]
    cdr = [n for n, c in con.calls("self._drain_message_queue") if n.awaits]
    if not sets:
        ctx.violation(R, "_connect:is_connected=True", m, con.node, "_connect marks the socket connected", "no assignment")
    for s in sets:
        ok = bool(cdr) and con.cfg.all_paths_pass(s.id, [con.cfg.exit.id], [d.id for d in cdr], NONEXC)
        ctx.check(ok, R, "_connect:drain-after-connect", m, s.ast, "every normal path after is_connected=True awaits _drain_message_queue()", "a path completes without draining" if cdr else "no awaited drain")
    # the drain itself starts whenever the socket is connected: any further entry condition on object state (a "draining"
    # flag) must be given back on every way out, cancellation included, or one cancelled write blocks every later drain
    dr = sock_fn(ctx, "_drain_message_queue", precise=True)
    g = dr.cfg
    wr = [n for n, c in dr.calls("self._write")]
    entry_flags = {}
    for t in dr.tests(lambda e: (dotted(e) or "").startswith("self.") and not isinstance(e, ast.Call)):
        d = dotted(t.ast)
        if d in ("self.is_connected", "self._message_queue") or d.startswith("self._message_queue"):
            continue
        for lab in ("true", "false"):
            if wr and all(g.dominates(dr.branch(t, lab).id, w.id) for w in wr):
                entry_flags[d] = lab
    bad = []
    for fl, lab in entry_flags.items():
        blocking = lab == "false"  # we proceed when the flag is false: a flag left True blocks
        setv, clrv = (True, False) if blocking else (False, True)
        sets = [n for n, v in dr.assigns(fl) if isinstance(v, ast.Constant) and v.value is setv]
        clears = [n for n, v in dr.assigns(fl) if isinstance(v, ast.Constant) and v.value is clrv]
        for sn in sets:
            if not (clears and g.all_paths_pass(sn.id, [g.exit.id, g.raise_exit.id], [c.id for c in clears], None)):
                bad.append((fl, sn))
    ctx.check(not bad, R, "_drain_message_queue:entry-condition", m, (bad[0][1].ast if bad else dr.node), "queued messages are written whenever the socket is connected; a re-entrancy flag tested on entry is released on every exit (finally), also when the write is cancelled", "; ".join(f"{fl} set at line {sn.lineno} is not released on every exit: after a cancelled or failing write nothing is ever drained again" for fl, sn in bad))
    # who-may-call
    callers = package_calls(ctx.repo, lambda d: d.endswith("._enqueue_message"))
    bad = [(mm, q, c) for mm, q, c in callers if not (mm.name == SOCKET and q == f"{SOCK_CLS}.send_with_header")]
    ctx.check(not bad and callers, R, "who-may-call:_enqueue_message", m, (bad[0][2] if bad else None), "only send_with_header enqueues", "; ".join(f"{mm.relpath}:{q}" for mm, q, _ in bad) or "no caller")
    callers = package_calls(ctx.repo, lambda d: d.endswith("._write") and d.startswith("self."))
    bad = [(mm, q, c) for mm, q, c in callers if mm.name == SOCKET and q != f"{SOCK_CLS}._drain_message_queue"]
    ctx.check(not bad and callers, R, "who-may-call:_write", m, (bad[0][2] if bad else None), "only _drain_message_queue writes frames", "; ".join(f"{mm.relpath}:{q}" for mm, q, _ in bad) or "no caller")


# ------------------------------------------------------------------------------------------ R4
def r4(ctx):
    R = "C01.R4"
    w = sock_fn(ctx, "_write")
    m = w.module
    wnodes = []
    for n, c in w.calls("_writer.write") + w.calls("_writer.writelines"):
        if n not in wnodes:
            wnodes.append(n)
    if not wnodes:
        ctx.violation(R, "_write:writes", m, w.node, "frame bytes are written", "no write call")
        return
    # order nodes by dominance
    wnodes.sort(key=lambda n: len(w.cfg.dominators().get(n.id, ())))
    chain_ok = all(w.cfg.dominates(wnodes[i].id, wnodes[i + 1].id) for i in range(len(wnodes) - 1))
    ctx.check(chain_ok, R, "_write:write-chain", m, wnodes[0].ast, "the writes of one frame form a straight-line sequence", "writes on alternative branches")
    first, last = wnodes[0], wnodes[-1]
    aw = [n for n in w.awaits_between(first, last)] + [n for n in wnodes[:-1] if n.awaits]
    ctx.check(not aw, R, "_write:no-await-between-writes", m, first.ast, "no suspension point between the first and the last write of a frame", f"await at line {aw[0].lineno}: {norm_text(aw[0].ast)[:70]}" if aw else "")
    # encode / checksum before the first write
    enc = w.calls("encode") + w.calls("calculate")
    late = [n for n, c in enc if not w.cfg.dominates(n.id, first.id)]
    ctx.check(bool(enc) and not late, R, "_write:encode-before-write", m, (late[0].ast if late else first.ast), "header/payload encoding and checksum are computed before the first byte is written", f"line {late[0].lineno} runs after a write" if late else "no encode call")
    # nobody else writes to the stream
    others = package_calls(ctx.repo, lambda d: d.endswith("_writer.write") or d.endswith("_writer.writelines") or d.endswith("writer.write"))
    bad = [(mm, q, c) for mm, q, c in others if not (mm.name == SOCKET and q == f"{SOCK_CLS}._write")]
    ctx.check(not bad, R, "who-may-call:writer.write", m, (bad[0][2] if bad else None), "only _write writes to the stream", "; ".join(f"{mm.relpath}:{q}" for mm, q, _ in bad))
    # a frame handed to the stream is never declared failed by a local timer: a timeout around drain() (TimeoutError is an
    # OSError) would send an already written frame through the re-queue path and transmit it twice
    timers = [(n, c) for fnm in ("_write", "_drain_message_queue") for n, c in sock_fn(ctx, fnm).calls_pred(lambda d: d in ("asyncio.timeout", "asyncio.timeout_at", "asyncio.wait_for"))]
    ctx.check(not timers, R, "_write:no-timer-around-the-write", m, (timers[0][1] if timers else None), "no asyncio.timeout / wait_for in _write or _drain_message_queue: only the stream itself reports a failed write", f"{norm_text(timers[0][1])[:60]} at line {timers[0][1].lineno}" if timers else "")

# ------------------------------------------------------------------------------------------ R5
def r5(ctx):
    R = "C01.R5"
    # accepted means queued: once _enqueue_message has passed the purge and the capacity test it appends the entry it was given;
    # there is no other way out (no de-duplication, no policy-dependent shortcut) - and send_with_header reaches the enqueue
    # whenever the socket is open
    enq_ = sock_fn(ctx, "_enqueue_message")
    ap_ = [n for n, c in enq_.calls("_message_queue.append")]
    ok = bool(ap_) and enq_.cfg.all_paths_pass(enq_.cfg.entry.id, [enq_.cfg.exit.id], [n.id for n in ap_], NONEXC)
    ctx.check(ok, R, "_enqueue_message:every-accepted-entry-is-queued", enq_.module, enq_.node, "every normal return of _enqueue_message has appended the entry (the only other exit is the overflow error)", "a path returns without queueing the message: it is accepted and never sent")
    swh_ = sock_fn(ctx, "send_with_header")
    en_ = [n for n, c in swh_.calls("self._enqueue_message")]
    ok = bool(en_) and swh_.cfg.all_paths_pass(swh_.cfg.entry.id, [swh_.cfg.exit.id], [n.id for n in en_], NONEXC)
    ctx.check(ok, R, "send_with_header:every-accepted-message-is-enqueued", swh_.module, swh_.node, "every normal return of send_with_header has enqueued the message (the only other exit is the not-open error)", "a path returns normally without enqueueing: the caller believes the message was accepted")
    cons = package_calls(ctx.repo, lambda d: d.split(".")[-1] == "_MessageQueueEntry")
    m = ctx.repo.module(SOCKET)
    ctx.require(cons, "no _MessageQueueEntry construction found")
    drain = sock_fn(ctx, "_drain_message_queue")
    var, _ = popped_entry_var(ctx, drain)
    for mm, qual, call in cons:
        if mm.name == SOCKET and qual == f"{SOCK_CLS}.send_with_header":
            ctx.holds(R, "construct:send_with_header", mm, call, "submission (fields checked by R1)")
            continue
        if mm.name == SOCKET and qual == f"{SOCK_CLS}._drain_message_queue":
            vals = {kw.arg: kw.value for kw in call.keywords}
            for i, a in enumerate(call.args):
                vals[["header", "message", "retries_remaining", "expiry"][i]] = a
            ok = True
            for fld in ("header", "message", "expiry"):
                v = vals.get(fld)
                ok = ok and isinstance(v, ast.Attribute) and v.attr == fld and isinstance(v.value, ast.Name) and v.value.id == var
            # must sit in the OSError handler
            inh = [h for h in drain.handlers() if any(n is call for s in h.ast.body for n in ast.walk(s))]
            ok = ok and any("OSError" in t for h in inh for t in h.meta.get("types", []))
            ctx.check(ok, R, "construct:_drain_message_queue(re-queue)", mm, call, "the re-queued entry copies header, message and expiry of the popped entry, inside the OSError handler", norm_text(call)[:160])
            continue
        ctx.violation(R, f"construct:{qual}", mm, call, "queue entries are only built for a submitted message or a faithful re-queue", f"_MessageQueueEntry built in {mm.relpath}:{qual}")


# ------------------------------------------------------------------------------------------ R6
class _Ret(Exception):
    def __init__(self, v):
        self.v = v


def _eval(e, env, repo, module):
    if isinstance(e, ast.Constant) and isinstance(e.value, (int, bool)):
        return e.value
    d = dotted(e)
    if d is not None:
        if d in env:
            return env[d]
        try:
            v = repo.fold(module, e)
        except NotConst:
            raise AnalysisError(f"{module.relpath}:{e.lineno}: cannot evaluate {unparse(e)} in _packet_id")
        if isinstance(v, int):
            return v
        raise AnalysisError(f"{module.relpath}:{e.lineno}: {unparse(e)} is not an int")
    if isinstance(e, ast.BinOp):
        a, b = _eval(e.left, env, repo, module), _eval(e.right, env, repo, module)
        op = type(e.op)
        try:
            return {ast.Add: lambda: a + b, ast.Sub: lambda: a - b, ast.Mult: lambda: a * b, ast.Mod: lambda: a % b, ast.FloorDiv: lambda: a // b, ast.BitAnd: lambda: a & b, ast.BitOr: lambda: a | b, ast.BitXor: lambda: a ^ b, ast.LShift: lambda: a << b, ast.RShift: lambda: a >> b}[op]()
        except KeyError:
            raise AnalysisError(f"operator {op.__name__} not modelled in _packet_id")
    if isinstance(e, ast.Compare) and len(e.ops) == 1:
        a, b = _eval(e.left, env, repo, module), _eval(e.comparators[0], env, repo, module)
        op = type(e.ops[0])
        return {ast.Lt: a < b, ast.LtE: a <= b, ast.Gt: a > b, ast.GtE: a >= b, ast.Eq: a == b, ast.NotEq: a != b}[op]
    if isinstance(e, ast.BoolOp):
        vals = [_eval(v, env, repo, module) for v in e.values]
        return all(vals) if isinstance(e.op, ast.And) else any(vals)
    if isinstance(e, ast.UnaryOp) and isinstance(e.op, ast.Not):
        return not _eval(e.operand, env, repo, module)
    if isinstance(e, ast.IfExp):
        return _eval(e.body if _eval(e.test, env, repo, module) else e.orelse, env, repo, module)
    raise AnalysisError(f"{module.relpath}:{getattr(e, 'lineno', 0)}: expression {unparse(e)} not modelled in _packet_id")


def _exec(stmts, env, repo, module):
    for s in stmts:
        if isinstance(s, ast.Expr) and isinstance(s.value, ast.Constant):
            continue
        if isinstance(s, ast.Assign) and len(s.targets) == 1 and dotted(s.targets[0]):
            env[dotted(s.targets[0])] = _eval(s.value, env, repo, module)
        elif isinstance(s, ast.AnnAssign) and s.value is not None and dotted(s.target):
            env[dotted(s.target)] = _eval(s.value, env, repo, module)
        elif isinstance(s, ast.AugAssign) and dotted(s.target):
            env[dotted(s.target)] = _eval(ast.BinOp(left=s.target, op=s.op, right=s.value), env, repo, module)
        elif isinstance(s, ast.If):
            _exec(s.body if _eval(s.test, env, repo, module) else s.orelse, env, repo, module)
        elif isinstance(s, ast.Return):
            raise _Ret(_eval(s.value, env, repo, module) if s.value is not None else None)
        elif isinstance(s, ast.Pass):
            pass
        else:
            raise AnalysisError(f"{module.relpath}:{s.lineno}: statement not modelled in _packet_id: {norm_text(s)[:60]}")


def _packet_slot_limit(ctx, hm):
    """(number of values, size in bytes) of the header slot that carries header.packet_id - read off the header bytes as the
    encoder builds them (one struct pack or several joined together)."""
    from .. import bits as B, codec
    packed, _, _ = codec.header_encoding(ctx.repo, hm)
    for sl, a in zip(packed.struct.slots, packed.args):
        if isinstance(a, B.BV) and a.sources() and all(n.endswith(".packet_id") for _, n, _ in a.sources()):
            return 256 ** sl.size, sl.size
    return None


def _packet_id_from_iterator(ctx, R, gen, m, hm, ci, init) -> bool:
    """Second accepted idiom for the packet counter: `next(self.<it>)` with `self.<it> = itertools.cycle(<constant sequence>)`
    set in __init__ - the values handed out are exactly that sequence, repeated."""
    cfm = ci.methods.get("create_from_message")
    if cfm is None:
        return False
    src = None
    for c in ast.walk(cfm):
        if isinstance(c, ast.Call):
            for k in c.keywords:
                if k.arg == "packet_id" and isinstance(k.value, ast.Call) and dotted(k.value.func) == "next" and len(k.value.args) == 1 and (dotted(k.value.args[0]) or "").startswith("self."):
                    src = dotted(k.value.args[0])
    if src is None:
        return False
    ctx.fn(m, "HeaderFactory.create_from_message")
    seq = None
    stores = [x for x in ast.walk(ci.node) if isinstance(x, (ast.Assign, ast.AnnAssign)) and any(dotted(t) == src for t in (x.targets if isinstance(x, ast.Assign) else [x.target]))]
    if len(stores) == 1 and any(stores[0] is x for x in ast.walk(init)):
        v = stores[0].value
        if isinstance(v, ast.Call) and ctx.repo.qual(m, v.func) == "itertools.cycle" and len(v.args) == 1:
            try:
                seq = ctx.repo._fold_iter(m, v.args[0], None, 0)
            except Exception:
                seq = None
    lim = _packet_slot_limit(ctx, hm)
    ctx.require(lim is not None, f"{hm.relpath}: header.packet_id is not packed into the header")
    limit, size = lim
    if seq is None:
        return False  # some other iterator: the general exploration below evaluates it
    bad = sorted(x for x in set(seq) if not isinstance(x, int) or isinstance(x, bool) or x < 0 or x >= limit)
    ctx.check(not bad, R, f"{gen}:HeaderFactory._packet_id:range", m, cfm, f"every returned id fits the {size}-byte packet_id slot [0,{limit - 1}]", f"the cycled sequence contains {bad[:3]}" if bad else f"{len(seq)} values")
    ctx.check(list(seq) == list(range(limit)), R, f"{gen}:HeaderFactory._packet_id:sequence", m, cfm, f"ids are handed out as 0, 1, ..., {limit - 1} and then start again", f"cycle of {len(seq)} values starting {list(seq)[:4]}")
    return True


def r6(ctx):
    """Finite-state exploration of the packet counter: HeaderFactory.__init__ and create_from_message are evaluated by the
    checker's own interpreter (sa/minieval.py; the repository code is never executed) from the initial state until a
    counter state repeats; every id handed out must fit the packet_id slot of the header struct and the ids must run
    0, 1, ..., limit-1 and start again.  `next(itertools.cycle(<constant sequence>))` is the second accepted idiom."""
    from ..minieval import FakeObj, Mini, Unsupported, freeze

    R = "C01.R6"
    for gen in ("at4", "at5"):
        m = ctx.repo.module(f"pyairtouch.{gen}.comms.registry")
        hm = ctx.repo.module(f"pyairtouch.{gen}.comms.hdr")
        ci = m.get_class("HeaderFactory")
        init = ci.methods.get("__init__")
        cfm = ci.methods.get("create_from_message")
        ctx.require(init is not None and cfm is not None, f"{m.relpath}: HeaderFactory.__init__/create_from_message vanished")
        if "_packet_id" in ci.methods:
            ctx.fn(m, "HeaderFactory._packet_id")
        ctx.fn(m, "HeaderFactory.create_from_message")
        if _packet_id_from_iterator(ctx, R, gen, m, hm, ci, init):
            continue
        lim = _packet_slot_limit(ctx, hm)
        ctx.require(lim is not None, f"{hm.relpath}: header.packet_id is not packed into the header")
        limit, size = lim
        mini = Mini(ctx.repo, m, {}, ci)
        params = [a.arg for a in cfm.args.args][1:]
        try:
            mini.run(init.body, {})
            ids, seen, handed = [], set(), []
            while True:
                state = tuple(sorted((k, freeze(v)) for k, v in mini.selfattrs.items()))
                if state in seen or len(seen) > 70000:
                    break
                seen.add(state)
                hdr = mini.function_value(cfm, {params[0]: FakeObj("Message", message_id=0x2A), params[1]: 4})
                ids.append(getattr(hdr, "packet_id", None) if isinstance(hdr, FakeObj) else None)
                if len(handed) < 8:
                    handed.append(hdr)
        except Unsupported as ex:
            raise AnalysisError(f"{m.relpath}: HeaderFactory left the evaluable fragment: {ex}")
        bad = sorted({x for x in ids if not isinstance(x, int) or isinstance(x, bool) or x < 0 or x >= limit}, key=repr)
        ctx.check(not bad and len(seen) <= 70000, R, f"{gen}:HeaderFactory._packet_id:range", m, cfm, f"every id handed out fits the {size}-byte packet_id slot [0,{limit - 1}]", f"ids handed out include {bad[:3]} ({len(seen)} counter states explored)" if bad else f"{len(seen)} states (unbounded)")
        # a header is held by the pending queue until it is written: each call must hand out its own object (a shared, re-used header
        # object would be overwritten by the next message while the earlier one is still queued)
        shared = len({id(h) for h in handed}) != len(handed)
        ctx.check(not shared, R, f"{gen}:HeaderFactory.create_from_message:fresh-header", m, cfm, "every call returns a new header object (queued frames keep their own id, length and address)", "successive calls return the same object, which is modified in place")
        ctx.check(ids == list(range(limit)), R, f"{gen}:HeaderFactory._packet_id:sequence", m, cfm, f"ids are handed out as 0, 1, ..., {limit - 1} and then start again", f"{len(ids)} ids before the counter state repeats, starting {ids[:4]}")
