"""C10 - the object model always shows the console's latest report (structural clauses)."""
from __future__ import annotations

import ast

from ..model import AnalysisError, EnumVal, dotted, norm_text, unparse, walk_no_nested
from ..q import find_case_table, NONEXC, Fn, inline_properties
from .common import AT4_API, AT5_API, API, fn_of
from . import c12

LEVEL = "other"
EXPLANATION = (
    'Static analysis of both api.py: R1 every status->API translation table is total over the status enum it is indexed by (no defined value raises '
    "KeyError) and maps by name, with exactly the property's exceptions (selected AUTO_HEAT/AUTO_COOL -> AUTO, active -> HEAT/COOL; selected "
    'INTELLIGENT_AUTO_x -> INTELLIGENT_AUTO, active -> x), tables being identified through the getter that uses them; R2 every update_* stores the new '
    'record on every path on which it can differ from the stored one; R3 getter provenance: each public attribute returns exactly its field of the stored '
    'record (through its table where one exists; a getter that delegates to a sibling property reads what that property reads); R4 status frames are '
    "dispatched by the record's own id to that entity's update method and unknown ids are skipped without ending the loop, and the dispatch is not narrowed "
    'by guards one generation has and the other lacks; R5 AT5 limits follow the mode; R6 error details are exposed only under has_error() and the stored '
    'text is cleared when a status without error arrives; R7 the zone list handed out is not the stored one (C11.R2 re-used).'
    " Added later: R2 also demands that the new record is stored before the handler first suspends (an older frame's handler cannot overwrite a newer record; getters show a frame as soon as its handler starts); R8 the stored records are decoded as the vendor defines (C05.R1-R3 re-used); R9 subscriber isolation (C07.R7 re-used)."
    ' Rounds 7-8: R2 also: next_quick_timer by truth table (both timers, disabled / enabled, midnight included); R3 covers every public getter (identity and wiring getters, model, spill_state by truth table); R6 also: the error-information case of _message_received carries no state guard; R10 every handshake frame is applied to the model before the client reports itself initialised (C09.R1 re-used).'
    ' Rounds 9-10: R2 also: the record stored is the parameter as received (not rebound) and next_quick_timer reads the timer record only; R11 (C15.R3 re-used): shutdown() withdraws `initialised` before it first suspends.'
)
ASSUMPTIONS = ["Enum members are compared by identity; dict lookup of a missing key raises KeyError"]
FLOORS = {"C10.R1": 14, "C10.R2": 10, "C10.R3": 40, "C10.R4": 8, "C10.R5": 6, "C10.R6": 6, "C10.R7": 1, "C10.R8": 1, "C10.R9": 1, "C10.R10": 1, "C10.R11": 1}

# getter -> how names are translated (None = identity)
def _selected_mode(n):
    return "AUTO" if n in ("AUTO_HEAT", "AUTO_COOL") else n


def _active_mode(n):
    return {"AUTO_HEAT": "HEAT", "AUTO_COOL": "COOL"}.get(n, n)


def _selected_fan(n):
    return "INTELLIGENT_AUTO" if n.startswith("INTELLIGENT_AUTO_") else n


def _active_fan(n):
    return n[len("INTELLIGENT_AUTO_"):] if n.startswith("INTELLIGENT_AUTO_") else n


NAME_MAP = {"selected_mode": _selected_mode, "active_mode": _active_mode, "selected_fan_speed": _selected_fan, "active_fan_speed": _active_fan}

ZONE_REC = {"At4Zone": "_group_status", "At5Zone": "_zone_status"}
ZONE_ID = {"At4Zone": "group_number", "At5Zone": "zone_number"}
# getter -> (record attr, field, via table?)
ZONE_GETTERS = {
    "zone_id": ("REC", "ID", False),
    "power_state": ("REC", "power_state", True),
    "control_method": ("REC", "control_method", True),
    "has_temp_sensor": ("REC", "has_sensor", False),
    "sensor_battery_status": ("REC", "battery_status", True),
    "current_temperature": ("REC", "temperature", False),
    "target_temperature": ("REC", "set_point", False),
    "current_damper_percentage": ("REC", "damper_percentage", False),
    "spill_active": ("REC", "spill_active", False),
}
AC_GETTERS = {
    "ac_id": ("_ac_status", "ac_number", False),
    "name": ("_ac_ability", "ac_name", False),
    "power_state": ("_ac_status", "power_state", True),
    "selected_mode": ("_ac_status", "mode", True),
    "active_mode": ("_ac_status", "mode", True),
    "selected_fan_speed": ("_ac_status", "fan_speed", True),
    "active_fan_speed": ("_ac_status", "fan_speed", True),
    "current_temperature": ("_ac_status", "temperature", False),
    "target_temperature": ("_ac_status", "set_point", False),
}
AT_GETTERS = {"update_available": ("_console_version", "update_available", False), "console_versions": ("_console_version", "versions", False)}


def run(ctx):
    tables = r3(ctx)
    r1(ctx, tables)
    r2(ctx)
    r4(ctx)
    r5(ctx)
    r6(ctx)
    from . import c05
    from .common import reuse as _reuse

    def status_decoders(c):
        for key, spec in c05.T.STATUS.items():
            c05.check_decoder(c, key, spec)

    from . import c07

    from . import c09 as _c09

    def handshake(c):
        for modname in (AT4_API, AT5_API):
            cases, mr = _c09.extract(c, modname)
            _c09.r1(c, modname, cases, mr)

    _reuse(ctx, "C10.R10", [handshake], "every frame of the handshake is applied to the model before the client reports itself initialised (C09.R1)",
           keep=lambda o: "processes" in o.construct or "model-complete" in o.construct or o.verdict != "HOLDS")
    _reuse(ctx, "C10.R9", [c07.r7], "a raising subscriber does not abort the loop over the records of a frame: the entities listed after it are still updated (C07.R7)")
    _reuse(ctx, "C10.R8", [status_decoders], "the records the object model stores are decoded as the vendor defines (layout, code tables, affine readings: C05.R1-R3), so an attribute equals the protocol reading of the frame",
           keep=lambda o: o.rule in ("C05.R1", "C05.R2", "C05.R3") or "defined-codes-are-values" in o.construct or (o.verdict != "HOLDS" and "not-available" not in o.construct and o.rule != "C05.R4"))
    from . import c11
    from .common import reuse

    from . import c15

    reuse(ctx, "C10.R11", [c15.r3], "`initialised` is true only while the model belongs to a live session: shutdown() withdraws it (and closes the state machine) before it first suspends, so no init() returns True for entities that are about to be orphaned (C15.R3)",
          keep=lambda o: "shutdown:initialised-cleared-first" in o.construct or "shutdown:state-first" in o.construct or "shutdown:clear-" in o.construct or o.verdict != "HOLDS")
    reuse(ctx, "C10.R7", [c11.r2], "the supported-value lists are derived from the latest record on every call (no shared or cached list)")


def _single_return(fnode):
    body = [s for s in fnode.body if not (isinstance(s, ast.Expr) and isinstance(s.value, ast.Constant))]
    rets = [x for x in walk_no_nested(fnode) if isinstance(x, ast.Return)]
    if len(rets) == 1 and len(body) == 1 and body[0] is rets[0]:
        return rets[0].value
    # allow `x = expr; return x`
    return None


def r3(ctx):
    """Getter provenance; returns {(module name, table name): (getter name, key enum ClassInfo or None)}."""
    R = "C10.R3"
    tables = {}
    for modname, zcls, acls, tcls in ((AT4_API, "At4Zone", "At4AirConditioner", "AirTouch4"), (AT5_API, "At5Zone", "At5AirConditioner", "AirTouch5")):
        m = ctx.repo.module(modname)
        for clsname, spec in ((zcls, ZONE_GETTERS), (acls, AC_GETTERS), (tcls, AT_GETTERS)):
            ci = m.get_class(clsname)
            for getter, (rec, field, via) in spec.items():
                if rec == "REC":
                    rec = ZONE_REC[clsname]
                if field == "ID":
                    field = ZONE_ID[clsname]
                fnode = ci.methods.get(getter)
                lab = f"{clsname}.{getter}"
                if fnode is None or not ci.is_property(getter):
                    ctx.violation(R, lab, m, ci.node, "public property exists", "missing or not a property")
                    continue
                ctx.analysed["functions"].add(f"{modname}.{clsname}.{getter}")
                v = _single_return(fnode)
                if v is not None:
                    # a getter that delegates to a sibling property reads what that property reads
                    v = inline_properties(ctx.repo, m, v, "self", ci)
                want_inner = f"self.{rec}.{field}"
                if v is None:
                    ctx.violation(R, lab, m, fnode, f"returns {'TABLE[' if via else ''}{want_inner}{']' if via else ''}", "body is not a single return")
                    continue
                if via:
                    ok = isinstance(v, ast.Subscript) and isinstance(v.value, ast.Name) and v.value.id in m.assigns and norm_text(v.slice) == want_inner
                    if ok:
                        tables[(modname, v.value.id)] = tables.get((modname, v.value.id), []) + [getter]
                    ctx.check(ok, R, lab, m, fnode, f"returns <status->API table>[{want_inner}]", norm_text(v))
                else:
                    ctx.check(norm_text(v) == want_inner, R, lab, m, fnode, f"returns {want_inner}", norm_text(v))
    # the remaining public getters: identity / wiring getters read the attribute the constructor (or the latest record) set,
    # the model constant names the generation, spill_state follows the two status flags (truth table, evaluated)
    simple = {
        "Zone": {"name": ("self._name",)},
        "AirConditioner": {"zones": ("self._zones",)},
        "AirTouch": {"initialised": ("self._initialised_event.is_set()",), "airtouch_id": ("self._airtouch_id",), "serial": ("self._serial",), "name": ("self._name",), "host": ("self._socket.host",),
                     "air_conditioners": ("list(self._air_conditioners.values())", "[*self._air_conditioners.values()]")},
    }
    from ..minieval import Mini, Unsupported

    for modname, gen, zcls, acls, tcls in ((AT4_API, "4", "At4Zone", "At4AirConditioner", "AirTouch4"), (AT5_API, "5", "At5Zone", "At5AirConditioner", "AirTouch5")):
        m = ctx.repo.module(modname)
        for clsname, kind in ((zcls, "Zone"), (acls, "AirConditioner"), (tcls, "AirTouch")):
            ci = m.get_class(clsname)
            for getter, accepted in simple[kind].items():
                fnode = ci.methods.get(getter)
                v = _single_return(fnode) if fnode is not None else None
                if v is not None:
                    v = inline_properties(ctx.repo, m, v, "self", ci)
                ctx.check(fnode is not None and ci.is_property(getter) and v is not None and norm_text(v) in accepted, R, f"{clsname}.{getter}", m, fnode or ci.node, f"returns {accepted[0]}", norm_text(v) if v is not None else "missing / not a single return")
        tc = m.get_class(tcls)
        fnode = tc.methods.get("model")
        v = _single_return(fnode) if fnode is not None else None
        val = ctx.repo.try_fold(m, v) if v is not None else None
        ctx.check(getattr(val, "name", None) == f"AIRTOUCH_{gen}", R, f"{tcls}.model", m, fnode or tc.node, f"AirTouchModel.AIRTOUCH_{gen}", repr(val))
        ac = m.get_class(acls)
        fnode = ac.methods.get("spill_state")
        ctx.require(fnode is not None, f"{m.relpath}: {acls}.spill_state vanished")
        rows, bad = [], None
        for spill in (False, True):
            for byp in ((False, True) if gen == "5" else (False,)):
                atoms = {"self._ac_status.spill_active": spill}
                if gen == "5":
                    atoms["self._ac_status.bypass_active"] = byp
                try:
                    got = Mini(ctx.repo, m, atoms, ac).function_value(fnode, {})
                except Unsupported as ex:
                    raise AnalysisError(f"{m.relpath}: {acls}.spill_state left the evaluable fragment: {ex}")
                name = getattr(got, "name", repr(got))
                want = {"SPILL"} if spill and not byp else {"BYPASS"} if byp and not spill else {"SPILL", "BYPASS"} if spill and byp else {"NONE"}
                rows.append(f"spill={spill}{', bypass=' + str(byp) if gen == '5' else ''} -> {name}")
                if name not in want and bad is None:
                    bad = rows[-1] + f" (expected {' or '.join(sorted(want))})"
        ctx.check(bad is None, R, f"{acls}.spill_state", m, fnode, "SPILL while the status reports spill, BYPASS while it reports bypass (AirTouch 5), NONE otherwise", bad or "; ".join(rows))
    return tables


def r1(ctx, tables):
    R = "C10.R1"
    for (modname, tname), getters in sorted(tables.items()):
        m = ctx.repo.module(modname)
        rows = ctx.repo.dict_table(m, tname)
        keys = [k for k, v, kn, vn in rows]
        ctx.require(keys and all(isinstance(k, EnumVal) for k in keys), f"{m.relpath}: {tname} keys are not enum members")
        kcls = keys[0].cls
        members = list(kcls.enum_members(ctx.repo))
        missing = [x for x in members if x not in [k.name for k in keys if k.cls is kcls]]
        foreign = [repr(k) for k in keys if k.cls is not kcls]
        ctx.check(not missing and not foreign, R, f"{modname.split('.')[1]}:{tname}:total", m, m.assign_nodes[tname], f"every member of {kcls.name} is a key (no defined status value raises KeyError)", ("missing: " + ", ".join(missing) if missing else "") + (" foreign keys: " + ", ".join(foreign) if foreign else ""))
        dup = {k.name for k in keys if [x.name for x in keys].count(k.name) > 1}
        ctx.check(not dup, R, f"{modname.split('.')[1]}:{tname}:no-duplicate-keys", m, m.assign_nodes[tname], "each status value appears once (a later duplicate silently overrides)", ", ".join(sorted(dup)))
        # naming: all getters using the table must agree on one mapping
        api = ctx.repo.module(API)
        for k, v, kn, vn in rows:
            wants = {(NAME_MAP[g](k.name) if g in NAME_MAP else k.name) for g in getters}
            if len(wants) > 1:
                ctx.violation(R, f"{modname.split('.')[1]}:{tname}[{k.name}]", m, vn, f"one table cannot serve {'/'.join(getters)}: they must translate {k.name} differently ({sorted(wants)})", repr(v))
                continue
            want = wants.pop()
            ok = isinstance(v, EnumVal) and v.cls.module is api and v.name == want
            ctx.check(ok, R, f"{modname.split('.')[1]}:{tname}[{k.name}]", m, vn, f"{k.cls.name}.{k.name} -> api.{want} (as reported through {'/'.join(getters)})", repr(v))
    # AT4 active_fan_speed shares the selected table: AT4 has no intelligent auto, so identity on both is right (checked above via 'shared' only if maps differ)


def r2(ctx):
    R = "C10.R2"
    for modname, clsname, name in c12.update_functions(ctx):
        a = c12.analyse_update(ctx, modname, clsname, name)
        f, g, m = a["fn"], a["fn"].cfg, a["fn"].module
        lab = f"{clsname}.{name}"
        if not a["stores"]:
            ctx.violation(R, f"{lab}:stores", m, f.node, "the new record replaces the stored one", "no `self.<record> = <parameter>` assignment")
            continue
        stores = [n for n, _ in a["stores"]]
        uncond = g.all_paths_pass(g.entry.id, [g.exit.id], [s.id for s in stores], NONEXC)
        under_change = bool(a["changed"]) and all(g.all_paths_pass(cb.id, [g.exit.id], [s.id for s in stores], NONEXC) for _, cb, _ in a["changed"]) and not uncond
        ctx.check(uncond or under_change, R, f"{lab}:last-writer-wins", m, stores[0].ast, "the store lies on every normal path (or on every path where old != new)", "a path returns with the stale record")
        # the record is stored before the handler first suspends: handlers of two frames for one entity may overlap (a send
        # blocked in drain), and a store made after an await lets the older frame's handler overwrite the newer record
        early = [n for n in g.nodes if n.awaits and any(g.exists_path(n.id, s.id, labels=NONEXC) for s in stores)]
        ctx.check(not early, R, f"{lab}:stored-before-first-await", m, (early[0].ast if early else stores[0].ast), "nothing is awaited before the new record is stored (the model shows a frame as soon as its handler starts, and an older frame's handler cannot overwrite a newer record)", f"`{norm_text(early[0].ast)[:70]}` (line {early[0].lineno}) can suspend before the store" if early else "")
        # what is stored is the record the frame carried, as received: the parameter is not rebound (to a copy with fields of the
        # old record filled in, a smoothed value, ...) before the store
        dp = f.params[1] if len(f.params) > 1 else None
        rebound = [s_ for s_ in stores if dp is not None and not f.is_param(dp, s_)]
        ctx.check(not rebound, R, f"{lab}:stores-the-record-as-received", m, (rebound[0].ast if rebound else stores[0].ast), f"the value stored is the parameter `{dp}` itself (every attribute then reads the most recent frame)", f"`{dp}` is reassigned before the store at line {rebound[0].lineno}: the model shows something other than the frame" if rebound else "")
        # nothing restores the old record afterwards
        attr = a["stores"][0][1]
        later = [n for n, v in f.assigns(f"self.{attr}") if n not in stores]
        ctx.check(not later, R, f"{lab}:no-other-store", m, (later[0].ast if later else f.node), f"self.{attr} is assigned once", f"also assigned at line {later[0].lineno}" if later else "")
        # id check raises ValueError, not silently accepted, and compares the record's own id with the stored one
    # timer getter
    for modname, clsname in ((AT4_API, "At4AirConditioner"), (AT5_API, "At5AirConditioner")):
        f = fn_of(ctx, modname, f"{clsname}.next_quick_timer")
        m = f.module
        pairs = {}
        for kind, key, body in (find_case_table(f.node, "timer_type") or []):
            if kind != "eq":
                continue
            for st in body:
                if isinstance(st, ast.Assign):
                    pairs[norm_text(key).split(".")[-1]] = norm_text(st.value)
        ok = pairs.get("OFF_TIMER") == "self._ac_timer_status.off_timer" and pairs.get("ON_TIMER") == "self._ac_timer_status.on_timer"
        ctx.check(ok, R, f"{clsname}.next_quick_timer:selects-timer", m, f.node, "OFF_TIMER -> _ac_timer_status.off_timer, ON_TIMER -> .on_timer", str(pairs))
        rets = [x for x in walk_no_nested(f.node) if isinstance(x, ast.Return)]
        dis = f.tests(lambda e: isinstance(e, ast.Attribute) and e.attr == "disabled")
        none_ok = any(isinstance(r.value, ast.Constant) and r.value.value is None for r in rets) and bool(dis)
        time_ok = any(isinstance(r.value, ast.Call) and norm_text(r.value).replace(" ", "") in ("datetime.time(hour=timer_state.hour,minute=timer_state.minute)", "datetime.time(timer_state.hour,timer_state.minute)") for r in rets)
        ctx.check(none_ok and time_ok, R, f"{clsname}.next_quick_timer:value", m, f.node, "None when disabled, else time(hour, minute) of that timer", "; ".join(norm_text(r) for r in rets))
        # the answer is a function of the last timer-status record alone: the getter reads no other stored state (the AC status
        # carries a "timer set" flag of its own, from a different frame - consulting it makes a fresh timer record read as None)
        foreign = sorted({norm_text(x) for x in walk_no_nested(f.node) if isinstance(x, ast.Attribute) and isinstance(x.value, ast.Attribute) and isinstance(x.value.value, ast.Name) and x.value.value.id == "self" and x.value.attr != "_ac_timer_status"})
        ctx.check(not foreign, R, f"{clsname}.next_quick_timer:reads-the-timer-record-only", m, f.node, "next_quick_timer reads self._ac_timer_status and nothing else of the stored state", ", ".join(foreign))
        if foreign:
            continue
        # ... decided on witness timer states (disabled or not, midnight included) by the checker's interpreter
        import datetime as _dt

        from ..minieval import FakeObj, Mini, Unsupported

        api = ctx.repo.module("pyairtouch.api")
        tt = api.get_class("AcTimerType")
        bad = None
        for tname, attr in (("ON_TIMER", "on_timer"), ("OFF_TIMER", "off_timer")):
            for dis in (False, True):
                for hh, mi in ((0, 0), (0, 30), (7, 0), (23, 59)):
                    mine = FakeObj("AcTimerState", disabled=dis, hour=hh, minute=mi)
                    other = FakeObj("AcTimerState", disabled=not dis, hour=11, minute=11)
                    atoms = {f"self._ac_timer_status.{attr}": mine, f"self._ac_timer_status.{'off_timer' if attr == 'on_timer' else 'on_timer'}": other}
                    try:
                        got = Mini(ctx.repo, m, atoms, f.cls).function_value(f.node, {f.params[1]: EnumVal(tt, tname, tt.enum_members(ctx.repo)[tname])})
                    except Unsupported as ex:
                        raise AnalysisError(f"{m.relpath}: {clsname}.next_quick_timer left the evaluable fragment: {ex}")
                    want = None if dis else _dt.time(hour=hh, minute=mi)
                    if got != want and bad is None:
                        bad = f"{tname} {'disabled' if dis else 'enabled'} at {hh:02d}:{mi:02d} -> {got!r}, expected {want!r}"
        ctx.check(bad is None, R, f"{clsname}.next_quick_timer:truth-table", m, f.node, "for both timers: None exactly when the reported timer is disabled, otherwise its hour and minute (00:00 is a time)", bad or "")


def r4(ctx):
    R = "C10.R4"
    spec = {
        "_process_ac_status_message": ("self._air_conditioners", "ac_number", "update_ac_status"),
        "_process_ac_timer_status_message": ("self._air_conditioners", "ac_number", "update_ac_timer_status"),
        "_process_group_status_message": ("self._zones", "group_number", "update_group_status"),
        "_process_zone_status_message": ("self._zones", "zone_number", "update_zone_status"),
    }
    for modname, clsname in ((AT4_API, "AirTouch4"), (AT5_API, "AirTouch5")):
        m = ctx.repo.module(modname)
        ci = m.get_class(clsname)
        for meth, (cont, idf, upd) in spec.items():
            if meth not in ci.methods:
                continue
            f = fn_of(ctx, modname, f"{clsname}.{meth}")
            lab = f"{clsname}.{meth}"
            loops = [x for x in f.node.body if isinstance(x, (ast.For, ast.AsyncFor))]
            p = f.params[1] if len(f.params) > 1 else None
            if len(loops) != 1 or dotted(loops[0].iter) != p or not isinstance(loops[0].target, ast.Name):
                ctx.violation(R, f"{lab}:loop", m, f.node, f"one loop over every record of the frame ({p})", "no such loop")
                continue
            lp = loops[0]
            v = lp.target.id
            leaves = [x for x in ast.walk(lp) if isinstance(x, (ast.Return, ast.Break, ast.Raise))]
            ctx.check(not leaves, R, f"{lab}:unknown-ids-skipped", m, (leaves[0] if leaves else lp), "an unknown id is skipped; the remaining records of the frame are still processed", f"{type(leaves[0]).__name__.lower()} at line {leaves[0].lineno} ends the loop" if leaves else "")
            ups = [(n, c) for n, c in f.calls(upd)]
            if len(ups) != 1:
                ctx.violation(R, f"{lab}:update-that-entity", m, lp, f"one call <looked-up entity>.{upd}({v}) per record", f"{len(ups)} update calls")
                continue
            un, uc = ups[0]
            # the receiver of the update, with locals expanded: CONT.get(v.id) or CONT[v.id]
            recv = uc.func.value
            inst = recv.id if isinstance(recv, ast.Name) else None
            rtxt = f.expand_text(recv, un)
            want = (f"{cont}.get({v}.{idf})", f"{cont}[{v}.{idf}]")
            ctx.check(rtxt in want, R, f"{lab}:lookup-by-own-id", m, uc, f"the entity is looked up in {cont} with the record's own {v}.{idf}", rtxt)
            ok = len(uc.args) == 1 and dotted(uc.args[0]) == v and not uc.keywords
            ctx.check(ok, R, f"{lab}:update-that-entity", m, uc, f"await <looked-up entity>.{upd}({v})", norm_text(uc))
            ctx.check(un.awaits, R, f"{lab}:awaited", m, uc, "the update coroutine is awaited", "not awaited")
            # presence guard: truthiness / `is not None` of the looked-up local, or membership of the id in the container
            present = []
            if inst is not None:
                present += [f.branch(t, lab_) for t, lab_ in f.presence(inst)]
            guard_tests = set(id(t) for t, _ in (f.presence(inst) if inst else []))
            for t in f.cfg.nodes:
                e = t.ast
                if t.kind == "test" and isinstance(e, ast.Compare) and len(e.ops) == 1 and isinstance(e.ops[0], (ast.In, ast.NotIn)) and f.expand_text(e.left, t) == f"{v}.{idf}" and norm_text(e.comparators[0]) == cont:
                    present.append(f.branch(t, "true" if isinstance(e.ops[0], ast.In) else "false"))
                    guard_tests.add(id(t))
            ok = any(f.cfg.dominates(b_.id, un.id) for b_ in present)
            ctx.check(ok, R, f"{lab}:only-known-entities", m, uc, "update only when the lookup found an entity", "unguarded")
            extra = [x for x in _extra_guard_nodes(f, [un]) if id(x[0]) not in guard_tests]
            ctx.check(not extra, R, f"{lab}:every-known-entity", m, uc, "every record of a known entity is applied (no further condition)", "update additionally guarded by: " + ", ".join(txt for _, txt in extra))
        # error info dispatch
        f = fn_of(ctx, modname, f"{clsname}._process_ac_error_info_message")
        p = f.params[1]
        gets = [c for n, c in f.calls("self._air_conditioners.get")]
        ups = [c for n, c in f.calls("update_ac_error_info")]
        ok = len(gets) == 1 and norm_text(gets[0].args[0]) == f"{p}.ac_number" and len(ups) == 1 and norm_text(ups[0].args[0]) == f"{p}.error_info"
        ctx.check(ok, R, f"{clsname}._process_ac_error_info_message", m, f.node, f"AC looked up by {p}.ac_number and given {p}.error_info", "; ".join(norm_text(x) for x in gets + ups))
        un = [n for n, c in f.calls("update_ac_error_info")]
        extra = _extra_guards(f, un, {"ac_instance"})
        ctx.check(not extra, R, f"{clsname}._process_ac_error_info_message:unconditional-for-known-ac", m, f.node, "every error-information frame for a known AC updates it (also an empty text, which clears the stored one)", "update additionally guarded by: " + ", ".join(extra))


def _extra_guard_nodes(f, nodes):
    """[(test node, text)] of every condition that dominates the given nodes"""
    out = []
    for t in f.cfg.nodes:
        if t.kind != "test":
            continue
        for lbl in ("true", "false"):
            b = f.branch(t, lbl)
            if nodes and all(f.cfg.dominates(b.id, n.id) for n in nodes):
                out.append((t, ("" if lbl == "true" else "not ") + norm_text(t.ast)))
    return out


def _extra_guards(f, nodes, allowed_names):
    """Conditions (other than truthiness / is-not-None of the allowed names) that dominate the given nodes."""
    out = []
    for t in f.cfg.nodes:
        if t.kind != "test":
            continue
        for lbl in ("true", "false"):
            b = f.branch(t, lbl)
            if nodes and all(f.cfg.dominates(b.id, n.id) for n in nodes):
                names = {x.id for x in ast.walk(t.ast) if isinstance(x, ast.Name)}
                simple = isinstance(t.ast, ast.Name) or (isinstance(t.ast, ast.Compare) and isinstance(t.ast.comparators[0], ast.Constant) and t.ast.comparators[0].value is None)
                if not (names <= allowed_names and simple):
                    out.append(("" if lbl == "true" else "not ") + norm_text(t.ast))
    return out


def r5(ctx):
    R = "C10.R5"
    m = ctx.repo.module(AT5_API)
    for which, fn in (("min", "min"), ("max", "max")):
        f = fn_of(ctx, AT5_API, f"At5AirConditioner.{which}_target_temperature")
        table = find_case_table(f.node, "self._ac_status.mode")
        if table is None:
            ctx.violation(R, f"At5AirConditioner.{which}_target_temperature:shape", m, f.node, "a case distinction on self._ac_status.mode: HEAT / COOL / default", "different structure")
            continue
        got = {}
        for kind, kexpr, body in table:
            key = "default" if kind == "default" else norm_text(kexpr).split(".")[-1]
            rets = [x for s in body for x in ast.walk(s) if isinstance(x, ast.Return)]
            got.setdefault(key, norm_text(rets[0].value) if len(rets) == 1 and rets[0].value is not None else "?")
            if kind == "eq":
                v = ctx.repo.try_fold(m, kexpr)
                ok = isinstance(v, EnumVal) and v.cls.name == "AcMode" and v.cls.module.name.endswith("xC023_ac_status")
                ctx.check(ok, R, f"At5AirConditioner.{which}_target_temperature:case({key}):enum", m, kexpr, "the compared value is a member of the status AcMode (the type of _ac_status.mode)", norm_text(kexpr))
        want = {
            "HEAT": f"self._ac_ability.{which}_heat_set_point",
            "COOL": f"self._ac_ability.{which}_cool_set_point",
        }
        for k, w in want.items():
            ctx.check(got.get(k) == w, R, f"At5AirConditioner.{which}_target_temperature:{k}", m, f.node, w, str(got.get(k)))
        d = (got.get("default") or "").replace(" ", "")
        okd = d in (f"{fn}(self._ac_ability.{which}_heat_set_point,self._ac_ability.{which}_cool_set_point)", f"{fn}(self._ac_ability.{which}_cool_set_point,self._ac_ability.{which}_heat_set_point)")
        ctx.check(okd, R, f"At5AirConditioner.{which}_target_temperature:default", m, f.node, f"{fn}({which}_heat_set_point, {which}_cool_set_point) for the automatic and set-point-less modes", str(got.get("default")))
    m4 = ctx.repo.module(AT4_API)
    for which in ("min", "max"):
        fnode = m4.get_class("At4AirConditioner").methods.get(f"{which}_target_temperature")
        v = _single_return(fnode) if fnode is not None else None
        ctx.check(v is not None and norm_text(v) == f"self._ac_ability.{which}_set_point", R, f"At4AirConditioner.{which}_target_temperature", m4, fnode, f"self._ac_ability.{which}_set_point", norm_text(v) if v is not None else "?")


def r6(ctx):
    R = "C10.R6"
    for modname, clsname in ((AT4_API, "At4AirConditioner"), (AT5_API, "At5AirConditioner")):
        f = fn_of(ctx, modname, f"{clsname}.error_info")
        m, g = f.module, f.cfg
        ts = f.tests(lambda e: isinstance(e, ast.Call) and dotted(e.func) == "self._ac_status.has_error")
        rets = [n for n in g.nodes if n.kind == "stmt" and isinstance(n.ast, ast.Return)]
        info = [n for n in rets if isinstance(n.ast.value, ast.Call)]
        none = [n for n in rets if isinstance(n.ast.value, ast.Constant) and n.ast.value.value is None]
        ok = bool(ts) and bool(info) and all(g.dominates(f.branch(t, "true").id, n.id) for t in ts for n in info) and all(g.dominates(f.branch(t, "false").id, n.id) for t in ts for n in none) and bool(none)
        ctx.check(ok, R, f"{clsname}.error_info:only-with-error", m, f.node, "AcErrorInfo is returned only under self._ac_status.has_error(), None otherwise", "guard missing or inverted")
        for n in info:
            c = n.ast.value
            kw = {k.arg: norm_text(k.value) for k in c.keywords}
            ok = kw.get("code") == "self._ac_status.error_code" and kw.get("description") == "self._ac_error_info"
            ctx.check(ok, R, f"{clsname}.error_info:fields", m, c, "code=self._ac_status.error_code, description=self._ac_error_info", str(kw))
        u = c12.analyse_update(ctx, modname, clsname, "update_ac_status")
        uf, ug = u["fn"], u["fn"].cfg
        he = uf.tests(lambda e: isinstance(e, ast.Call) and (dotted(e.func) or "").endswith(".has_error"))
        clears = [n for n, v in uf.assigns("self._ac_error_info") if isinstance(v, ast.Constant) and v.value is None]
        reqs = [n for n, c in uf.calls("self._socket.send")]
        ok = bool(he) and bool(clears) and all(ug.all_paths_pass(uf.branch(t, "false").id, [ug.exit.id], [c.id for c in clears], NONEXC) for t in he)
        ctx.check(ok, R, f"{clsname}.update_ac_status:text-cleared-without-error", m, uf.node, "when the new status has no error the stored error text is cleared (a later error must not show the old text)", "the no-error branch keeps the old text")
        ok = bool(he) and bool(reqs) and all(ug.all_paths_pass(uf.branch(t, "true").id, [ug.exit.id], [r.id for r in reqs], NONEXC) for t in he)
        ctx.check(ok, R, f"{clsname}.update_ac_status:text-requested-with-error", m, uf.node, "every changed status that carries an error code requests the error text (also when the code changes from one error to another)", "the request is skipped on some path")
        for t in he:
            who = norm_text(t.ast.func.value)
            ctx.check(who in (u["data_param"], "self._ac_status"), R, f"{clsname}.update_ac_status:has_error-of-new-status", m, t.ast, "has_error() is evaluated on the new status", who)
        # the request names this AC
        for n, c in uf.calls("AcErrorInformationRequest"):
            a = next((k.value for k in c.keywords if k.arg == "ac_number"), c.args[0] if c.args else None)
            ctx.check(a is not None and norm_text(a) == "self.ac_id", R, f"{clsname}.update_ac_status:request-own-ac", m, c, "ac_number=self.ac_id", norm_text(a) if a is not None else "")
        e = c12.analyse_update(ctx, modname, clsname, "update_ac_error_info")
        ctx.check(bool(e["stores"]) and e["stores"][0][1] == "_ac_error_info", R, f"{clsname}.update_ac_error_info:stores", m, e["fn"].node, "stores the text in _ac_error_info", "not stored")
    # the reply to that request is applied in whatever state it arrives: the request goes out with the first AC status of the
    # handshake, so its answer comes before CONNECTED; a state guard on that case drops the text for as long as the fault lasts
    from . import c09

    for modname in (AT4_API, AT5_API):
        cases, mr = c09.extract(ctx, modname)
        gen = modname.split(".")[1]
        ei = [c for c in cases if c.classes[-1:] == ["AcErrorInformationMessage"]]
        ctx.check(len(ei) == 1 and not ei[0].states and not ei[0].other_atoms, R, f"{gen}:_message_received:error-information-in-every-state", mr.module, (ei[0].node.pattern if ei else mr.node), "the AC error information message is processed whatever the handshake state (no guard on its case)", f"guard: states={ei[0].states} {ei[0].other_atoms}" if ei else "no such case")
