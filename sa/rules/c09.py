"""C09 - initialisation completes against any answering console, else fails cleanly (structural clauses)."""
from __future__ import annotations

import ast
from dataclasses import dataclass, field

from ..model import AnalysisError, dotted, norm_text, unparse, walk_no_nested
from ..q import NONEXC, Fn, bool_atoms, block_paths, subst_env
from .common import AT4_API, AT5_API, SOCKET, fn_of

LEVEL = "other"
EXPLANATION = (
    'Static analysis of the handshake state machine of both generations (extraction of the match statement of _message_received into a transition table: '
    'pattern classes, guard state, extra guard atoms, next state, requests sent, calls): R1 following the table from CONNECTING yields exactly six steps '
    'whose requests and awaited responses are version, names, AC ability, AC status, timer status, zone/group status in that order, one request per step '
    'with the wrapper its registry requires, ending in the steady state with the initialised event set; R2 every case that changes state or sends is '
    'guarded by a state equality and is not shadowed by an earlier case; R3 the AT5 zero-zone echo cases require to_address == 0xB0 and the right state and '
    'advance exactly like their normal siblings; R4 init() awaits the event for 5.0 s under TimeoutError suppression and returns event.is_set(), nothing '
    'else is awaited before that wait except open_socket(), which itself never awaits (a hanging TCP connect cannot outlast the 5 s); R5 model '
    'construction: one zone per names entry, one AC per ability record, AT4 association decided per guarded path reaching the AC construction (locals '
    'substituted; by the set of conditions on the path, not their nesting): groups bitmap when present, else all zones when there is one AC, else '
    'range(start, start+count); AT5 range(start, start+count). R6 the ability records the model is built from are decoded as the vendor table says (C05.R1 '
    'ability-decoder instances re-evaluated).'
    ' Rounds 9-10: R2 also: a frame that neither advances the handshake nor sends anything is processed in state CONNECTED only; R4 also: init() waits once (no loop around the 5 s wait); R11 (C03.R15 re-used); R12 (C15.R5 re-used): init() subscribes before it opens the socket.'
)
ASSUMPTIONS = ["the socket delivers frames to _message_received one at a time (C07/C13)", "match statement first-match semantics"]
FLOORS = {"C09.R1": 30, "C09.R2": 20, "C09.R3": 6, "C09.R4": 8, "C09.R5": 10, "C09.R6": 1, "C09.R7": 1, "C09.R8": 1, "C09.R9": 1, "C09.R11": 1, "C09.R12": 1}

GEN = {
    AT4_API: dict(cls="AirTouch4", names_req="GroupNamesRequest", names_msg="GroupNamesMessage", zstat_req="GroupStatusRequest", zstat_msg="GroupStatusMessage", c0_wrap=None, zone_cls="At4Zone", ac_cls="At4AirConditioner", hdr="pyairtouch.at4.comms.hdr"),
    AT5_API: dict(cls="AirTouch5", names_req="ZoneNamesRequest", names_msg="ZoneNamesMessage", zstat_req="ZoneStatusRequest", zstat_msg="ZoneStatusMessage", c0_wrap="ControlStatusMessage", zone_cls="At5Zone", ac_cls="At5AirConditioner", hdr="pyairtouch.at5.comms.hdr"),
}


@dataclass
class Case:
    index: int
    node: ast.match_case
    classes: list  # nested class names of the pattern, outermost first
    captures: list
    states: list  # state names required by the guard (self._state == X)
    other_atoms: list  # remaining guard atoms (text)
    next_state: list = field(default_factory=list)
    sends: list = field(default_factory=list)  # (class chain, policy name)
    calls: list = field(default_factory=list)


def run(ctx):
    for modname in (AT4_API, AT5_API):
        cases, mr = extract(ctx, modname)
        r1(ctx, modname, cases, mr)
        r2(ctx, modname, cases, mr)
        if modname == AT5_API:
            r3(ctx, modname, cases, mr)
        r4(ctx, modname)
        r5(ctx, modname)
    from . import c05, c17
    from .common import reuse

    reuse(ctx, "C09.R6", [c05.r1_ability], "the ability records the model is built from are decoded as the vendor defines (group bitmap, start/count fields)")
    from . import c07, c13

    reuse(ctx, "C09.R8", [c07.r3, c07.r4, c07.r5], "the connection init() waits for is established by the socket's own retry loop, once, with the read loop running (C07.R3-R5)")
    reuse(ctx, "C09.R9", [lambda c: c13.r1(c, "C13.R1"), lambda c: c13.r2(c, "C13.R2"), lambda c: c13.r3(c, "C13.R3")], "the handshake sees the same frames however the console's bytes are segmented (C13)")
    from . import c03, c15

    reuse(ctx, "C09.R11", [c03.r15], "every frame the console may interleave (requests echoed back included) is consumed whole by its decoder: a decoder that hands announced bytes back makes the frame 'incomplete', and the reset that follows aborts the handshake (C03.R15)",
          keep=lambda o: "consumes" in o.construct or o.verdict != "HOLDS")
    reuse(ctx, "C09.R12", [c15.r5], "init() subscribes to connection changes and to received messages before it opens the socket, unconditionally: the first answer cannot arrive before somebody listens (C15.R5)",
          keep=lambda o: "init:" in o.construct or o.verdict != "HOLDS")
    reuse(ctx, "C09.R7", [c17.r1], "unknown frame types interleaved with the handshake are consumed whole and skipped (an unconsumed rest is a decode error that resets the connection mid-handshake)")


_WHOLE_CAPTURES: set = set()  # names bound by `Cls() as name` sub-patterns (they stand for `<message>.sub_message`)


def _pattern_classes(ctx, m, p):
    out, caps = [], []
    while isinstance(p, ast.MatchClass):
        ci = ctx.repo.resolve_class(m, p.cls)
        out.append(ci.name if ci is not None else (dotted(p.cls) or "?"))
        nxt = None
        for sub in list(p.patterns) + list(p.kwd_patterns):
            if isinstance(sub, ast.MatchClass):
                nxt = sub
            elif isinstance(sub, ast.MatchAs) and isinstance(sub.pattern, ast.MatchClass):
                # `Cls(...) as name`: the class pattern continues the chain, the name captures the matched sub-object
                nxt = sub.pattern
                if sub.name:
                    caps.append(sub.name)
                    _WHOLE_CAPTURES.add(sub.name)
            elif isinstance(sub, ast.MatchAs) and sub.name:
                caps.append(sub.name)
        p = nxt
    return out, caps


def _class_chain(ctx, m, e):
    out = []
    for n in ast.walk(e):
        if isinstance(n, ast.Call) and dotted(n.func):
            ci = ctx.repo.resolve_class(m, n.func)
            if ci is not None:
                out.append(ci.name)
    return out


def extract(ctx, modname):
    g = GEN[modname]
    mr = fn_of(ctx, modname, f"{g['cls']}._message_received")
    m = mr.module
    match = next((s for s in mr.node.body if isinstance(s, ast.Match)), None)
    ctx.require(match is not None, f"{m.relpath}: _message_received has no match statement (handshake idiom changed)")
    ctx.require(isinstance(match.subject, ast.Name) and match.subject.id == mr.params[-1], f"{m.relpath}: the match subject is not the received message")
    cases = []
    for i, c in enumerate(match.cases):
        classes, caps = _pattern_classes(ctx, m, c.pattern)
        states, other = [], []
        cn = next(n for n in mr.cfg.nodes if n.kind == "case" and n.ast is c)
        if c.guard is not None:
            guard = mr.expand(c.guard, cn)  # a local that holds self._state reads as self._state
            g_atoms = bool_atoms(guard) if not (isinstance(guard, ast.BoolOp) and isinstance(guard.op, ast.Or)) else [guard]
            for a in g_atoms:
                st = _state_test(a)
                if st is not None and st[0] == "in":
                    states.extend(st[1])
                else:
                    other.append(a)
        # one virtual case per admitted state; the body is specialised for that state (`if state == X: return` folds away)
        for S in (states or [None]):
            body = _specialise(mr, c.body, S) if S is not None and len(states) > 1 else list(c.body)
            cs = Case(i, c, classes, caps, ([S] if S is not None else []), other)
            members = set()
            for st_ in body:
                for x in ast.walk(st_):
                    members.add(id(x))
            for n in mr.cfg.nodes:
                if n.ast is None or n.kind != "stmt" or id(n.ast) not in members:
                    continue
                if isinstance(n.ast, ast.Assign) and dotted(n.ast.targets[0]) == "self._state":
                    cs.next_state.append((dotted(n.ast.value) or "?").split(".")[-1])
                for x in walk_no_nested(n.ast):
                    if isinstance(x, ast.Call):
                        d = dotted(x.func) or ""
                        if d == "self._socket.send":
                            msg = next((k.value for k in x.keywords if k.arg == "message"), x.args[0] if x.args else None)
                            pol = next((k.value for k in x.keywords if k.arg == "retry_policy"), x.args[1] if len(x.args) > 1 else None)
                            chain = _class_chain(ctx, m, mr.expand(msg, n)) if msg is not None else []
                            pq = ctx.repo.qual(m, mr.expand(pol, n)) if pol is not None else None
                            cs.sends.append((chain, (pq or "?").split(".")[-1], x))
                        elif d.startswith("self.") and d != "self._socket.send":
                            cs.calls.append((d, [norm_text(a) for a in x.args], x))
            cases.append(cs)
    return cases, mr


def _state_test(a):
    """('in', [state names]) / ('notin', [...]) for a comparison of self._state with enum members, else None"""
    if isinstance(a, ast.BoolOp) and len(a.values) >= 2:
        # `s == A or s == B` is `s in (A, B)`; `s != A and s != B` is `s not in (A, B)`
        parts = [_state_test(v) for v in a.values]
        want = "in" if isinstance(a.op, ast.Or) else "notin"
        if all(p is not None and p[0] == want for p in parts):
            return (want, [n for p in parts for n in p[1]])
        return None
    if not (isinstance(a, ast.Compare) and len(a.ops) == 1):
        return None
    l, op, r = a.left, a.ops[0], a.comparators[0]
    name = lambda e: (dotted(e) or "?").split(".")[-1]  # noqa: E731
    if isinstance(op, (ast.Eq, ast.Is, ast.NotEq, ast.IsNot)):
        if dotted(l) == "self._state" and dotted(r):
            other = r
        elif dotted(r) == "self._state" and dotted(l):
            other = l
        else:
            return None
        return ("in" if isinstance(op, (ast.Eq, ast.Is)) else "notin", [name(other)])
    if isinstance(op, (ast.In, ast.NotIn)) and dotted(l) == "self._state" and isinstance(r, (ast.Tuple, ast.List, ast.Set)) and all(dotted(e) for e in r.elts):
        return ("in" if isinstance(op, ast.In) else "notin", [name(e) for e in r.elts])
    return None


def _specialise(mr, stmts, S):
    """The statements of a case body that execute when self._state == S on entry: tests on the state fold, a taken `return`
    ends the body. Nested statements keep their identity (they are looked up in the CFG afterwards)."""
    out = []
    for st in stmts:
        if isinstance(st, ast.If):
            node = mr.node_of(st.test) if hasattr(mr, "node_of") else None
            test = mr.expand(st.test, node) if node is not None else st.test
            neg = False
            while isinstance(test, ast.UnaryOp) and isinstance(test.op, ast.Not):
                test, neg = test.operand, not neg
            t = _state_test(test)
            if t is not None:
                val = (S in t[1]) if t[0] == "in" else (S not in t[1])
                if neg:
                    val = not val
                sub = _specialise(mr, st.body if val else st.orelse, S)
                out.extend(sub)
                if sub and isinstance(sub[-1], (ast.Return, ast.Raise)):
                    return out
                continue
        out.append(st)
        if isinstance(st, (ast.Return, ast.Raise)):
            return out
    return out





def r1(ctx, modname, cases, mr):
    R = "C09.R1"
    g = GEN[modname]
    m = mr.module
    gen = modname.split(".")[1]
    ext, c0 = "ExtendedMessage", g["c0_wrap"]
    steps = [
        ("version", [ext, "ConsoleVersionRequest"], [ext, "ConsoleVersionMessage"], None),
        ("names", [ext, g["names_req"]], [ext, g["names_msg"]], "_process_" + ("group" if gen == "at4" else "zone") + "_names_message"),
        ("ability", [ext, "AcAbilityRequest"], [ext, "AcAbilityMessage"], "_process_ac_ability_message"),
        ("ac-status", ([c0] if c0 else []) + ["AcStatusRequest"], ([c0] if c0 else []) + ["AcStatusMessage"], "_process_ac_status_message"),
        ("timer-status", ([c0] if c0 else []) + ["AcTimerStatusRequest"], ([c0] if c0 else []) + ["AcTimerStatusMessage"], "_process_ac_timer_status_message"),
        ("zone-status", ([c0] if c0 else []) + [g["zstat_req"]], ([c0] if c0 else []) + [g["zstat_msg"]], "_process_" + ("group" if gen == "at4" else "zone") + "_status_message"),
    ]
    # step 0: _connection_changed under CONNECTING sends the version request and moves on
    cc = fn_of(ctx, modname, f"{g['cls']}._connection_changed")
    st = [(n, (dotted(v) or "?").split(".")[-1]) for n, v in cc.assigns("self._state")]
    sends = []
    for n, c in cc.calls("self._socket.send"):
        msg = next((k.value for k in c.keywords if k.arg == "message"), c.args[0] if c.args else None)
        sends.append((n, _class_chain(ctx, m, cc.expand(msg, n)) if msg is not None else []))
    guard_ok = False
    for tb in cc.eq_branches("self._state", lambda v: (dotted(v) or "").endswith(".CONNECTING")):
        if st and all(cc.cfg.dominates(tb.id, n.id) for n, _ in st):
            guard_ok = True
    first = [ch for n, ch in sends if ch == steps[0][1] and st and cc.cfg.dominates(st[0][0].id, n.id) or (st and ch == steps[0][1] and cc.cfg.exists_path(st[0][0].id, n.id))]
    ctx.check(len(st) == 1 and guard_ok and bool(first), R, f"{gen}:step0:connected->version-request", m, cc.node, "on the first connection (state CONNECTING) the state advances once and ExtendedMessage(ConsoleVersionRequest()) is sent", f"state assignments: {[s for _, s in st]}; sends: {[c for _, c in sends]}")
    ctx.require(len(st) >= 1, f"{m.relpath}: _connection_changed no longer advances the state")
    cur = st[0][1]
    seen_states = ["CONNECTING", cur]
    for i, (name, req, resp, proc) in enumerate(steps):
        cand = [c for c in cases if cur in c.states and c.next_state and c.classes == resp]
        if len(cand) != 1:
            alts = [c for c in cases if cur in c.states and c.next_state]
            ctx.violation(R, f"{gen}:step{i + 1}:{name}:awaits", m, mr.node, f"in state {cur} exactly one case awaits {'('.join(resp)} and advances", f"{len(cand)} such case(s); state {cur} advances on: {['('.join(c.classes) for c in alts]}")
            return
        c = cand[0]
        ctx.holds(R, f"{gen}:step{i + 1}:{name}:awaits", m, c.node.pattern, f"state {cur}: case {'('.join(resp)}")
        ctx.check(len(c.next_state) == 1 and c.next_state[0] not in seen_states, R, f"{gen}:step{i + 1}:{name}:advances", m, c.node.pattern, "assigns exactly one new, not yet visited state", f"{c.next_state} (visited: {seen_states})")
        if proc is not None:
            pc = [x for x in c.calls if x[0] == f"self.{proc}"]
            ok = len(pc) == 1 and len(pc[0][1]) == 1 and pc[0][1][0] in c.captures
            ctx.check(ok, R, f"{gen}:step{i + 1}:{name}:processes", m, c.node.pattern, f"the payload captured by the pattern is handed to {proc}", "; ".join(f"{d}({', '.join(a)})" for d, a, _ in c.calls))
        else:
            st_cv = [x for s in c.node.body for x in ast.walk(s) if isinstance(x, ast.Assign) and dotted(x.targets[0]) == "self._console_version"]
            ctx.check(len(st_cv) == 1 and (norm_text(st_cv[0].value) == f"{mr.params[-1]}.sub_message" or (isinstance(st_cv[0].value, ast.Name) and st_cv[0].value.id in c.captures and st_cv[0].value.id in _WHOLE_CAPTURES)), R, f"{gen}:step{i + 1}:{name}:processes", m, c.node.pattern, "the console version is stored", "not stored")
        if i + 1 < len(steps):
            nreq = steps[i + 1][1]
            ok = len(c.sends) == 1 and c.sends[0][0] == nreq and c.sends[0][1] == "RETRY_CONNECTED"
            ctx.check(ok, R, f"{gen}:step{i + 1}:{name}:next-request", m, c.node.pattern, f"sends exactly one request: {'('.join(nreq)}) with RETRY_CONNECTED", "; ".join(f"{'('.join(ch)} [{p}]" for ch, p, _ in c.sends) or "nothing sent")
        else:
            ctx.check(not c.sends, R, f"{gen}:step{i + 1}:{name}:no-further-request", m, c.node.pattern, "the last step sends nothing", "; ".join("(".join(ch) for ch, _, _ in c.sends))
            final = c.next_state[0] if c.next_state else "?"
            steady = [x for x in cases if final in x.states and not x.next_state]
            ctx.check(len(steady) >= 4, R, f"{gen}:steady-state", m, c.node.pattern, f"the final state {final} is the one tested by the steady-state cases (AC status, timer status, zone status, version)", f"{len(steady)} steady-state cases test {final}")
            calls = [d for d, a, _ in c.calls]
            ctx.check("self._initialised_event.set" in calls, R, f"{gen}:initialised-event", m, c.node.pattern, "reaching the steady state sets _initialised_event", ", ".join(calls))
            ctx.check("self._heartbeat_manager.start" in calls, R, f"{gen}:heartbeat-start", m, c.node.pattern, "reaching the steady state starts the heartbeat", ", ".join(calls))
            # init() returns as soon as the event is set: the frame that completes the handshake is applied to the model first
            if proc is not None:
                p_at = [x.lineno for d, a, x in c.calls if d == f"self.{proc}"]
                s_at = [x.lineno for d, a, x in c.calls if d == "self._initialised_event.set"]
                ok = bool(p_at) and bool(s_at) and max(p_at) < min(s_at)
                ctx.check(ok, R, f"{gen}:model-complete-before-initialised", m, c.node.pattern, f"{proc}() runs before _initialised_event.set(): when init() returns True the model already shows the last frame of the handshake", f"{proc} at line(s) {p_at}, set() at line(s) {s_at}")
        cur = c.next_state[0] if c.next_state else cur
        seen_states.append(cur)
    # enum has the states used
    en = m.get_class("_AirTouchState")
    mem = en.enum_members(ctx.repo)
    vals = list(mem.values())
    ctx.check(all(s in mem for s in seen_states) and len(set(vals)) == len(vals), R, f"{gen}:state-enum", m, en.node, "all states of the chain are distinct members of _AirTouchState", str(seen_states))


def r2(ctx, modname, cases, mr):
    R = "C09.R2"
    m = mr.module
    gen = modname.split(".")[1]
    for c in cases:
        effect = bool(c.next_state or c.sends or any(d.startswith("self._process_") or d.endswith(".start") or d.endswith(".set") for d, _, _ in c.calls))
        lab = f"{gen}:case{c.index}:{'('.join(c.classes)}" + (f"@{'+'.join(c.states)}" if c.states else "")
        if c.next_state or c.sends:
            ctx.check(len(c.states) == 1, R, lab + ":state-guarded", m, c.node.pattern, "a case that changes state or sends a request is guarded by exactly one `self._state == X`", f"states in guard: {c.states}")
        elif effect:
            # steady-state processing: guarded by state, except the error-info case which is valid in every state
            if c.classes[-1:] == ["AcErrorInformationMessage"]:
                ctx.holds(R, lab + ":state-guarded", m, c.node.pattern, "error information is processed in every state (AC lookup by id ignores unknown ACs)")
            else:
                ctx.check(len(c.states) == 1, R, lab + ":state-guarded", m, c.node.pattern, "status processing is guarded by a state equality (frames before initialisation are ignored)", f"states in guard: {c.states}")
                # outside its own handshake step a status frame is applied in the steady state only: an unsolicited broadcast
                # that lands between two steps is ignored by both generations alike (the step's own answer follows)
                ctx.check(c.states == ["CONNECTED"] or not c.states, R, lab + ":steady-state-only", m, c.node.pattern, "a frame that neither advances the handshake nor sends anything is processed in state CONNECTED only", f"also processed in state {c.states}")
        # shadowing by an earlier case
        for e in cases[: c.index]:
            covers = e.classes == c.classes[: len(e.classes)] and len(e.classes) <= len(c.classes)
            if not covers:
                continue
            same_state = (not e.states) or (set(e.states) & set(c.states))
            if same_state and not e.other_atoms:
                ctx.violation(R, lab + ":not-shadowed", m, c.node.pattern, "no earlier case with the same pattern and state swallows this one", f"case {e.index} ({'('.join(e.classes)} @ {e.states}) matches first")
                break
        else:
            ctx.holds(R, lab + ":not-shadowed", m, c.node.pattern, "reachable")
    # a wildcard case would swallow unknown messages with effects
    wild = [c for c in cases if not c.classes]
    ctx.check(not any(c.next_state or c.sends for c in wild), R, f"{gen}:no-wildcard-effects", m, mr.node, "unexpected frames have no effect", "a wildcard case acts")


def r3(ctx, modname, cases, mr):
    R = "C09.R3"
    m = mr.module
    hdrm = ctx.repo.module("pyairtouch.at5.comms.hdr")
    client = ctx.repo.try_fold(hdrm, hdrm.get_const_expr("ADDRESS_CLIENT"))
    ctx.check(client == 0xB0, R, "at5:ADDRESS_CLIENT", hdrm, hdrm.assign_nodes["ADDRESS_CLIENT"], "0xB0", repr(client))
    for req, normal in (("ZoneNamesRequest", "ZoneNamesMessage"), ("ZoneStatusRequest", "ZoneStatusMessage")):
        echo = [c for c in cases if c.classes[-1:] == [req]]
        sib = [c for c in cases if c.classes[-1:] == [normal] and c.next_state]
        if len(echo) != 1 or len(sib) != 1:
            ctx.violation(R, f"at5:echo:{req}", m, mr.node, f"one echo case for {req} next to the normal {normal} case", f"{len(echo)} echo / {len(sib)} normal")
            continue
        e, s = echo[0], sib[0]
        addr_ok = False
        for a in e.other_atoms:
            if isinstance(a, ast.Compare) and len(a.ops) == 1 and isinstance(a.ops[0], ast.Eq):
                l, r = a.left, a.comparators[0]
                for x, y in ((l, r), (r, l)):
                    if dotted(x) == f"{mr.params[1]}.to_address" and ctx.repo.try_fold(m, y) == 0xB0:
                        addr_ok = True
        ctx.check(addr_ok, R, f"at5:echo:{req}:addressed-to-client", m, e.node.pattern, f"guard requires {mr.params[1]}.to_address == ADDRESS_CLIENT (0xB0): a request of another client is not an echo", " and ".join(norm_text(a) for a in e.other_atoms) or "no address test")
        ctx.check(e.states == s.states and len(e.states) == 1, R, f"at5:echo:{req}:state", m, e.node.pattern, f"guarded by the same state as the normal case ({s.states})", str(e.states))
        same = e.next_state == s.next_state and [(ch, p) for ch, p, _ in e.sends] == [(ch, p) for ch, p, _ in s.sends]
        ecalls = sorted(d for d, _, _ in e.calls if not d.startswith("self._process_"))
        scalls = sorted(d for d, _, _ in s.calls if not d.startswith("self._process_"))
        ctx.check(same and ecalls == scalls, R, f"at5:echo:{req}:advances-like-sibling", m, e.node.pattern, f"next state {s.next_state}, requests {[ch for ch, _, _ in s.sends]} and calls {scalls} as in the normal case", f"next state {e.next_state}, requests {[ch for ch, _, _ in e.sends]}, calls {ecalls}")
        ctx.check(e.classes[0] == s.classes[0], R, f"at5:echo:{req}:wrapper", m, e.node.pattern, f"same wrapper as the normal case ({s.classes[0]})", e.classes[0] if e.classes else "")


def r4(ctx, modname):
    R = "C09.R4"
    g = GEN[modname]
    gen = modname.split(".")[1]
    f = fn_of(ctx, modname, f"{g['cls']}.init")
    m = f.module
    waits = f.calls("asyncio.wait_for")
    ok = len(waits) == 1 and waits[0][0].awaits
    ctx.check(ok, R, f"{gen}:init:waits", m, f.node, "init() awaits asyncio.wait_for(...) once", f"{len(waits)} wait_for calls")
    if ok:
        n, c = waits[0]
        what = c.args[0] if c.args else next((k.value for k in c.keywords if k.arg in ("fut", "aw")), None)
        to = next((k.value for k in c.keywords if k.arg == "timeout"), c.args[1] if len(c.args) > 1 else None)
        if isinstance(what, ast.Name):
            u_ = f.unique_def_value(what.id, n)  # an explaining local for the coroutine (created just before, awaited here)
            if u_ is not None and u_[1] is not None and not f.awaits_between(u_[0], n):
                what = u_[1]
        ctx.check(what is not None and norm_text(what) == "self._initialised_event.wait()", R, f"{gen}:init:waits-for-event", m, c, "waits for self._initialised_event.wait()", norm_text(what) if what is not None else "")
        tv = ctx.repo.try_fold(m, to) if to is not None else None
        ctx.check(tv == 5.0, R, f"{gen}:init:timeout", m, c, "timeout=5.0", repr(tv))
        sup = [w for w in ast.walk(f.node) if isinstance(w, (ast.With, ast.AsyncWith)) and any(x is c for x in ast.walk(w))]
        sup_ok = False
        for w in sup:
            ce = w.items[0].context_expr
            if isinstance(ce, ast.Call) and (dotted(ce.func) or "").endswith("suppress") and any((dotted(a) or "").split(".")[-1] == "TimeoutError" for a in ce.args):
                sup_ok = True
        trys = [t for t in ast.walk(f.node) if isinstance(t, ast.Try) and any(x is c for s in t.body for x in ast.walk(s)) and any(h.type is not None and "TimeoutError" in unparse(h.type) for h in t.handlers)]
        ctx.check(sup_ok or bool(trys), R, f"{gen}:init:timeout-swallowed", m, c, "TimeoutError from wait_for is suppressed (init never raises on a silent console)", "not suppressed")
    # the five seconds are spent once: init() contains no loop (a wait that is re-armed "while the handshake makes progress"
    # lets a console that stops answering after the first step hold init() for a multiple of the limit)
    loops = [x for x in walk_no_nested(f.node) if isinstance(x, (ast.While, ast.For, ast.AsyncFor))]
    ctx.check(not loops, R, f"{gen}:init:waits-once", m, (loops[0] if loops else f.node), "init() waits for the initialised event once, under one 5 s limit (no loop around the wait)", f"`{norm_text(loops[0])[:60]}` repeats the wait" if loops else "")
    rets = [x for x in walk_no_nested(f.node) if isinstance(x, ast.Return)]
    from ..q import inline_properties

    rv = norm_text(inline_properties(ctx.repo, m, rets[0].value, "self", f.cls)) if len(rets) == 1 and rets[0].value is not None else ""
    ok = len(rets) == 1 and rv == "self._initialised_event.is_set()" and f.node.body[-1] is rets[0]
    ctx.check(ok, R, f"{gen}:init:returns-event-state", m, f.node, "the only exit is `return self._initialised_event.is_set()`", "; ".join(norm_text(r) for r in rets))
    raises = [x for x in walk_no_nested(f.node) if isinstance(x, ast.Raise)]
    ctx.check(not raises, R, f"{gen}:init:never-raises", m, f.node, "no raise statement in init()", f"line {raises[0].lineno}" if raises else "")
    if gen == "at4":
        osf = fn_of(ctx, SOCKET, "AirTouchSocket.open_socket")
        aw = [n for n in osf.cfg.nodes if n.awaits]
        ctx.check(not aw, R, "socket.open_socket:does-not-wait", osf.module, osf.node, "open_socket() only schedules the connect; it never awaits it (init()'s 5 s budget must also cover a slow or hanging TCP connect)", f"awaits at line {aw[0].lineno}: {norm_text(aw[0].ast)[:70]}" if aw else "")
        pre = [n for n in f.cfg.nodes if n.awaits and not any(x is n for x, _ in waits)]
        names = sorted({(dotted(c.func) or "") for n in pre for c in ast.walk(n.ast) if isinstance(c, ast.Call) and isinstance(getattr(c, "func", None), (ast.Attribute, ast.Name))} - {""})
    initf = fn_of(ctx, modname, f"{g['cls']}.initialised")
    rets = [x for x in walk_no_nested(initf.node) if isinstance(x, ast.Return)]
    ctx.check(len(rets) == 1 and norm_text(rets[0].value) == "self._initialised_event.is_set()", R, f"{gen}:initialised", m, initf.node, "initialised == event.is_set()", "; ".join(norm_text(r) for r in rets))
    sets = [c for mm in (m,) for x in ast.walk(mm.tree) if isinstance(x, ast.Call) and dotted(x.func) == "self._initialised_event.set" for c in [x]]
    ctx.check(len(sets) >= 1, R, f"{gen}:event-set-somewhere", m, None, "the event is set by the handshake", "never set")


def _range_shape(ctx, m, call, var):
    """range(A, A + N) with A = var.start_*, N = var.*_count -> (ok, text)"""
    if not (isinstance(call, ast.Call) and dotted(call.func) == "range" and len(call.args) == 2):
        return False, norm_text(call) if call is not None else "no range"
    a, b = call.args
    ok = isinstance(b, ast.BinOp) and isinstance(b.op, ast.Add) and ((norm_text(b.left) == norm_text(a)) != (norm_text(b.right) == norm_text(a)))
    if ok:
        n = b.right if norm_text(b.left) == norm_text(a) else b.left
        ok = dotted(a) is not None and dotted(a).startswith(var + ".start_") and dotted(n) is not None and dotted(n).startswith(var + ".") and dotted(n).endswith("_count")
    return ok, norm_text(call)


def _ctor_args(ci, call, raw=False):
    """arguments of a constructor call by parameter name (positional ones bound through __init__'s signature)"""
    out = {}
    init = ci.methods.get("__init__") if ci is not None else None
    names = [a.arg for a in init.args.args[1:]] if init is not None else []
    for i, a in enumerate(call.args):
        if i < len(names) and not isinstance(a, ast.Starred):
            out[names[i]] = a if raw else norm_text(a)
    for k in call.keywords:
        if k.arg:
            out[k.arg] = k.value if raw else norm_text(k.value)
    return out


def r5(ctx, modname):
    R = "C09.R5"
    g = GEN[modname]
    gen = modname.split(".")[1]
    m = ctx.repo.module(modname)
    nm = "_process_group_names_message" if gen == "at4" else "_process_zone_names_message"
    f = fn_of(ctx, modname, f"{g['cls']}.{nm}")
    loops = [s for s in f.node.body if isinstance(s, ast.For)]
    ok = False
    found = "no loop over <names>.items()"
    if len(loops) == 1 and isinstance(loops[0].target, ast.Tuple) and len(loops[0].target.elts) == 2 and norm_text(loops[0].iter) == f"{f.params[1]}.items()":
        k, v = (e.id for e in loops[0].target.elts)
        sts = [s for s in loops[0].body if isinstance(s, ast.Assign)]
        if len(sts) == 1 and norm_text(sts[0].targets[0]) == f"self._zones[{k}]" and isinstance(sts[0].value, ast.Call):
            c = sts[0].value
            ci = ctx.repo.resolve_class(m, c.func)
            kw = _ctor_args(ci, c)
            num_kw = "group_number" if gen == "at4" else "zone_number"
            ok = ci is not None and ci.name == g["zone_cls"] and kw.get(num_kw) == k and kw.get("zone_name") == v and kw.get("socket") == "self._socket"
            found = norm_text(sts[0])[:140]
        early = any(isinstance(x, (ast.Break, ast.Return, ast.Continue)) for x in ast.walk(loops[0]))
        ok = ok and not early
    ctx.check(ok, R, f"{gen}:{nm}", m, f.node, f"for number, name in names.items(): self._zones[number] = {g['zone_cls']}(number, name, socket)", found)
    f = fn_of(ctx, modname, f"{g['cls']}._process_ac_ability_message")
    loops = [s for s in f.node.body if isinstance(s, ast.For)]
    ctx.require(len(loops) == 1, f"{m.relpath}: _process_ac_ability_message is no longer one loop over the records")
    lp = loops[0]
    it = lp.iter
    if isinstance(lp.target, ast.Tuple) and len(lp.target.elts) == 2 and all(isinstance(e, ast.Name) for e in lp.target.elts) and isinstance(it, ast.Call) and dotted(it.func) == "enumerate" and it.args:
        # `for i, record in enumerate(records)`: the record variable is the second target; the position is not the AC number
        v = lp.target.elts[1].id
        it = it.args[0]
    else:
        ctx.require(isinstance(lp.target, ast.Name), f"{m.relpath}: _process_ac_ability_message is no longer one loop over the records")
        v = lp.target.id
    ctx.check(norm_text(it) == f.params[1] and not any(isinstance(x, (ast.Break, ast.Return, ast.Continue)) for x in ast.walk(lp)), R, f"{gen}:ability:every-record", m, lp, "one AC per ability record, no early exit", norm_text(lp.iter))
    lp_iter_saved = lp.iter
    # AC construction
    sts = [s for s in lp.body if isinstance(s, ast.Assign) and norm_text(s.targets[0]).startswith("self._air_conditioners[")]
    ok = False
    if len(sts) == 1 and isinstance(sts[0].value, ast.Call):
        c = sts[0].value
        ci = ctx.repo.resolve_class(m, c.func)
        kw = _ctor_args(ci, c)
        zones_kw = _ctor_args(ci, c, raw=True).get("zones")
        zones_name = zones_kw.id if isinstance(zones_kw, ast.Name) else None
        ok = norm_text(sts[0].targets[0]) == f"self._air_conditioners[{v}.ac_number]" and ci is not None and ci.name == g["ac_cls"] and kw.get("ac_number") == f"{v}.ac_number" and zones_kw is not None and kw.get("ac_ability") == v and kw.get("socket") == "self._socket"
    ctx.check(ok, R, f"{gen}:ability:ac-construction", m, lp, f"self._air_conditioners[{v}.ac_number] = {g['ac_cls']}(ac_number={v}.ac_number, zones=<the AC's zones>, ac_ability={v}, socket=self._socket)", norm_text(sts[0])[:200] if sts else "missing")
    if not ok:
        return
    # zone association: the value that reaches zones=
    assigns = [x for x in ast.walk(lp) if isinstance(x, ast.Assign) and zones_name and dotted(x.targets[0]) == zones_name]
    if gen == "at5":
        at = f.node_of(sts[0])
        zv = f.expand(zones_kw, at) if at is not None else zones_kw
        ok = isinstance(zv, ast.ListComp)
        rng_ok, txt = (False, "")
        if ok:
            lc = zv
            rng_ok, txt = _range_shape(ctx, m, lc.generators[0].iter, v)
            ok = rng_ok and norm_text(lc.elt) == f"self._zones[{lc.generators[0].target.id}]" and not lc.generators[0].ifs
        ctx.check(ok, R, "at5:ability:zones=range(start, start+count)", m, lp, f"ac_zones = [self._zones[i] for i in range({v}.start_zone, {v}.start_zone + {v}.zone_count)]", txt or norm_text(zv)[:160])
    else:
        # the value reaching zones= on every path through the loop body, with the conditions of that path (order-insensitive:
        # what matters is which source is used under which combination of `groups is None` / `one AC`)
        idx = lp.body.index(sts[0])
        paths = [(lits, subst_env(zones_kw, env)) for lits, env, end in block_paths(lp.body[:idx]) if end == "fall"]
        ctx.require(paths, f"{m.relpath}: no path reaches the AC construction")
        g_none = f"{v}.groups is None"
        one_ac = f"len({f.params[1]}) == 1"
        seen = {}
        for lits, zv in paths:
            d = dict(lits)
            if len(d) != len(set(lits)) or any(d[t] != pol for t, pol in lits):
                continue  # contradictory literals: infeasible
            if d.get(g_none) is False:
                kind = "1-bitmap-first"
            elif d.get(g_none) is True and d.get(one_ac) is True:
                kind = "2-single-ac-gets-all"
            elif d.get(g_none) is True and d.get(one_ac) is False:
                kind = "3-range(start, start+count)"
            else:
                ctx.violation(R, "at4:ability:precedence", m, lp, f"zones chosen by: {g_none} ? (one AC ? all zones : start/count range) : the bitmap", f"a path with conditions {lits} reaches the construction")
                continue
            extra = [t for t in d if t not in (g_none, one_ac)]
            txt = norm_text(zv)[:160]
            if kind == "1-bitmap-first":
                ok = isinstance(zv, ast.ListComp) and len(zv.generators) == 1 and not zv.generators[0].ifs and norm_text(zv.generators[0].iter) == f"{v}.groups" and norm_text(zv.elt) == f"self._zones[{norm_text(zv.generators[0].target)}]"
                want = f"first choice: the group bitmap ({v}.groups is not None -> zones of {v}.groups)"
            elif kind == "2-single-ac-gets-all":
                ok = norm_text(zv) in ("list(self._zones.values())", "[*self._zones.values()]")
                want = "second choice: a single AC owns all zones"
            else:
                ok = isinstance(zv, ast.ListComp) and len(zv.generators) == 1 and not zv.generators[0].ifs and norm_text(zv.elt) == f"self._zones[{norm_text(zv.generators[0].target)}]"
                if ok:
                    ok, txt = _range_shape(ctx, m, zv.generators[0].iter, v)
                want = f"last resort: range({v}.start_group, {v}.start_group + {v}.group_count)"
            seen[kind] = True
            ctx.check(ok and not extra, R, f"at4:ability:{kind}", m, lp, want, (txt or "missing") + (f" under extra conditions {extra}" if extra else ""))
        for kind in ("1-bitmap-first", "2-single-ac-gets-all", "3-range(start, start+count)"):
            if kind not in seen:
                ctx.violation(R, f"at4:ability:{kind}", m, lp, "the three sources of an AC's zones, in the documented precedence", "this case is never taken")
