"""C15 - shutdown is final, leak-free and reversible (structural clauses)."""
from __future__ import annotations

import ast

from ..model import AnalysisError, dotted, norm_text, unparse, walk_no_nested
from ..q import NONEXC, Fn, iter_functions, package_calls
from .common import schedule_calls, AT4_API, AT5_API, HEARTBEAT, SOCKET, SOCK_CLS, fn_of, sock_fn

LEVEL = "other"
EXPLANATION = (
    'Static analysis of AirTouchSocket.close/_connect/open_socket, HeartbeatManager.start/stop and AirTouch4/5.init/shutdown: R1 close() marks the socket '
    'not-open before its first await and awaits _disconnect() on every path; R2 nothing acts after close - close() cancels every background task (idiom A) '
    'and _connect refuses to run on a closed socket (idiom B guard) and the in-flight flag is released on cancellation, and no timer outside the tracked '
    'background tasks is armed (no call_later/call_at); R3 every create_task whose handle is stored has a cancel-and-await reachable from shutdown(), and '
    'shutdown() stops the heartbeat BEFORE closing the socket, closes the socket, clears the initialised event and the model, sets CLOSED, none behind an '
    'early exit; R4 sending on a closed socket raises NotOpenError (C16.R3 re-used); R5 re-init: init() unconditionally sets CONNECTING, subscribes both '
    'callbacks (set-based, idempotent) and opens the socket; stop() empties the task list so start() works again; messages still queued at close() are '
    'discarded.'
    ' Rounds 7-8: R2 also: the background tasks are cancelled before close() first awaits; R3 also: state = CLOSED before every await of shutdown(), and the cancel-and-await loops absorb CancelledError per task inside the loop; R5 also: nothing is (re-)queued once the socket is not open (D14); R10 subscriber callbacks end with the cancelled notifier (D13, C07.R7 re-used).'
    ' Rounds 9-10: R2 also: the retry of _connect is never scheduled from a finally block or a cancellation handler; R3 also: `initialised` is cleared before the first await of shutdown() and every stored task attribute has one creation site.'
)
ASSUMPTIONS = ["Task.cancel() delivers CancelledError at the task's current await", "asyncio.current_task() identifies the caller so close() does not cancel itself"]
FLOORS = {"C15.R1": 3, "C15.R2": 4, "C15.R3": 14, "C15.R4": 1, "C15.R5": 9, "C15.R6": 1, "C15.R7": 1, "C15.R8": 1, "C15.R9": 1, "C15.R10": 1, "C15.R11": 1}


def run(ctx):
    r1_r2(ctx)
    _no_untracked_timers(ctx)
    r3(ctx)
    r4(ctx)
    r5(ctx)
    from . import c09
    from .common import reuse

    def state_guards(c):
        for modname in (AT4_API, AT5_API):
            cases, mr = c09.extract(c, modname)
            c09.r2(c, modname, cases, mr)
            if modname == AT5_API:
                c09.r3(c, modname, cases, mr)

    from . import c07, c14

    reuse(ctx, "C15.R9", [c07.r11], "every task the socket starts is kept in _background_tasks until it is done, which is what close() cancels (C07.R11)",
          keep=lambda o: "tracked" in o.construct or "released" in o.construct or "creates" in o.construct or o.verdict != "HOLDS")
    from . import c12

    reuse(ctx, "C15.R11", [c12.r4], "init() after shutdown() subscribes the same handlers again without doubling them: subscriber containers are sets (C12.R4)")
    reuse(ctx, "C15.R10", [c07.r7], "a subscriber callback that is running when close() cancels the read loop ends with it: callbacks are awaited directly or through gather(), not wrapped in tasks of their own (C07.R7)",
          keep=lambda o: "callbacks-end-with-the-notifier" in o.construct or o.verdict != "HOLDS")
    reuse(ctx, "C15.R7", [c07.r2], "close() cannot fail half-way: _disconnect closes the writer, never raises and clears the connection state (C07.R2)")
    reuse(ctx, "C15.R8", [c14.r3], "after a later init() the AirTouch 4 group poll runs again: reaching CONNECTED always creates the task (C14.R3)",
          keep=lambda o: "poll-task" in o.construct or "task" in o.construct or o.verdict != "HOLDS")
    reuse(ctx, "C15.R6", [state_guards], "a frame that is still being delivered while shutdown() runs cannot mark the client initialised again: every case of _message_received that changes state, sets the initialised event or starts the heartbeat is guarded by the one handshake state it belongs to, never by `!= CONNECTED` (C09.R2/R3)",
          keep=lambda o: ":state" in o.construct or o.verdict != "HOLDS")


def r1_r2(ctx):
    R1, R2 = "C15.R1", "C15.R2"
    cl = sock_fn(ctx, "close", precise=True)
    m, g = cl.module, cl.cfg
    ts = cl.tests(lambda e: dotted(e) == "self.is_open")
    ctx.check(bool(ts), R1, "close:guard", m, cl.node, "close() acts when the socket is open", "no is_open test")
    dis = [n for n, c in cl.calls("self._disconnect") if n.awaits]
    clears = [n for n, v in cl.assigns("self.is_open") if isinstance(v, ast.Constant) and v.value is False]
    for t in ts:
        tb = cl.branch(t, "true")
        ok = bool(dis) and g.all_paths_pass(tb.id, [g.exit.id], [d.id for d in dis], NONEXC)
        ctx.check(ok, R1, "close:disconnects", m, t.ast, "an open socket is disconnected (awaited) on every path", "a path skips _disconnect()")
        ok = bool(clears) and g.all_paths_pass(tb.id, [g.exit.id, g.raise_exit.id], [c.id for c in clears], None)
        ctx.check(ok, R1, "close:is_open=False", m, t.ast, "is_open becomes False on every path, also when _disconnect is cancelled or fails", "a path leaves is_open True")
    # is_open cleared before the first await: a connect scheduled by a concurrent reset while close() awaits sees a closed socket
    awaiting = [n for n in g.nodes if n.awaits]
    ok = bool(clears) and all(any(g.dominates(c.id, a.id) for c in clears) for a in awaiting)
    ctx.check(ok, R2, "close:closed-before-first-await", m, cl.node, "is_open = False dominates every await in close()", "close() suspends while the socket still counts as open, so a reconnect scheduled meanwhile passes _connect's guard")
    # idiom A: cancel every background task
    loops = [n for n in ast.walk(cl.node) if isinstance(n, ast.For)]
    cancel_ok = False
    found = "close() does not cancel the tasks in _background_tasks (a delayed connect retry survives close())"
    for lp in loops:
        ln = next((n for n in g.nodes if n.kind == "for" and n.ast is lp), None)
        it = cl.expand(lp.iter, ln) if ln is not None else lp.iter  # a local that holds the snapshot reads as the snapshot
        src = it.args[0] if isinstance(it, ast.Call) and dotted(it.func) in ("list", "tuple", "set", "frozenset") and it.args else it
        if isinstance(it, ast.Call) and (dotted(it.func) or "").endswith("_background_tasks.copy"):
            src = it.func.value
        comp_filter_ok = True
        if isinstance(it, (ast.ListComp, ast.SetComp)) and len(it.generators) == 1 and isinstance(it.generators[0].target, ast.Name) and isinstance(it.elt, ast.Name) and it.elt.id == it.generators[0].target.id:
            # snapshot written as a comprehension; the only permitted filter is `t is not <current task>`
            src = it.generators[0].iter
            for cnd in it.generators[0].ifs:
                if not (isinstance(cnd, ast.Compare) and len(cnd.ops) == 1 and isinstance(cnd.ops[0], (ast.IsNot, ast.NotEq)) and any(isinstance(x_, ast.Name) and x_.id == it.elt.id for x_ in (cnd.left, cnd.comparators[0]))):
                    comp_filter_ok = False
                    found = f"only tasks satisfying `{norm_text(cnd)}` are cancelled"
        if dotted(src) != "self._background_tasks" or not isinstance(lp.target, ast.Name) or not comp_filter_ok:
            continue
        if src is it:
            found = "iterates the live set while done-callbacks discard from it"
        cancels = [x for s in lp.body for x in ast.walk(s) if isinstance(x, ast.Call) and dotted(x.func) == f"{lp.target.id}.cancel"]
        if not cancels:
            continue
        # the only permitted filter is `task is not current_task`
        conds = [x for s in lp.body for x in ast.walk(s) if isinstance(x, ast.If)]
        filt_ok = True
        for c in conds:
            t = c.test
            simple = isinstance(t, ast.Compare) and len(t.ops) == 1 and isinstance(t.ops[0], (ast.IsNot, ast.NotEq)) and any(isinstance(x_, ast.Name) and x_.id == lp.target.id for x_ in (t.left, t.comparators[0]))
            if not simple:
                filt_ok = False
                found = f"tasks are cancelled only under `{norm_text(t)}`"
        has_exit = any(isinstance(x, (ast.Break, ast.Return, ast.Continue)) for s in lp.body for x in ast.walk(s))
        if filt_ok and not has_exit and src is not it:
            cancel_ok = True
    if cancel_ok:
        # ... before close() first suspends: a connect attempt that completes while close() awaits the disconnect would otherwise
        # leave an open connection behind
        cn_ = [n for n in g.nodes if n.ast is not None and n.kind == "stmt" and any(isinstance(x, ast.Call) and isinstance(x.func, ast.Attribute) and x.func.attr == "cancel" for x in walk_no_nested(n.ast))]
        aw_ = [n for n in g.nodes if n.awaits]
        late = [a_ for a_ in aw_ if cn_ and not any(g.exists_path(c_.id, a_.id, labels=NONEXC) for c_ in cn_) or any(g.exists_path(a_.id, c_.id, labels=NONEXC) for c_ in cn_)]
        ctx.check(not late, R2, "close:cancels-before-first-await", m, (late[0].ast if late else cl.node), "the background tasks are cancelled before close() awaits anything", f"`{norm_text(late[0].ast)[:60]}` (line {late[0].lineno}) is awaited while delayed connects and the read loop are still alive" if late else "")
    ctx.check(cancel_ok, R2, "close:cancels-background-tasks", m, cl.node, "close() cancels every task in _background_tasks (except the calling task)", found if not cancel_ok else "")
    if cancel_ok:
        # cancellation happens on every path of an open socket
        cn = [n for n in g.nodes if n.kind == "for" and any(isinstance(x, ast.Call) and (dotted(x.func) or "").endswith(".cancel") for s_ in n.ast.body for x in ast.walk(s_))]
        ok = bool(cn) and all(g.all_paths_pass(cl.branch(t, "true").id, [g.exit.id], [c.id for c in cn], NONEXC) for t in ts)
        ctx.check(ok, R2, "close:cancel-on-every-path", m, cl.node, "the cancellation loop runs on every path of close() for an open socket", "a path skips it")
    # idiom B guard
    con = sock_fn(ctx, "_connect", precise=True)
    opens = [n for n, c in con.calls("asyncio.open_connection")]
    ctx.require(opens, "socket._connect: no open_connection call")
    ok = any(con.cfg.dominates(con.branch(t, "true").id, opens[0].id) for t in con.tests(lambda e: dotted(e) == "self.is_open"))
    ctx.check(ok, R2, "_connect:refuses-when-closed", m, con.node, "open_connection is dominated by the true branch of `self.is_open`", "_connect does not test is_open: a reset caused by the close itself reconnects afterwards")
    # a connect that close() cancels schedules nothing: the retry is not placed in a `finally:` (or a BaseException / CancelledError
    # handler), where it would run while the cancellation unwinds - after close() has taken its snapshot of the tasks to cancel
    from .common import schedule_calls as _sched

    retry_calls = [c for _, c in _sched(con, "_connect")]
    in_unwind = []
    for t_ in ast.walk(con.node):
        if isinstance(t_, ast.Try):
            zones = list(t_.finalbody) + [s_ for h_ in t_.handlers if h_.type is None or any(n_ in norm_text(h_.type) for n_ in ("BaseException", "CancelledError")) for s_ in h_.body]
            for z in zones:
                for x in ast.walk(z):
                    if any(x is c for c in retry_calls):
                        in_unwind.append(x)
    ctx.check(not in_unwind, R2, "_connect:no-retry-while-unwinding", m, (in_unwind[0] if in_unwind else con.node), "the retry is scheduled on the normal path only (after the try statement), never from a finally block or a cancellation handler", "the retry runs while a cancelled _connect unwinds: close() has already cancelled what it knew, the new task survives shutdown")
    # the in-flight flag must be released when close() cancels a pending connect, or a later init() can never connect
    from . import c07

    before = len(ctx.obligations)
    c07.r4(ctx)
    new = ctx.obligations[before:]
    del ctx.obligations[before:]
    for o in new:
        if o.construct == "_connect:single-flight":
            o.rule = R2
            o.construct = "_connect:in-flight-flag-released-on-cancel"
            ctx.obligations.append(o)
    # open_socket: schedule connect iff not open, then mark open (no await between)
    op = sock_fn(ctx, "open_socket")
    sch = [n for n, c in schedule_calls(op, "_connect")]
    sets = [n for n, v in op.assigns("self.is_open") if isinstance(v, ast.Constant) and v.value is True]
    tt = op.tests(lambda e: dotted(e) == "self.is_open")
    ok = bool(sch) and bool(sets) and bool(tt) and all(op.cfg.dominates(op.branch(t, "false").id, n.id) for t in tt for n in sch + sets) and not any(op.awaits_between(a, b) for a in sch for b in sets) and not any(op.awaits_between(b, a) for a in sch for b in sets)
    ctx.check(ok, R2, "open_socket:schedule-and-mark-open-atomically", m, op.node, "under `not is_open`: _schedule(_connect()) and is_open = True without an await in between (the scheduled task must see an open socket)", "not atomic or not guarded")


def _no_untracked_timers(ctx):
    """Everything that acts later is a task the owner can cancel: no loop.call_later/call_at/call_soon timers and no
    asyncio.ensure_future in the client (close()/stop()/shutdown() cancel tasks, they cannot cancel bare timer handles)."""
    R = "C15.R2"
    bad = package_calls(ctx.repo, lambda d: d.split(".")[-1] in ("call_later", "call_at", "call_soon", "call_soon_threadsafe", "ensure_future"))
    bad = [(m, q, c) for m, q, c in bad if m.name in (SOCKET, HEARTBEAT, AT4_API, AT5_API, "pyairtouch.api")]
    ctx.check(not bad, R, "client:no-untracked-timers", ctx.repo.module(SOCKET), (bad[0][2] if bad else None), "deferred actions are tasks tracked by their owner (cancellable on close), never bare loop timers", "; ".join(f"{m.relpath}:{q}: {norm_text(c)[:60]}" for m, q, c in bad))


def _stored_tasks(ctx, modname, clsname):
    """create_task results stored in attributes/containers of the class: [(method qual, storage text, call)]"""
    m = ctx.repo.module(modname)
    ci = m.get_class(clsname)
    out = []
    for name, fnode in ci.methods.items():
        for st in walk_no_nested(fnode):
            if isinstance(st, ast.Assign) and isinstance(st.value, ast.Call) and (dotted(st.value.func) or "").endswith("create_task"):
                for t in st.targets:
                    if (dotted(t) or "").startswith("self."):
                        out.append((f"{clsname}.{name}", dotted(t), st.value))
            if isinstance(st, ast.Call) and (dotted(st.func) or "").startswith("self.") and (dotted(st.func) or "").split(".")[-1] in ("append", "add"):
                for a in st.args:
                    if isinstance(a, ast.Call) and (dotted(a.func) or "").endswith("create_task"):
                        out.append((f"{clsname}.{name}", ".".join(dotted(st.func).split(".")[:-1]), a))
        # handles that pass through a local first: `t = create_task(...)` ... `self.x.append(t)` / `self.x = t`
        f = None
        for st in walk_no_nested(fnode):
            cand = None
            if isinstance(st, ast.Call) and (dotted(st.func) or "").startswith("self.") and (dotted(st.func) or "").split(".")[-1] in ("append", "add") and len(st.args) == 1 and isinstance(st.args[0], ast.Name):
                cand = (st.args[0], ".".join(dotted(st.func).split(".")[:-1]), st)
            elif isinstance(st, ast.Assign) and isinstance(st.value, ast.Name) and len(st.targets) == 1 and (dotted(st.targets[0]) or "").startswith("self."):
                cand = (st.value, dotted(st.targets[0]), st)
            if cand is None:
                continue
            f = f or Fn(ctx.repo, m, f"{clsname}.{name}")
            node = f.node_of(cand[2])
            if node is None:
                continue
            u = f.unique_def_value(cand[0].id, node)
            if u is not None and isinstance(u[1], ast.Call) and (dotted(u[1].func) or "").endswith("create_task"):
                out.append((f"{clsname}.{name}", cand[1], u[1]))
    return out


def _cancel_await(ctx, fn: Fn, storage: str):
    """Does fn cancel and await the task(s) held in `storage` on every normal path (optionally under `if storage:`)?"""
    src = fn.node
    # direct attribute
    direct = [n for n, c in fn.calls(f"{storage}.cancel")]
    awaited = [n for n in fn.cfg.nodes if n.kind == "stmt" and n.awaits and any(isinstance(x, ast.Await) and dotted(x.value) == storage for x in walk_no_nested(n.ast))]
    if direct and awaited:
        tests = fn.presence(storage)
        start = fn.branch(tests[0][0], tests[0][1]).id if tests else fn.cfg.entry.id
        ok = fn.cfg.all_paths_pass(start, [fn.cfg.exit.id], [n.id for n in direct], NONEXC) and fn.cfg.all_paths_pass(start, [fn.cfg.exit.id], [n.id for n in awaited], NONEXC | {"exc"})
        if ok and tests:
            # the presence test is the ONLY way around the cancellation: from the entry every normal path meets the cancel or
            # the "no task stored" branch of that test (a second conjunct such as `self._zones and <task>` skips a live task)
            absent = fn.branch(tests[0][0], "false" if tests[0][1] == "true" else "true").id
            ok = fn.cfg.all_paths_pass(fn.cfg.entry.id, [fn.cfg.exit.id], [n.id for n in direct] + [absent], NONEXC)
        return ok
    # container
    for lp in [n for n in ast.walk(src) if isinstance(n, ast.For)]:
        if dotted(lp.iter) == storage and isinstance(lp.target, ast.Name):
            v = lp.target.id
            c = any(isinstance(x, ast.Call) and dotted(x.func) == f"{v}.cancel" for s in lp.body for x in ast.walk(s))
            a = any(isinstance(x, ast.Await) and dotted(x.value) == v for s in lp.body for x in ast.walk(s))
            early = any(isinstance(x, (ast.Break, ast.Return)) for s in lp.body for x in ast.walk(s))
            # awaiting a cancelled task raises CancelledError: it has to be absorbed INSIDE the loop body (try / suppress around the
            # await), otherwise the first task ends the loop and the remaining ones are never cancelled
            def _absorbed(aw):
                for st in ast.walk(lp):
                    if st is lp:
                        continue
                    inside = any(y is aw for y in ast.walk(st))
                    if not inside:
                        continue
                    if isinstance(st, ast.Try) and any(h.type is None or "CancelledError" in unparse(h.type) or (dotted(h.type) or "").split(".")[-1] == "BaseException" for h in st.handlers) and any(y is aw for b_ in st.body for y in ast.walk(b_)):
                        return True
                    if isinstance(st, (ast.With, ast.AsyncWith)) and any("suppress" in unparse(i.context_expr) and "CancelledError" in unparse(i.context_expr) for i in st.items):
                        return True
                return False
            aws = [x for s in lp.body for x in ast.walk(s) if isinstance(x, ast.Await) and dotted(x.value) == v]
            if c and a and not early and all(_absorbed(x) for x in aws):
                return True
    return False


def r3(ctx):
    R = "C15.R3"
    # heartbeat manager
    hb_tasks = _stored_tasks(ctx, HEARTBEAT, "HeartbeatManager")
    stop = fn_of(ctx, HEARTBEAT, "HeartbeatManager.stop")
    hm = stop.module
    ctx.check(len(hb_tasks) >= 2, R, "HeartbeatManager:tasks-stored", hm, None, "both heartbeat loops are created with create_task and their handles stored", f"{len(hb_tasks)} stored tasks")
    for q, storage, call in hb_tasks:
        ctx.check(_cancel_await(ctx, stop, storage), R, f"HeartbeatManager.stop:cancels({storage})", hm, call, f"stop() cancels and awaits every task in {storage}", "no cancel+await loop over it")
    clr = [n for n, c in stop.calls("self._heartbeat_tasks.clear")]
    ok = bool(clr)
    ctx.check(ok, R, "HeartbeatManager.stop:forgets-tasks", hm, stop.node, "stop() empties _heartbeat_tasks (so a later start() starts again)", "task list not cleared")
    uns = [n for n, c in stop.calls("unsubcribe_on_message_received") + stop.calls("unsubscribe_on_message_received")]
    ctx.check(bool(uns), R, "HeartbeatManager.stop:unsubscribes", hm, stop.node, "stop() unsubscribes the response listener", "no unsubscribe")
    # unawaited create_task results anywhere in the three classes (fire and forget would leak)
    for modname, clsname in ((HEARTBEAT, "HeartbeatManager"), (AT4_API, "AirTouch4"), (AT5_API, "AirTouch5")):
        m = ctx.repo.module(modname)
        ci = m.get_class(clsname)
        stored = _stored_tasks(ctx, modname, clsname)
        allc = [x for fnode in ci.methods.values() for x in walk_no_nested(fnode) if isinstance(x, ast.Call) and (dotted(x.func) or "").endswith("create_task")]
        # one creation site per stored handle: a second site that overwrites the attribute (e.g. "restart the poll on reconnect")
        # orphans the task the attribute held - shutdown() cancels only the last one
        by_attr = {}
        for q_, storage_, call_ in stored:
            if not storage_.split(".")[-1].endswith(("tasks", "_tasks")) and not any(x in storage_ for x in ("append", "add")):
                by_attr.setdefault(storage_, []).append((q_, call_))
        for storage_, sites in by_attr.items():
            plain = [sc for sc in sites if True]
            if storage_.endswith("s"):
                continue  # a container of handles
            ctx.check(len(plain) == 1, R, f"{clsname}:one-creation-site({storage_})", m, plain[-1][1], f"{storage_} is given a new task at one place only (the previous task cannot be overwritten while it runs)", f"{len(plain)} sites: " + ", ".join(q for q, _ in plain))
        ctx.check(len(allc) == len(stored), R, f"{clsname}:no-untracked-tasks", m, (allc[0] if allc else ci.node), "every task the class creates is stored so that it can be cancelled", f"{len(allc)} create_task calls, {len(stored)} stored")
    # shutdown of both generations
    for modname, clsname in ((AT4_API, "AirTouch4"), (AT5_API, "AirTouch5")):
        sd = fn_of(ctx, modname, f"{clsname}.shutdown", precise=True)
        m, g = sd.module, sd.cfg
        for q, storage, call in _stored_tasks(ctx, modname, clsname):
            ctx.check(_cancel_await(ctx, sd, storage), R, f"{clsname}.shutdown:cancels({storage})", m, call, f"shutdown() cancels and awaits {storage}", "not cancelled in shutdown()")
        steps = {
            "stop-heartbeat": [n for n, c in sd.calls("self._heartbeat_manager.stop") if n.awaits],
            "close-socket": [n for n, c in sd.calls("self._socket.close") if n.awaits],
            "clear-initialised": [n for n, c in sd.calls("self._initialised_event.clear")],
            "clear-acs": [n for n, c in sd.calls("self._air_conditioners.clear")],
            "clear-zones": [n for n, c in sd.calls("self._zones.clear")],
            "state-CLOSED": [n for n, v in sd.assigns("self._state") if (dotted(v) or "").endswith(".CLOSED")],
        }
        for name, nodes in steps.items():
            ok = bool(nodes) and g.all_paths_pass(g.entry.id, [g.exit.id], [n.id for n in nodes], NONEXC)
            ctx.check(ok, R, f"{clsname}.shutdown:{name}", m, sd.node, f"shutdown() performs '{name}' on every normal path (not behind an early exit)", "missing or skippable")
        hb, cs = steps["stop-heartbeat"], steps["close-socket"]
        if hb and cs:
            ok = all(g.dominates(h.id, c.id) for h in hb for c in cs)
            ctx.check(ok, R, f"{clsname}.shutdown:heartbeat-stopped-before-close", m, cs[0].ast, "the heartbeat is stopped before the socket is closed (a tick during close() would send on a closed socket and abort shutdown)", "socket closed first")
        st, rest = steps["state-CLOSED"], [n for n in g.nodes if n.awaits]
        if st and rest:
            ok = all(any(g.dominates(s.id, r.id) for s in st) for r in rest)
            ctx.check(ok, R, f"{clsname}.shutdown:state-first", m, st[0].ast, "state = CLOSED before anything is awaited (late frames are ignored)", "awaits happen while the state machine is still live")
        ci_, rest = steps["clear-initialised"], [n for n in g.nodes if n.awaits]
        if ci_ and rest:
            ok = all(any(g.dominates(s.id, r.id) for s in ci_) for r in rest)
            ctx.check(ok, R, f"{clsname}.shutdown:initialised-cleared-first", m, ci_[0].ast, "`initialised` is withdrawn before anything is awaited: an init() issued while shutdown() is suspended waits for its own handshake instead of returning True for the model that is being torn down", "shutdown() suspends while the client still reports itself initialised")


def r4(ctx):
    from . import c16

    before = len(ctx.obligations)
    c16.r3(ctx)
    new = ctx.obligations[before:]
    del ctx.obligations[before:]
    for o in new:
        o.rule = "C15.R4"
        ctx.obligations.append(o)


def _queue_resets(fn: Fn):
    out = [n for n, c in fn.calls("self._message_queue.clear")]
    out += [n for n, v in fn.assigns("self._message_queue") if isinstance(v, ast.Call) and (dotted(v.func) or "").split(".")[-1] == "deque" and not v.args]
    return out


def r5(ctx):
    R = "C15.R5"
    # a message still queued when the socket is closed must not be written by the next session (a fresh object has an empty queue)
    cl = sock_fn(ctx, "close", precise=True)
    op = sock_fn(ctx, "open_socket", precise=True)
    ok = False
    for f, want_true in ((cl, True), (op, False)):
        resets = _queue_resets(f)
        for t in f.tests(lambda e: dotted(e) == "self.is_open"):
            # close(): `if self.is_open:` -> true branch acts; open_socket(): `if not self.is_open:` is decomposed so the acting branch is "false"
            b = f.branch(t, "true" if want_true else "false")
            if resets and f.cfg.all_paths_pass(b.id, [f.cfg.exit.id], [r.id for r in resets], NONEXC):
                ok = True
    ctx.check(ok, R, "close/open_socket:pending-queue-discarded", cl.module, cl.node, "messages still queued at close() are discarded (in close(), or in open_socket() before connecting), so a later init() starts with an empty queue like a fresh object", "the queue survives close(): an unexpired command of the previous session is written as soon as the next session connects")
    # ... and nothing is put (back) into the queue once the socket is not open: a write in flight when close() runs fails with an
    # OSError (the writer was closed under it); its re-queue must be refused, close() has already emptied the queue
    dr = sock_fn(ctx, "_drain_message_queue", precise=True)
    puts = dr.calls("_message_queue.appendleft") + dr.calls("_message_queue.append") + dr.calls("_message_queue.insert")
    for pn, pc in puts:
        guard = False
        for t in dr.tests(lambda e: dotted(e) == "self.is_open"):
            if dr.cfg.dominates(dr.branch(t, "true").id, pn.id) and not [a_ for a_ in dr.awaits_between(t, pn) if a_.id != pn.id]:
                guard = True
        ctx.check(guard, R, "_drain_message_queue:no-requeue-after-close", dr.module, pc, "the re-queue of a failed write happens only while `self.is_open` holds (tested with no await in between)", "a write that fails because close() closed the writer under it is put back into the queue close() has just emptied; the next session transmits it")
    for modname, clsname in ((AT4_API, "AirTouch4"), (AT5_API, "AirTouch5")):
        ini = fn_of(ctx, modname, f"{clsname}.init")
        m, g = ini.module, ini.cfg
        steps = {
            "state-CONNECTING": [n for n, v in ini.assigns("self._state") if (dotted(v) or "").endswith(".CONNECTING")],
            "subscribe-connection": [n for n, c in ini.calls("self._socket.subscribe_on_connection_changed") if c.args and dotted(c.args[0]) == "self._connection_changed"],
            "subscribe-messages": [n for n, c in ini.calls("self._socket.subscribe_on_message_received") if c.args and dotted(c.args[0]) == "self._message_received"],
            "open-socket": [n for n, c in ini.calls("self._socket.open_socket") if n.awaits],
        }
        for name, nodes in steps.items():
            ok = bool(nodes) and g.all_paths_pass(g.entry.id, [g.exit.id], [n.id for n in nodes], NONEXC)
            ctx.check(ok, R, f"{clsname}.init:{name}", m, ini.node, f"init() performs '{name}' unconditionally", "missing or conditional")
        o = steps["open-socket"]
        pre = steps["state-CONNECTING"] + steps["subscribe-connection"] + steps["subscribe-messages"]
        if o and pre:
            ctx.check(all(g.dominates(p.id, o[0].id) for p in pre), R, f"{clsname}.init:order", m, ini.node, "state and subscriptions are in place before the socket is opened", "socket opened first")
    # subscriber containers of the socket are sets (idempotent subscribe) - checked in C12.R4; here: start() guard and stop() reset
    st = fn_of(ctx, HEARTBEAT, "HeartbeatManager.start")
    hm = st.module
    tt = st.tests(lambda e: dotted(e) == "self._heartbeat_tasks")
    creates = [n for n, c in st.calls("create_task")]
    ok = bool(tt) and len(creates) >= 2 and all(st.cfg.dominates(st.branch(t, "false").id, c.id) for t in tt for c in creates)
    ctx.check(ok, R, "HeartbeatManager.start:idempotent", hm, st.node, "start() creates its two tasks only when none are running", "guard missing")
    clr = [n for n, c in st.calls("self._response_received.clear")]
    sub = [n for n, c in st.calls("self._socket.subscribe_on_message_received")]
    ctx.check(bool(clr) and bool(sub), R, "HeartbeatManager.start:fresh-state", hm, st.node, "start() clears the response event and subscribes the listener", "missing")
