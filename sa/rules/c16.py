"""C16 - pending-message buffer is bounded and overflow is explicit (structural clauses)."""
from __future__ import annotations

import ast

from ..model import AnalysisError, dotted, norm_text, unparse, walk_no_nested
from ..q import NONEXC, Fn, cmp_oriented, package_calls
from .common import SOCKET, SOCK_CLS, queue_ref, sock_fn

LEVEL = "other"
EXPLANATION = (
    "Static analysis of AirTouchSocket._enqueue_message / send_with_header / send: R1 purge -> capacity test -> append in "
    "dominance order, the capacity test in normal form len(queue) >= MAX_MESSAGE_QUEUE_SIZE (== 10) raising QueueOverflowError, no "
    "queue mutation between purge and raise; R2 the purge is a full scan of the queue in one of the accepted deletion-safe idioms "
    "(descending indices, iteration over a copy, or rebuild by filtering) with no early exit; R3 the not-open test raises before "
    "anything is built or queued and send() delegates to send_with_header; R4 expired entries are never written (C02.R2 re-used); R5 close() marks the socket not open before its first await, so a send racing with close() is refused and holds nothing (C15.R1/R2 re-used)."
    ' Rounds 7-8: R3 also: nothing is awaited between the is_open test and the enqueue.'
    ' Rounds 9-10: R1 also: the pending queue is a plain deque with no maxlen (nothing is discarded silently).'
)
ASSUMPTIONS = ["deque deletion by index shifts later elements down (why ascending-index deletion is refuted)"]
FLOORS = {"C16.R1": 4, "C16.R2": 1, "C16.R3": 3, "C16.R4": 1, "C16.R5": 1, "C16.R6": 1}


def run(ctx):
    enq = sock_fn(ctx, "_enqueue_message")
    m = enq.module
    r2_nodes = r2(ctx, enq)
    r1(ctx, enq, r2_nodes)
    r3(ctx)
    r4(ctx)
    r5(ctx)
    r6(ctx)


def r6(ctx):
    from . import c02
    from .common import reuse

    reuse(ctx, "C16.R6", [c02.r1_r3], "a message whose write failed is back in the queue before anything else can be accepted, so the ten-message bound counts it (C02.R3)",
          keep=lambda o: "requeue-before-the-handler-suspends" in o.construct or "re-queue-at-head" in o.construct or o.verdict != "HOLDS")


def r5(ctx):
    """'not open' begins when close() begins: a send racing with close() must get the not-open error and hold nothing."""
    from . import c15
    from .common import reuse

    reuse(ctx, "C16.R5", [c15.r1_r2], "close() marks the socket not open before it first suspends, so a send issued while close() is in progress raises NotOpenError and holds nothing (C15.R1/R2)",
          keep=lambda o: o.construct in ("close:closed-before-first-await", "close:is_open=False", "close:guard"))


def _is_len_queue(e):
    return isinstance(e, ast.Call) and dotted(e.func) == "len" and len(e.args) == 1 and queue_ref(e.args[0])


def r1(ctx, enq: Fn, purge_nodes):
    R = "C16.R1"
    m = enq.module
    maxv = ctx.repo.try_fold(m, m.get_const_expr("MAX_MESSAGE_QUEUE_SIZE"))
    ctx.check(maxv == 10, R, "const:MAX_MESSAGE_QUEUE_SIZE", m, m.assign_nodes["MAX_MESSAGE_QUEUE_SIZE"], "10 pending messages", repr(maxv))
    # the only bound of the queue is the explicit test below: a container that discards on its own (deque(maxlen=...)) turns the
    # re-queue of a failed write on a full queue into the silent loss of the newest held message
    sci = m.get_class("AirTouchSocket")
    ctors = []
    for mn, mnode in sci.methods.items():
        for a_ in ast.walk(mnode):
            tg = a_.targets[0] if isinstance(a_, ast.Assign) and len(a_.targets) == 1 else (a_.target if isinstance(a_, ast.AnnAssign) else None)
            if tg is not None and dotted(tg) == "self._message_queue" and getattr(a_, "value", None) is not None:
                ctors.append((mn, a_))
    ctx.require(ctors, "socket.AirTouchSocket: no assignment to self._message_queue")
    for mn, a_ in ctors:
        v = a_.value
        okc = isinstance(v, ast.Call) and (dotted(v.func) or "").split(".")[-1] == "deque" and len(v.args) <= 1
        if okc:
            for k in v.keywords:
                if k.arg != "maxlen" or ctx.repo.try_fold(m, k.value) is not None or not (isinstance(k.value, ast.Constant) and k.value.value is None):
                    okc = False
        ctx.check(okc, R, f"{mn}:queue-is-an-unbounded-deque", m, a_, "the pending queue is a plain deque with no maxlen: nothing is ever discarded except by the purge of expired entries and the explicit overflow error", norm_text(v)[:100])
    appends = enq.calls("_message_queue.append")
    ctx.require(appends, "socket._enqueue_message: no append (see C01.R1)")
    cap_tests = []
    for t in enq.tests(lambda e: isinstance(e, ast.Compare)):
        o = cmp_oriented(t.ast, _is_len_queue)
        if o is not None:
            cap_tests.append((t, o))
    if not cap_tests:
        ctx.violation(R, "_enqueue_message:capacity-test", m, enq.node, "len(queue) >= MAX_MESSAGE_QUEUE_SIZE raises QueueOverflowError before the append", "no comparison on len(self._message_queue)")
        return
    for an, acall in appends:
        ok = False
        found = "the append is not dominated by the false branch of a capacity test"
        for t, (l, op, r) in cap_tests:
            bound = ctx.repo.try_fold(m, r)
            # normalise to: overflow when len >= K
            k = None
            if isinstance(bound, int):
                if op == ">=":
                    k, over_label = bound, "true"
                elif op == ">":
                    k, over_label = bound + 1, "true"
                elif op == "<":
                    k, over_label = bound, "false"
                elif op == "<=":
                    k, over_label = bound + 1, "false"
                elif op == "==":
                    k, over_label = bound, "true"
            if k is None:
                found = f"capacity test `{norm_text(t.ast)}` not understood"
                continue
            ok_label = "false" if over_label == "true" else "true"
            over_b = enq.branch(t, over_label)
            if not enq.cfg.dominates(enq.branch(t, ok_label).id, an.id):
                continue
            # the overflow branch must raise QueueOverflowError and never reach the append or the normal exit
            raises = [n for n in enq.cfg.nodes if n.kind == "stmt" and isinstance(n.ast, ast.Raise) and enq.cfg.dominates(over_b.id, n.id)]
            is_over = any("QueueOverflowError" in unparse(n.ast) for n in raises)
            escapes = enq.cfg.exit.id in enq.cfg.reachable(over_b.id, labels=NONEXC) or an.id in enq.cfg.reachable(over_b.id, labels=NONEXC)
            if k != maxv or k != 10:
                found = f"overflow is raised when len(queue) >= {k}; the property allows exactly ten held messages"
            elif not is_over or escapes:
                found = "the overflow branch does not unconditionally raise QueueOverflowError"
            else:
                ok = True
                # order: purge before capacity test
                if purge_nodes:
                    before = all(enq.cfg.dominates(p.id, t.id) for p in purge_nodes)
                    ctx.check(before, R, "_enqueue_message:purge-before-capacity-test", m, t.ast, "expired entries are discarded before the capacity test", "the capacity test can run before the purge")
                    muts = []
                    for p in purge_nodes:
                        for x in enq.cfg.between(p.id, t.id, NONEXC):
                            nd = enq.cfg.nodes[x]
                            if nd.kind == "stmt" and nd.ast is not None and any(isinstance(y, ast.Call) and (dotted(y.func) or "").split(".")[-1] in ("append", "appendleft", "extend", "insert") and "_message_queue" in (dotted(y.func) or "") for y in walk_no_nested(nd.ast)):
                                muts.append(nd)
                    ctx.check(not muts, R, "_enqueue_message:no-growth-before-test", m, t.ast, "nothing is added to the queue between the purge and the capacity test", f"line {muts[0].lineno}" if muts else "")
        ctx.check(ok, R, "_enqueue_message:capacity-test-dominates-append", m, acall, "append happens only when len(queue) < 10; otherwise QueueOverflowError", found)


def _purge_semantics(ctx, enq: Fn):
    """Bounded abstract evaluation of _enqueue_message (sa/minieval.py): for every queue of 0..5 held entries and every
    pattern of which of them have expired, and for a full queue (10 held, every number of expired ones), the method must
    leave exactly the unexpired entries in their order followed by the new one - or raise the overflow error and hold
    nothing new when ten unexpired entries are held.  Returns (True, note) / (False, witness) / (None, why-not-evaluable)."""
    from itertools import product

    from ..minieval import FakeObj, Mini, Unsupported

    m = enq.module
    p = enq.params[1]
    cap = ctx.repo.try_fold(m, m.get_const_expr("MAX_MESSAGE_QUEUE_SIZE")) if "MAX_MESSAGE_QUEUE_SIZE" in m.assigns else None
    if not isinstance(cap, int):
        return None, "capacity constant not foldable"
    patterns = [pat for n in range(0, 6) for pat in product((False, True), repeat=n)]
    patterns += [tuple([True] * k + [False] * (cap - k)) for k in range(0, cap + 1)] + [tuple([False] * (cap - k) + [True] * k) for k in range(1, cap)]
    tried = 0
    for pat in patterns:
        now = 50.0
        held = [FakeObj("_MessageQueueEntry", expiry=(now if i % 2 else 10.0) if exp else 100.0 + i, tag=f"e{i}", header=None, message=None, retries_remaining=0) for i, exp in enumerate(pat)]
        queue = list(held)
        new = FakeObj("_MessageQueueEntry", expiry=200.0, tag="new", header=None, message=None, retries_remaining=0)
        mini = Mini(ctx.repo, m, {"self._message_queue": queue, "self._loop.time()": now}, enq.cls)
        try:
            res = mini.function_value(enq.node, {p: new})
        except Unsupported as ex:
            return None, str(ex)
        after = mini.atoms["self._message_queue"]
        keep = [e for e, exp in zip(held, pat) if not exp]
        tried += 1
        tags = lambda xs: [x.tag for x in xs]  # noqa: E731
        if len(keep) >= cap:
            ok = res == ("raise", "QueueOverflowError") and tags(after) == tags(keep)
            want = f"QueueOverflowError, still holding {tags(keep)}"
        else:
            ok = res is None and tags(after) == tags(keep) + ["new"]
            want = f"holding {tags(keep) + ['new']}"
        if not ok:
            shown = "".join("x" if e else "." for e in pat)
            return False, f"held entries (x = expired) [{shown}]: expected {want}; the method {'raises ' + res[1] if isinstance(res, tuple) else 'returns'} and holds {tags(after)}"
    return True, f"{tried} queue contents evaluated"


def r2(ctx, enq: Fn):
    """Accepted purge idioms (a full, deletion-safe scan):
       A  for i in reversed(range(len(q))) / range(len(q)-1, -1, -1): ... del q[i]
       B  for e in list(q) / tuple(q) / q.copy(): ... q.remove(e)
       C  self._message_queue = deque(e for e in q if <keep>)   (rebuild)
    Anything else that removes entries in _enqueue_message is refuted: it is either unsafe (ascending index,
    iterating the live deque) or not a full scan (stops at the first unexpired entry)."""
    R = "C16.R2"
    m = enq.module
    sem, note = _purge_semantics(ctx, enq)
    if sem is not None:
        # decided by evaluation; the idiom scan below only collects the purge statements for the rules that need them
        ctx.check(sem, R, "_enqueue_message:purge-idiom", m, enq.node, "every expired entry is discarded and every unexpired one kept, in order, before the capacity test (any scan idiom)", note)
        before = len(ctx.obligations)
        fl = dict(ctx.floor_failures) if isinstance(getattr(ctx, "floor_failures", None), dict) else None
        nodes = _r2_idioms(ctx, enq)
        del ctx.obligations[before:]
        return nodes
    return _r2_idioms(ctx, enq)


def _r2_idioms(ctx, enq: Fn):
    R = "C16.R2"
    m = enq.module
    dels = [n for n in enq.cfg.nodes if n.kind == "stmt" and isinstance(n.ast, ast.Delete) and any(isinstance(t, ast.Subscript) and queue_ref(t.value) for t in n.ast.targets)]
    removes = [n for n, c in enq.calls("_message_queue.remove")]
    pops = [n for n, c in enq.calls("_message_queue.popleft") + enq.calls("_message_queue.pop")]
    rebuilds = [n for n, v in enq.assigns("self._message_queue")]
    loops = [n for n in enq.cfg.nodes if n.kind == "for"]
    purge_nodes = []
    if not (dels or removes or pops or rebuilds):
        ctx.violation(R, "_enqueue_message:purge", m, enq.node, "expired entries are discarded on every enqueue", "no deletion from the queue in _enqueue_message")
        return purge_nodes
    for pn in pops:
        ctx.violation(R, "_enqueue_message:purge-idiom", m, pn.ast, "the purge visits every queued entry (idioms: descending-index del, remove() over a copy, rebuild by filter)", f"`{norm_text(pn.ast)[:80]}` only removes entries from one end, so an expired entry behind an unexpired one survives and still counts against the limit")
    for dn in dels:
        loop = next((l for l in loops if any(x is dn.ast for s in l.ast.body for x in ast.walk(s))), None)
        if loop is None:
            ctx.violation(R, "_enqueue_message:purge-idiom", m, dn.ast, "index deletion happens inside a descending index loop over the whole queue", "del outside a for loop")
            continue
        it = loop.ast.iter
        tgt = loop.ast.target
        idx_ok = isinstance(tgt, ast.Name) and all(isinstance(t, ast.Subscript) and isinstance(t.slice, ast.Name) and t.slice.id == tgt.id for t in dn.ast.targets)
        descending = False
        full = False
        if isinstance(it, ast.Call) and dotted(it.func) == "reversed" and len(it.args) == 1:
            inner = it.args[0]
            if isinstance(inner, ast.Call) and dotted(inner.func) == "range" and len(inner.args) == 1 and _is_len_queue(inner.args[0]):
                descending, full = True, True
        elif isinstance(it, ast.Call) and dotted(it.func) == "range" and len(it.args) == 3:
            a, b, c = it.args
            if ctx.repo.try_fold(m, c) == -1 and ctx.repo.try_fold(m, b) == -1 and isinstance(a, ast.BinOp) and isinstance(a.op, ast.Sub) and _is_len_queue(a.left) and ctx.repo.try_fold(m, a.right) == 1:
                descending, full = True, True
        has_break = any(isinstance(x, (ast.Break, ast.Return)) for s in loop.ast.body for x in ast.walk(s))
        ok = idx_ok and descending and full and not has_break
        found = ""
        if not ok:
            found = f"loop `for {unparse(tgt)} in {unparse(it)}`" + ("; ascending or partial index range: deleting shifts later entries (skips one / IndexError)" if not descending else "") + ("; early exit" if has_break else "")
        ctx.check(ok, R, "_enqueue_message:purge-idiom", m, loop.ast, "descending index scan over range(len(queue)) without early exit", found)
        purge_nodes.append(loop)
    for rn in removes:
        loop = next((l for l in loops if any(x is rn.ast for s in l.ast.body for x in ast.walk(s))), None)
        it = loop.ast.iter if loop is not None else None
        copy_ok = isinstance(it, ast.Call) and ((dotted(it.func) in ("list", "tuple") and len(it.args) == 1 and queue_ref(it.args[0])) or ((dotted(it.func) or "").endswith("_message_queue.copy")))
        has_break = loop is not None and any(isinstance(x, (ast.Break, ast.Return)) for s in loop.ast.body for x in ast.walk(s))
        ctx.check(loop is not None and copy_ok and not has_break, R, "_enqueue_message:purge-idiom", m, rn.ast, "remove() while iterating a copy of the whole queue, no early exit", f"iterating {unparse(it) if it is not None else 'nothing'}")
        if loop is not None:
            purge_nodes.append(loop)
    for rb in rebuilds:
        v = rb.ast.value if isinstance(rb.ast, ast.Assign) else None
        ok = isinstance(v, ast.Call) and (dotted(v.func) or "").split(".")[-1] == "deque" and len(v.args) == 1 and isinstance(v.args[0], (ast.GeneratorExp, ast.ListComp)) and any(queue_ref(g.iter) for g in v.args[0].generators)
        ctx.check(ok, R, "_enqueue_message:purge-idiom", m, rb.ast, "rebuild: deque(e for e in queue if keep(e))", norm_text(rb.ast)[:100])
        purge_nodes.append(rb)
    return purge_nodes


def r3(ctx):
    R = "C16.R3"
    swh = sock_fn(ctx, "send_with_header")
    m = swh.module
    guarded = []
    targets = swh.calls("_MessageQueueEntry") + swh.calls("self._enqueue_message") + swh.calls("self._drain_message_queue")
    ctx.require(targets, "socket.send_with_header: nothing to guard")
    open_tests = swh.tests(lambda e: dotted(e) == "self.is_open")
    ok_all = True
    for n, call in targets:
        ok = any(swh.cfg.dominates(swh.branch(t, "true").id, n.id) for t in open_tests)
        ok_all &= ok
        ctx.check(ok, R, f"send_with_header:open-check-before:{(dotted(call.func) or '').split('.')[-1]}", m, call, "dominated by the true branch of `self.is_open` (the false branch raises NotOpenError)", "reachable while the socket is not open")
    # the test is about the moment of queueing: nothing suspends between the open test and the enqueue (close() could run there)
    enqs = [n for n, c in swh.calls("self._enqueue_message")]
    for t in open_tests:
        for en in enqs:
            aw = [a_ for a_ in swh.awaits_between(t, en) if a_.id != en.id]
            ctx.check(not aw, R, "send_with_header:no-await-between-open-check-and-enqueue", m, t.ast, "nothing is awaited between the is_open test and the enqueue", f"await at line {aw[0].lineno}: close() can complete there and the message is then held by a closed socket" if aw else "")
    raise_ok = False
    for t in open_tests:
        fb = swh.branch(t, "false")
        raises = [n for n in swh.cfg.nodes if n.kind == "stmt" and isinstance(n.ast, ast.Raise) and "NotOpenError" in unparse(n.ast) and swh.cfg.dominates(fb.id, n.id)]
        if raises and swh.cfg.exit.id not in swh.cfg.reachable(fb.id, labels=NONEXC):
            raise_ok = True
    ctx.check(raise_ok, R, "send_with_header:not-open-raises", m, swh.node, "`not self.is_open` raises NotOpenError on every path", "no unconditional raise on the not-open branch")
    send = sock_fn(ctx, "send")
    dn = [n for n, c in send.calls("self.send_with_header") if n.awaits]
    ok = bool(dn) and send.cfg.all_paths_pass(send.cfg.entry.id, [send.cfg.exit.id], [d.id for d in dn], NONEXC)
    ctx.check(ok, R, "send:delegates", m, send.node, "every normal path of send() awaits send_with_header (which performs the open check)", "a path bypasses send_with_header")
    q = [n for n, c in send.calls("_enqueue_message") + send.calls("_message_queue.append")]
    ctx.check(not q, R, "send:no-direct-queueing", m, send.node, "send() queues nothing itself", "direct queue access in send()")


def r4(ctx):
    from . import c02

    before = len(ctx.obligations)
    c02.r2(ctx)
    new = ctx.obligations[before:]
    del ctx.obligations[before:]
    for o in new:
        if o.construct.startswith("_drain_message_queue:expiry-before-write") or o.construct.startswith("_enqueue_message:purge-at-expiry") or o.verdict != "HOLDS":
            o.rule = "C16.R4"
            ctx.obligations.append(o)
