"""Anchors shared by several rule modules."""
from __future__ import annotations

import ast

from ..model import AnalysisError, dotted, unparse, norm_text
from ..q import Fn

SOCKET = "pyairtouch.comms.socket"
HEARTBEAT = "pyairtouch.comms.heartbeat"
AT4_API = "pyairtouch.at4.api"
AT5_API = "pyairtouch.at5.api"
API = "pyairtouch.api"
SOCK_CLS = "AirTouchSocket"


def sock_fn(ctx, name: str, precise: bool = False) -> Fn:
    m = ctx.repo.module(SOCKET)
    ctx.fn(m, f"{SOCK_CLS}.{name}")
    return Fn(ctx.repo, m, f"{SOCK_CLS}.{name}", ctx.effects if precise else None)


def fn_of(ctx, module_name: str, qual: str, precise: bool = False) -> Fn:
    m = ctx.repo.module(module_name)
    ctx.fn(m, qual)
    return Fn(ctx.repo, m, qual, ctx.effects if precise else None)


def schedule_calls(fn: Fn, coro: str) -> list:
    """[(cfg node, call)] of `self._schedule(<coroutine of self.<coro>()> ...)` in fn; a local that holds the coroutine object
    (`c = self._connect(); self._schedule(c)`) is followed to its definition."""
    out = []
    for n, c in fn.calls("self._schedule"):
        arg = c.args[0] if c.args else next((k.value for k in c.keywords if k.arg == "coro"), None)
        if arg is None:
            continue
        e = fn.expand(arg, n)
        if any(isinstance(x, ast.Call) and dotted(x.func) == f"self.{coro}" for x in ast.walk(e)) or any(isinstance(x, ast.Call) and dotted(x.func) == f"self.{coro}" for x in ast.walk(c)):
            out.append((n, c))
    return out


def is_self_attr(e: ast.AST, attr: str) -> bool:
    return isinstance(e, ast.Attribute) and e.attr == attr and isinstance(e.value, ast.Name) and e.value.id == "self"


def loop_time_call(e: ast.AST) -> bool:
    """self._loop.time() / loop.time()"""
    return isinstance(e, ast.Call) and not e.args and (dotted(e.func) or "").endswith("loop.time")


def queue_ref(e: ast.AST) -> bool:
    return isinstance(e, ast.Attribute) and e.attr == "_message_queue"


def reuse(ctx, new_rule: str, fns, what: str, keep=None, module=None):
    """Runs rule functions of another property and files their obligations under `new_rule`: a mechanism two properties
    depend on is decided once, and a breach is reported under every property it breaks.  `keep(obligation)` filters."""
    before = len(ctx.obligations)
    for f in fns:
        f(ctx)
    new = ctx.obligations[before:]
    del ctx.obligations[before:]
    if keep is not None:
        new = [o for o in new if keep(o)]
    bad = [o for o in new if o.verdict != "HOLDS"]
    for o in bad:
        o.detail = (o.detail + " " if o.detail else "") + f"(via {o.rule})"
        o.rule = new_rule
        ctx.obligations.append(o)
    ctx.check(not bad, new_rule, f"reuse:{what}", module, None, f"{what}: {len(new)} obligations of the shared mechanism hold", f"{len(bad)} obligations fail")


def harmless_clamp(name: str, lo: int = 0, hi: int = 250) -> str:
    """`min(C):src` with C >= hi / `max(C):src` with C <= lo (sa/bits.py names a clamp against a constant this way) cannot change a
    value of the field's valid range lo..hi: read through it.  Any other clamp stays in the name and fails the comparison."""
    import re

    mm = re.match(r"(min|max)\((-?\d+)\):(.*)$", name)
    while mm and ((mm.group(1) == "min" and int(mm.group(2)) >= hi) or (mm.group(1) == "max" and int(mm.group(2)) <= lo)):
        name = mm.group(3)
        mm = re.match(r"(min|max)\((-?\d+)\):(.*)$", name)
    return name
