"""Anchors shared by several rule modules."""
from __future__ import annotations

import ast

from ..model import AnalysisError, dotted, unparse, norm_text
from ..q import Fn

SOCKET = "pyairtouch.comms.socket"
HEARTBEAT = "pyairtouch.comms.heartbeat"
AT4_API = "pyairtouch.at4.api"
AT5_API = "pyairtouch.at5.api"
API = "pyairtouch.api"
SOCK_CLS = "AirTouchSocket"


def sock_fn(ctx, name: str, precise: bool = False) -> Fn:
    m = ctx.repo.module(SOCKET)
    ctx.fn(m, f"{SOCK_CLS}.{name}")
    return Fn(ctx.repo, m, f"{SOCK_CLS}.{name}", ctx.effects if precise else None)


def fn_of(ctx, module_name: str, qual: str, precise: bool = False) -> Fn:
    m = ctx.repo.module(module_name)
    ctx.fn(m, qual)
    return Fn(ctx.repo, m, qual, ctx.effects if precise else None)


def is_self_attr(e: ast.AST, attr: str) -> bool:
    return isinstance(e, ast.Attribute) and e.attr == attr and isinstance(e.value, ast.Name) and e.value.id == "self"


def loop_time_call(e: ast.AST) -> bool:
    """self._loop.time() / loop.time()"""
    return isinstance(e, ast.Call) and not e.args and (dotted(e.func) or "").endswith("loop.time")


def queue_ref(e: ast.AST) -> bool:
    return isinstance(e, ast.Attribute) and e.attr == "_message_queue"
