"""C03 - every message frames and parses back identically, lengths agree (structural clauses)."""
from __future__ import annotations

import ast
import re
from fractions import Fraction

from .. import bits as B, codec, lengths as LN
from ..model import AnalysisError, StructVal, dotted, norm_text, unparse, walk_no_nested
from ..q import NONEXC, Fn, bind_call, ctor_fields, same_relation
from . import c05, c13
from .c04 import layout

LEVEL = "other"
EXPLANATION = (
    "R1 symbolic length domain (sa/lengths.py): for every encoder, on every pair of compatible paths, the linear form returned by size() equals "
    "the length of the bytes built by encode() (terms: collection sizes, UTF-8 byte counts, per-element sums with indicator conditions); for the "
    "six 0xC0 sub-encoders len(encode) == non_repeat_size + repeat_count*repeat_size; the wrappers add exactly their sub-header struct. R1 also: "
    "every length-prefixed string announces len() of exactly the bytes appended next. R8 request/message discrimination: each decoder's request "
    "test, folded under the header values its encoder announces, accepts every request form and no message form (zero records included). R2 the "
    "header carries that size: AT5 data_length == inner-header size + message_length + CRC length in encoder and decoder. R3 bit-provenance "
    "bijection between each encoder and its decoder: every bit a decoder field reads is the bit the encoder fills from the attribute of the same "
    "name (enum .value, bool, affine pairs inverse of each other, tagged unions case by case); header prefixes written by the encoder are "
    "compared by the decoder. R4 the read path consumes exactly the announced lengths (C13 re-used). R5 registry: every Message class of a "
    "generation is registered under its module's id with the encoder and decoder of that same module, no id twice, equal key sets. R6 sub-length "
    "bookkeeping of the 0x1F and 0xC0 wrappers. R7 optional numeric fields are tested with `is None` in encoders when the falsy value is "
    "encodable. Value-level equality for every field value is not decided."
    ' Rounds 7-8: R2 also: a header is refused only for a wrong prefix or inconsistent lengths (rejects-nothing-else); R8 classifies the 0xC0 decoders by the header class they receive.'
    " Rounds 9-10: R12 (C13.R3 re-used): every successful read is delivered once with the pair that was read; R13 (C05.R5 re-used): record k of a multi-record message is read at its own position; R14 (C01.R5 re-used): a retry frames the header it was given; R15 (buffer-offset domain): every decoder hands back exactly the bytes beyond the announced length on every returning path that constrains the length, and accepts every length its encoder produces (requests of 0/1 byte, whole records); R1 also decides byte-stuffing (bytes.replace with a longer replacement) as a violation of size()==len(encode()); a clamp against a constant is a named source in the bit domain and is read through only when its bound lies outside the field's valid range."
)
ASSUMPTIONS = ["struct pack/unpack layout as computed from the literal format strings", "a message object is an instance of exactly one class of its encoder's union annotation"]
FLOORS = {"C03.R8": 20, "C03.R1": 30, "C03.R2": 8, "C03.R3": 120, "C03.R4": 8, "C03.R5": 40, "C03.R6": 8, "C03.R7": 4, "C03.R9": 1, "C03.R10": 1, "C03.R11": 1, "C03.R12": 1, "C03.R13": 1, "C03.R14": 1, "C03.R15": 12}

PAIRS = [
    ("at4", "x2A_group_ctrl", "GroupControlEncoder", "GroupControlDecoder"),
    ("at4", "x2B_group_status", "GroupStatusEncoder", "GroupStatusDecoder"),
    ("at4", "x2C_ac_ctrl", "AcControlEncoder", "AcControlDecoder"),
    ("at4", "x2D_ac_status", "AcStatusEncoder", "AcStatusDecoder"),
    ("at4", "x1FFF11_ac_ability", "AcAbilityEncoder", "AcAbilityDecoder"),
    ("at4", "x1FFF20_quick_timer", "QuickTimerEncoder", "QuickTimerDecoder"),
    ("at4", "hdr", "HeaderEncoder", "HeaderDecoder"),
    ("at5", "xC020_zone_ctrl", "ZoneControlEncoder", "ZoneControlDecoder"),
    ("at5", "xC021_zone_status", "ZoneStatusEncoder", "ZoneStatusDecoder"),
    ("at5", "xC022_ac_ctrl", "AcControlEncoder", "AcControlDecoder"),
    ("at5", "xC023_ac_status", "AcStatusEncoder", "AcStatusDecoder"),
    ("at5", "x1FFF11_ac_ability", "AcAbilityEncoder", "AcAbilityDecoder"),
    ("at5", "x1FFF49_quick_timer", "QuickTimerEncoder", "QuickTimerDecoder"),
    ("at5", "hdr", "HeaderEncoder", "HeaderDecoder"),
]
# fields whose encoder side is outside the bit domain (reason) - compared by other rules or not at all
OPAQUE_OK = {
    ("x1FFF11_ac_ability", "ac_name"): "fixed 16-byte C string (C05.R6)",
    ("x1FFF11_ac_ability", "groups"): "AT4 group bitmap is built in a loop over a set; the decoder side is checked against the vendor table (C05.R1)",
    ("x1FFF20_quick_timer", "duration"): "duration is converted with divmod (reverse-engineered message, no vendor text)",
    ("x1FFF49_quick_timer", "duration"): "duration is converted with divmod (reverse-engineered message, no vendor text)",
}


# lengths each length-sensitive decoder must accept (what its encoder can produce; protocol: request = no data or one id byte)
ACCEPTED_LENGTHS = {
    "at4.comms.x1FFF10_err_info.AcErrorInformationDecoder": lambda ml: ml >= 1,
    "at5.comms.x1FFF10_err_info.AcErrorInformationDecoder": lambda ml: ml >= 1,
    "at4.comms.x1FFF12_group_names.GroupNamesDecoder": lambda ml: ml in (0, 1) or ml % 9 == 0,
    "at5.comms.x1FFF11_ac_ability.AcAbilityDecoder": lambda ml: ml in (0, 1) or ml % 26 == 0,
    "at5.comms.x1FFF13_zone_names.ZoneNamesDecoder": lambda ml: ml in (0, 1) or ml >= 2,
    "at4.comms.x1FFF30_console_ver.ConsoleVersionDecoder": lambda ml: ml == 0 or ml >= 2,
    "at5.comms.x1FFF30_console_ver.ConsoleVersionDecoder": lambda ml: ml == 0 or ml >= 2,
    "at4.comms.x2B_group_status.GroupStatusDecoder": lambda ml: ml % 6 == 0,
    "at4.comms.x2D_ac_status.AcStatusDecoder": lambda ml: ml % 8 == 0,
    "at4.comms.x37_ac_timer_status.AcTimerStatusDecoder": lambda ml: ml % 8 == 0,
}


def r15(ctx, R="C03.R15"):
    """Lengths agree on the receive side too: a decoder hands back exactly the bytes beyond the announced message length.  Decided
    in the buffer-offset domain (sa/offsets.py) for every sub-decoder it can follow: on each returning path whose conditions
    constrain header.message_length, for every length 0..120 those conditions admit, `remaining` starts at that length.  (A path
    that leaves announced bytes in `remaining` makes the frame 'incomplete' upstream: the legal frame is refused and the
    connection reset.)  Fixed-size decoders (no condition on the length, constant start) are counted, not decided here."""
    import re as _re
    from fractions import Fraction as _F

    from .. import offsets as OF

    def ev_l(l, ml):
        tot = _F(0)
        for k, c in l.items():
            if k == "":
                tot += c
            elif k == "ML":
                tot += c * ml
            else:
                mm = _re.fullmatch(r"(mod|fd)\(ML,(\d+)\)", k)
                if mm is None:
                    return None
                tot += c * (ml % int(mm.group(2)) if mm.group(1) == "mod" else ml // int(mm.group(2)))
        return tot

    def ev_c(c, ml):
        if c[0] in ("lt0", "eq0", "ne0"):
            v = ev_l(OF.parse_l(c[1]), ml)
            if v is None:
                return None
            return {"lt0": v < 0, "eq0": v == 0, "ne0": v != 0}[c[0]]
        if c[0] in ("and", "or"):
            vs = [ev_c(x, ml) for x in c[1:]]
            if c[0] == "and":
                return False if any(v is False for v in vs) else (True if all(v is True for v in vs) else None)
            return True if any(v is True for v in vs) else (False if all(v is False for v in vs) else None)
        if c[0] == "not":
            v = ev_c(c[1], ml)
            return None if v is None else not v
        if c == OF.TRUE:
            return True
        if c == OF.FALSE:
            return False
        return None

    decided = fixed = 0
    accepted = {}
    for name, mm in sorted(ctx.repo.modules.items()):
        if ".comms." not in name:
            continue
        for cn, ci in mm.classes.items():
            if not cn.endswith("Decoder") or "decode" not in ci.methods:
                continue
            fn = ci.methods["decode"]
            ps = [a.arg for a in fn.args.args]
            if len(ps) != 3:
                continue
            try:
                exits = [OF.simplify_exit(e) for e in OF.Offsets(ctx.repo, mm, fn, ps[1], ps[2], ci).analyse()]
            except AnalysisError:
                continue  # outside the offset domain (decided, or reported as such, by C05)
            lab = f"{name.split('pyairtouch.')[-1]}.{cn}"
            # which announced lengths the decoder accepts at all (some returning path admits them): the lengths its own encoder
            # produces - requests of 0 or 1 byte, whole records - must stay accepted
            if any("ML" in OF.cfmt(c) for ex in exits for c in ex.conds):
                acc = sorted(ml for ml in range(0, 61) if any(ex.kind == "return" and not any(ev_c(c, ml) is False for c in ex.conds) for ex in exits))
                accepted[lab] = acc
            for ex in exits:
                v = ex.value
                rem = v.fields.get("remaining") if ex.kind == "return" and isinstance(v, OF.Obj) else None
                if not isinstance(rem, OF.Bf) or rem.hi is not None:
                    continue
                if any(k not in ("", "ML") for k in rem.lo):
                    continue
                constrained = [c for c in ex.conds if "ML" in OF.cfmt(c)]
                if not constrained:
                    fixed += 1
                    continue
                decided += 1
                bad = None
                for ml in range(0, 121):
                    if any(ev_c(c, ml) is False for c in ex.conds):
                        continue
                    start = ev_l(rem.lo, ml)
                    if start != ml:
                        bad = f"with message_length == {ml} the path returns remaining = buffer[{OF.lfmt(rem.lo)}:] (announced bytes are handed back as if they belonged to the next message)"
                        break
                ctx.check(bad is None, R, f"{lab}:consumes-the-announced-length[{'; '.join(OF.cfmt(c) for c in constrained)[:60]}]", mm, fn, "remaining starts at header.message_length for every length the path admits", bad or "")
    for lab, want in ACCEPTED_LENGTHS.items():
        got = accepted.get(lab)
        if got is None:
            continue  # outside the offset domain on this tree (reported by C05)
        exp = [ml for ml in range(0, 61) if want(ml)]
        miss = [ml for ml in exp if ml not in got]
        ctx.check(not miss, R, f"{lab}:accepts-every-length-its-encoder-produces", None, None, "requests (0 or 1 byte) and whole-record messages are decoded, not refused", f"message_length {miss[:4]} is refused on every path" if miss else "")
    ctx.holds(R, "decoders:census", None, None, f"{decided} returning paths decided, {fixed} fixed-size paths (no condition on the length) counted")
    ctx.require(decided >= 12, f"only {decided} decoder paths could be followed in the offset domain (20 on the reference tree)")


def run(ctx):
    r15(ctx)
    r1(ctx)
    r1b(ctx)
    r8(ctx)
    r2(ctx)
    r3(ctx)
    r4(ctx)
    r5(ctx)
    r6(ctx)
    r7(ctx)
    from . import c01
    from .common import reuse

    from . import c04

    reuse(ctx, "C03.R10", [lambda c: c04.quick_timer_duration(c, "C04.R8")], "the quick-timer duration, which the bit domain cannot follow (divmod), round-trips on the minute grid in both generations (C04.R8)",
          keep=lambda o: "minute-grid" in o.construct or "wraps" in o.construct or o.verdict != "HOLDS")
    from . import c06

    reuse(ctx, "C03.R11", [c06.r1, c06.r2, c06.r3, c06.r4], "the check bytes the send path appends are the ones the receive path recomputes and compares (same algorithm, same span), so a produced frame is accepted (C06.R1-R4)")
    from . import c13

    reuse(ctx, "C03.R12", [lambda c: c13.r3(c, "C13.R3")], "an accepted frame yields its header and message at the subscribers: every successful read is delivered, once, with exactly the pair that was read (C13.R3)",
          keep=lambda o: o.construct.startswith("_read:") or o.verdict != "HOLDS")
    from . import c05

    reuse(ctx, "C03.R13", [c05.r5], "a message with several records parses back record by record: record k is read at its own position (k times the stride), for every repeat count (C05.R5)",
          keep=lambda o: ":records" in o.construct or ":stride" in o.construct or ":loop" in o.construct or o.verdict != "HOLDS")
    reuse(ctx, "C03.R14", [c01.r5], "the header framed on a retry is the header the send path was given: the re-queued entry copies header, message and expiry of the failed one (C01.R5)",
          keep=lambda o: "re-queue" in o.construct or o.verdict != "HOLDS")
    reuse(ctx, "C03.R9", [c01.r6], "every packet id the header factories hand out fits the header's packet-id slot, so every message can be framed (C01.R6)")


# ------------------------------------------------------------------------------------------ R1
def _canon(conds, union):
    """Canonicalise isinstance conditions on a two-class union annotation to the first class of the union."""
    out = []
    for c in conds:
        neg = False
        body = c
        while body.startswith("not "):  # `not not X` (a negated test on a negated branch) is X
            neg, body = not neg, body[4:]
        mm = re.fullmatch(r"isinstance\((\w+), (\w+)\)", body)
        if mm and len(union) == 2 and mm.group(2) in union:
            if mm.group(2) == union[1]:
                body = f"isinstance({mm.group(1)}, {union[0]})"
                neg = not neg
        out.append(("not " if neg else "") + body)
    # drop duplicates / contradictions are handled by compatible()
    return tuple(dict.fromkeys(out))


def _union(ctx, m, fn):
    a = fn.args.args[-1].annotation
    names = []

    def rec(x):
        if isinstance(x, ast.BinOp) and isinstance(x.op, ast.BitOr):
            rec(x.left)
            rec(x.right)
        elif x is not None and dotted(x):
            names.append(dotted(x).split(".")[-1])

    rec(a)
    return sorted(names, key=lambda n: (not n.endswith("Request"), n))


def _paths(ctx, m, ci, meth, union):
    fn = ci.methods.get(meth)
    if fn is None:
        return None
    try:
        ps = LN.LenEv(ctx.repo, m, ci).method_paths(fn)
    except LN.LenUnsupported as ex:
        raise AnalysisError(f"{m.relpath}: {ci.name}.{meth} left the length domain: {ex}")
    out = []
    for c, v in ps:
        cc = _canon(c, union)
        if not LN.compatible(cc, cc):
            continue
        out.append((cc, LN.result_length(v), v))
    return out


def _self_consistent(c):
    s = set(c)
    return not any(("not " + x) in s for x in s if not x.startswith("not "))


class _Slots(ast.NodeTransformer):
    """`_STRUCT.unpack_from(buf)[k]` -> the name Uk (the k-th unpacked slot, whatever local holds it)"""

    def visit_Subscript(self, n):
        self.generic_visit(n)
        if isinstance(n.value, ast.Call) and (dotted(n.value.func) or "").endswith("_STRUCT.unpack_from") and isinstance(n.slice, ast.Constant) and isinstance(n.slice.value, int):
            return ast.copy_location(ast.Name(id=f"U{n.slice.value}", ctx=ast.Load()), n)
        return n


def r1(ctx):
    R = "C03.R1"
    for gen in ("at4", "at5"):
        for name, m in sorted(ctx.repo.modules.items()):
            if not name.startswith(f"pyairtouch.{gen}.comms.x"):
                continue
            for cname, ci in m.classes.items():
                if not cname.endswith("Encoder") or "encode" not in ci.methods or cname == "ControlStatusSubEncoder":
                    continue
                ctx.analysed["functions"].add(f"{name}.{cname}.encode")
                lab = f"{gen}.{name.split('.')[-1]}.{cname}"
                union = _union(ctx, m, ci.methods["encode"])
                enc = [(c, l, v) for c, l, v in _paths(ctx, m, ci, "encode", union) if _self_consistent(c)]
                if any(l is None for _, l, _ in enc):
                    bad = next(v for _, l, v in enc if l is None)
                    # a byte-stuffing / escaping step: bytes.replace(a, b) with len(a) != len(b) makes the length depend on the
                    # data, so no size() computed from the message's structure can announce it - decided, not "unknown"
                    stuff = None
                    for x in ast.walk(ci.methods["encode"]):
                        if isinstance(x, ast.Call) and isinstance(x.func, ast.Attribute) and x.func.attr == "replace" and len(x.args) >= 2:
                            a_, b_ = ctx.repo.try_fold(m, x.args[0]), ctx.repo.try_fold(m, x.args[1])
                            if isinstance(a_, (bytes, str)) and isinstance(b_, (bytes, str)) and len(a_) != len(b_):
                                stuff = x
                    if stuff is not None:
                        ctx.violation(R, f"{lab}:size==len(encode)[data-dependent]", m, stuff, "the encoded length is the one size() announces, for every message", f"`{norm_text(stuff)[:70]}` changes the length whenever the data contain the pattern: the header announces fewer bytes than are written")
                        continue
                    raise AnalysisError(f"{m.relpath}: {cname}.encode returns a value of unknown length ({getattr(bad, 'text', bad)})")
                if "size" in ci.methods:
                    ctx.analysed["functions"].add(f"{name}.{cname}.size")
                    sz = [(c, l, v) for c, l, v in _paths(ctx, m, ci, "size", union) if _self_consistent(c) and l is not None]
                    if cname in ("ExtendedMessageEncoder", "ControlStatusEncoder"):
                        _wrapper(ctx, R, lab, m, ci, sz, enc)
                        continue
                    n = 0
                    for cs, ls, _ in sz:
                        for ce, le, _ in enc:
                            if not LN.compatible(cs, ce) or not _self_consistent(cs + ce):
                                continue
                            n += 1
                            ctx.check(LN.l_norm(ls) == LN.l_norm(le), R, f"{lab}:size==len(encode)[{' & '.join(sorted(set(cs + ce))) or 'always'}]", m, ci.methods["size"], f"size() = {LN.l_fmt(le)} (what encode() produces)", f"size() = {LN.l_fmt(ls)}")
                    ctx.require(n > 0, f"{m.relpath}: {cname}: no comparable size/encode paths")
                    # every way encode() can produce bytes must have been compared with a size() result
                    for ce, le, _ in enc:
                        if not any(LN.compatible(cs, ce) and _self_consistent(cs + ce) for cs, _, _ in sz):
                            raise AnalysisError(f"{m.relpath}: {cname}: size() has no analysable result for the case [{' & '.join(sorted(set(ce))) or 'always'}] that encode() handles")
                else:
                    parts = {k: [(c, l) for c, l, v in _paths(ctx, m, ci, k, union) if _self_consistent(c) and l is not None] for k in ("non_repeat_size", "repeat_count", "repeat_size")}
                    ctx.require(all(parts.values()), f"{m.relpath}: {cname}: sub-encoder size methods not analysable")
                    n = 0
                    for ce, le, _ in enc:
                        for c1, nr in parts["non_repeat_size"]:
                            for c2, rc in parts["repeat_count"]:
                                for c3, rs in parts["repeat_size"]:
                                    allc = ce + c1 + c2 + c3
                                    if not _self_consistent(allc):
                                        continue
                                    n += 1
                                    want = LN.l_add(nr, LN.l_mul(rc, rs))
                                    ctx.check(LN.l_norm(want) == LN.l_norm(le), R, f"{lab}:non_repeat+count*size==len(encode)[{' & '.join(sorted(set(allc))) or 'always'}]", m, ci.methods["encode"], f"len(encode) = {LN.l_fmt(le)}", f"non_repeat_size + repeat_count*repeat_size = {LN.l_fmt(want)}")
                    ctx.require(n > 0, f"{m.relpath}: {cname}: no comparable paths")
    # encode_c_string really yields `length` bytes: witness strings (shorter, exact, longer, empty, multi-byte) propagated through
    # the source by the checker's interpreter
    em = ctx.repo.module("pyairtouch.comms.encoding")
    fn = em.get_function("encode_c_string")
    from ..minieval import Mini, Unsupported

    bad = None
    pv, pl = [a_.arg for a_ in fn.args.args][:2]
    for text, n in (("Bed", 8), ("Bedroom1", 8), ("Bedroom number 12", 8), ("", 4), ("caf\u00e9", 5), ("caf\u00e9s", 5), ("x", 0), ("Living", 16)):
        want = (text.encode("utf-8") + b"\0" * n)[:n] if len(text.encode("utf-8")) < n else text.encode("utf-8")[:n]
        try:
            got = Mini(ctx.repo, em, {}).function_value(fn, {pv: text, pl: n})
        except Unsupported as ex:
            raise AnalysisError(f"{em.relpath}: encode_c_string left the evaluable fragment: {ex}")
        if not isinstance(got, (bytes, bytearray)) or bytes(got) != want:
            bad = f"encode_c_string({text!r}, {n}) = {bytes(got)!r} ({len(got) if isinstance(got, (bytes, bytearray)) else '?'} bytes), expected {want!r}"
            break
    ctx.check(bad is None, R, "encoding.encode_c_string:exact-length", em, fn, "the UTF-8 bytes padded with NUL up to `length`, or cut at `length`: always exactly `length` bytes (8 witnesses)", bad or "")


def _canon_enc(x):
    """the local that holds the sub-encoder may have any name: its method calls are compared as ENC.<method>(...)"""
    if isinstance(x, str):
        return re.sub(r"\b\w+\.(non_repeat_size|repeat_count|repeat_size|size|encode)\(", r"ENC.\1(", re.sub(r"^subenc:\w+$", "subenc:ENC", x))
    if isinstance(x, tuple):
        return tuple(_canon_enc(y) for y in x)
    if isinstance(x, dict):
        return {_canon_enc(k): _canon_enc(v) for k, v in x.items()}
    if isinstance(x, list):
        return [_canon_enc(y) for y in x]
    return x


def _wrapper(ctx, R, lab, m, ci, sz, enc):
    sub = ctx.repo.try_fold(m, m.get_const_expr("_SUB_HEADER_STRUCT"))
    ctx.require(isinstance(sub, StructVal), f"{m.relpath}: _SUB_HEADER_STRUCT not foldable")
    ok = len(sz) == 1 and len(enc) == 1
    if not ok:
        ctx.violation(R, f"{lab}:wrapper", m, ci.node, "one size() path and one encode() path", f"{len(sz)}/{len(enc)}")
        return
    ls, le = _canon_enc(sz[0][1]), _canon_enc(enc[0][1])
    ctx.check(ls.get(1, 0) == sub.size and le.get(1, 0) == sub.size, R, f"{lab}:sub-header-size", m, ci.methods["size"], f"size() and encode() both add the {sub.size}-byte sub-header", f"size adds {ls.get(1, 0)}, encode adds {le.get(1, 0)}")
    sym_s = sorted(repr(t) for t in ls if t != 1)
    sym_e = sorted(repr(t) for t in le if t != 1)
    if ci.name == "ExtendedMessageEncoder":
        ok = sym_s == [repr(("call", "ENC.size(message.sub_message)"))] and sym_e == [repr(("call", "subenc:ENC"))]
        ctx.check(ok, R, f"{lab}:sub-message-size", m, ci.methods["size"], "size = sub-header + sub_encoder.size(sub_message); encode = sub-header + sub_encoder.encode(...)", f"size: {LN.l_fmt(ls)}; encode: {LN.l_fmt(le)}")
    else:
        want = {("call", "ENC.non_repeat_size(message.sub_message)"): 1, ("mul", ("call", "ENC.repeat_count(message.sub_message)"), ("call", "ENC.repeat_size(message.sub_message)")): 1, 1: sub.size}
        ctx.check(ls == want, R, f"{lab}:sub-message-size", m, ci.methods["size"], "size = sub-header + non_repeat_size + repeat_count * repeat_size (of the same sub-message)", LN.l_fmt(ls))


def r1b(ctx):
    """Length-prefixed strings: the length byte announces len() of exactly the bytes object appended next."""
    R = "C03.R1"
    n = 0
    for name, m in sorted(ctx.repo.modules.items()):
        if not (name.startswith("pyairtouch.at4.comms.x") or name.startswith("pyairtouch.at5.comms.x")):
            continue
        for cname, ci in m.classes.items():
            fn = ci.methods.get("encode")
            if fn is None or not cname.endswith("Encoder"):
                continue
            for blk in [x for x in ast.walk(fn) if hasattr(x, "body") and isinstance(getattr(x, "body"), list)]:
                for lst in (blk.body, getattr(blk, "orelse", []) or []):
                    for a, b in zip(lst, lst[1:]):
                        ca = a.value if isinstance(a, ast.Expr) and isinstance(a.value, ast.Call) else None
                        cb = b.value if isinstance(b, ast.Expr) and isinstance(b.value, ast.Call) else None
                        if ca is None or cb is None or not (isinstance(ca.func, ast.Attribute) and ca.func.attr == "append" and isinstance(cb.func, ast.Attribute) and cb.func.attr == "extend"):
                            continue
                        if not (ca.args and isinstance(ca.args[0], ast.Call) and dotted(ca.args[0].func) == "len" and cb.args):
                            continue
                        n += 1
                        e, f_ = ca.args[0].args[0], cb.args[0]
                        ctx.check(norm_text(e) == norm_text(f_), R, f"{name.split('.')[1]}.{name.split('.')[-1]}.{cname}:length-prefix({norm_text(f_)[:30]})", m, a, f"the length byte is len() of the bytes appended next: len({norm_text(f_)[:50]})", f"len({norm_text(e)[:50]}) - for text with multi-byte characters the character count differs from the byte count")
    ctx.require(n >= 5, f"only {n} length-prefixed strings found in the encoders (expected the two error texts, two version strings and the zone names)")


def _is_request_cond(text: str) -> bool:
    """the path condition (a string of the length domain) asserts positively that the message is a *Request instance"""
    try:
        e = ast.parse(text, mode="eval").body
    except SyntaxError:
        return False
    parts = e.values if isinstance(e, ast.BoolOp) and isinstance(e.op, ast.And) else [e]
    for p in parts:
        if isinstance(p, ast.Call) and dotted(p.func) == "isinstance" and len(p.args) == 2 and (dotted(p.args[1]) or "").endswith("Request"):
            return True
    return False


def r8(ctx):
    """Request/message discrimination: a decoder classifies a frame as the (empty) request exactly for the header values the
    encoder announces for a request; a message with zero or more records is never taken for a request."""
    from ..model import DCVal, NotConst

    R = "C03.R8"
    count = 0
    for name, m in sorted(ctx.repo.modules.items()):
        gen = name.split(".")[1] if name.count(".") >= 3 else ""
        if not (name.startswith("pyairtouch.at4.comms.x") or name.startswith("pyairtouch.at5.comms.x")):
            continue
        for cname, ci in m.classes.items():
            fn = ci.methods.get("decode")
            if fn is None or not cname.endswith("Decoder") or len(fn.args.args) < 3:
                continue
            hdr = fn.args.args[2].arg
            tests = []
            for node in fn.body:
                if isinstance(node, ast.If):
                    makes_req = any(isinstance(c, ast.Call) and (dotted(c.func) or "").endswith("Request") for st in node.body for c in ast.walk(st))
                    if makes_req:
                        tests.append(node)
            if not tests:
                continue
            ecls = m.classes.get(cname.replace("Decoder", "Encoder"))
            hci = ctx.repo.resolve_class(m, fn.args.args[2].annotation) if fn.args.args[2].annotation is not None else None
            if hci is None:
                continue
            # by the kind of header the decoder receives, not by the spelling of its test
            stride = {"repeat_count", "repeat_length"} <= {n_ for n_, _, _ in hci.fields}

            def val(fields):
                return DCVal(hci, fields)

            if stride:
                req_sigs = [{"sub_message_id": 0, "non_repeat_length": 0, "repeat_length": 0, "repeat_count": 0}]
                K = 9
                msg_sigs = [{"sub_message_id": 0, "non_repeat_length": 0, "repeat_length": K, "repeat_count": 0}, {"sub_message_id": 0, "non_repeat_length": 0, "repeat_length": K, "repeat_count": 2}, {"sub_message_id": 0, "non_repeat_length": 0, "repeat_length": K + 2, "repeat_count": 1}]
            else:
                # request sizes from the encoder's size() paths
                req_sizes, msg_sizes = set(), set()
                if ecls is not None and "size" in ecls.methods:
                    union = _union(ctx, m, ecls.methods["size"])
                    for c, l, v in _paths(ctx, m, ecls, "size", union):
                        if l is None or not _self_consistent(c):
                            continue
                        is_req = any(_is_request_cond(x) for x in c)
                        if is_req and set(l) <= {1}:
                            req_sizes.add(l.get(1, 0))
                        elif not is_req:
                            msg_sizes.add(sum(cf for t, cf in l.items() if t == 1) + sum(cf for t, cf in l.items() if t != 1 and t[0] in ("len", "utf8", "sum")))
                if not req_sizes:
                    continue
                base = {"message_id": 0, "to_address": 0, "from_address": 0, "packet_id": 0}
                req_sigs = [dict(base, message_length=x) for x in sorted(req_sizes)]
                msg_sigs = [dict(base, message_length=x) for x in sorted(msg_sizes) if x not in req_sizes]
            lab = f"{gen}.{name.split('.')[-1]}.{cname}"

            def first_true(sig):
                env = {hdr: val(sig), fn.args.args[1].arg: b"\x00" * 64}
                for i, t in enumerate(tests):
                    try:
                        if ctx.repo.fold(m, t.test, env):
                            return i
                    except NotConst as ex:
                        raise AnalysisError(f"{m.relpath}: {cname}.decode: request test `{norm_text(t.test)}` not foldable: {ex}")
                return None

            for sig in req_sigs:
                count += 1
                show = {k: v for k, v in sig.items() if k in ("message_length", "repeat_length", "repeat_count")}
                ctx.check(first_true(sig) is not None, R, f"{lab}:request{show}", m, tests[0], f"a header announcing {show} (what the encoder sends for a request) is decoded as the request", "no request test accepts it")
            for sig in msg_sigs:
                count += 1
                show = {k: v for k, v in sig.items() if k in ("message_length", "repeat_length", "repeat_count")}
                i = first_true(sig)
                ctx.check(i is None, R, f"{lab}:message{show}", m, tests[i if i is not None else 0], f"a header announcing {show} (a status/control message, possibly with zero records) is never taken for a request", f"`{norm_text(tests[i].test)}` is true: the message comes back as a request" if i is not None else "")
    ctx.require(count >= 20, f"only {count} request/message discrimination instances")


# ------------------------------------------------------------------------------------------ R2
def r2(ctx):
    R = "C03.R2"
    for gen in ("at4", "at5"):
        hm = ctx.repo.module(f"pyairtouch.{gen}.comms.hdr")
        packed, problems = codec.encoder_slots(ctx.repo, hm, "HeaderEncoder")
        ctx.require(not problems, f"{hm.relpath}: HeaderEncoder left the bit domain: {problems}")
        st = packed.struct
        last = packed.args[-1]
        ok = isinstance(last, B.BV) and last.sources() and all(n.endswith(".message_length") and p == k for p, n, k in last.sources()) and st.slots[-1].size == 2
        ctx.check(ok, R, f"{gen}:HeaderEncoder:length-slot", hm, hm.get_class("HeaderEncoder").methods["encode"], "header.message_length is packed unmodified into the 2-byte length slot", codec.describe(last).brief())
        cl = ctx.repo.try_fold(hm, hm.get_const_expr("CRC_LENGTH"))
        ctx.check(cl == 2, R, f"{gen}:CRC_LENGTH", hm, hm.assign_nodes["CRC_LENGTH"], "2 (== Crc16Modbus.checksum_length)", repr(cl))
    hm = ctx.repo.module("pyairtouch.at5.comms.hdr")
    packed, _ = codec.encoder_slots(ctx.repo, hm, "HeaderEncoder")
    st = packed.struct
    inner = ctx.repo.try_fold(hm, hm.get_const_expr("_INTERNAL_HEADER_LENGTH"))
    pref = next((sl for sl, a in zip(st.slots, packed.args) if isinstance(a, B.Py) and a.v == b"\x55\x55\x55\xaa"), None)
    ctx.check(pref is not None and inner == st.size - pref.offset, R, "at5:_INTERNAL_HEADER_LENGTH", hm, hm.assign_nodes["_INTERNAL_HEADER_LENGTH"], f"size of the documented inner header = {st.size - pref.offset if pref else '?'} bytes (from the 55 55 55 AA prefix to the end)", repr(inner))
    for i in (1, 2):
        a = packed.args[i]
        ok = isinstance(a, B.Lin) and a.mul == 1 and a.add == (inner or 0) + 2 and isinstance(a.raw, B.BV) and all(n.endswith(".message_length") for _, n, _ in a.raw.sources())
        ctx.check(ok, R, f"at5:HeaderEncoder:data_length#{i}", hm, hm.get_class("HeaderEncoder").methods["encode"], "outer data length = inner header + message_length + CRC length, written twice", codec.describe(a).brief())
    dec = Fn(ctx.repo, hm, "HeaderDecoder.decode")
    ctx.fn(hm, "HeaderDecoder.decode")
    g = dec.cfg
    rets = [n for n in g.nodes if n.kind == "stmt" and isinstance(n.ast, ast.Return)]
    checks = {"data_length_1 != data_length_2": False, "data_length_1 != _INTERNAL_HEADER_LENGTH + message_length + CRC_LENGTH": False, "outer_prefix != _OUTER_HEADER_PREFIX": False, "inner_prefix != _INNER_HEADER_PREFIX": False}
    # the relations are stated over the unpacked slots (U0 = outer prefix, U1/U2 = the two data lengths, U3 = inner prefix, U8 = message
    # length), whatever the locals holding them are called
    slot_form = {"data_length_1 != data_length_2": "U1 != U2", "data_length_1 != _INTERNAL_HEADER_LENGTH + message_length + CRC_LENGTH": "U1 != _INTERNAL_HEADER_LENGTH + U8 + CRC_LENGTH", "outer_prefix != _OUTER_HEADER_PREFIX": "U0 != _OUTER_HEADER_PREFIX", "inner_prefix != _INNER_HEADER_PREFIX": "U3 != _INNER_HEADER_PREFIX"}
    ctx.require(len(st.slots) == 9, f"{hm.relpath}: the AT5 header struct no longer has 9 fields")

    for t in dec.tests(lambda e: isinstance(e, ast.Compare)):
        te = _Slots().visit(dec.expand(t.ast, t))
        for k in checks:
            if same_relation(ctx.repo, hm, te, ast.parse(slot_form[k], mode="eval").body):
                tb = dec.branch(t, "true")
                reach = g.reachable(tb.id, labels=NONEXC)
                raises = any(g.nodes[i].kind == "stmt" and isinstance(g.nodes[i].ast, ast.Raise) and "DecodeError" in unparse(g.nodes[i].ast) for i in reach)
                if g.exit.id not in reach and raises and all(g.dominates(dec.branch(t, "false").id, rn.id) for rn in rets):
                    checks[k] = True
    for k, v in checks.items():
        ctx.check(v, R, f"at5:HeaderDecoder:rejects[{k}]", hm, dec.node, f"`{k}` raises DecodeError before a header is returned", "check missing or not dominating the return")
    # ... and for nothing else: every header with the right prefixes and consistent lengths is a header (addresses, packet id and
    # message type are not the header codec's business - frames for other clients or of unknown types are delivered / skipped upstream)
    rej5 = set()
    for t in dec.tests(lambda e: isinstance(e, ast.Compare)):
        te = _Slots().visit(dec.expand(t.ast, t))
        if any(same_relation(ctx.repo, hm, te, ast.parse(slot_form[k], mode="eval").body) for k in checks):
            rej5.add(dec.branch(t, "true").id)
    extra = [n for n in g.nodes if n.kind == "stmt" and isinstance(n.ast, ast.Raise) and not any(g.dominates(b_, n.id) for b_ in rej5)]
    ctx.check(not extra, R, "at5:HeaderDecoder:rejects-nothing-else", hm, (extra[0].ast if extra else dec.node), "a header is refused only for a wrong prefix or inconsistent lengths", f"`{norm_text(extra[0].ast)[:80]}` at line {extra[0].lineno} refuses headers the protocol allows" if extra else "")
    h4 = ctx.repo.module("pyairtouch.at4.comms.hdr")
    d4 = Fn(ctx.repo, h4, "HeaderDecoder.decode")
    ctx.fn(h4, "HeaderDecoder.decode")
    ok = False
    rej4 = set()
    for t in d4.tests(lambda e: isinstance(e, ast.Compare)):
        te = _Slots().visit(d4.expand(t.ast, t))
        # `if prefix != P: raise` or `if prefix == P: return ...` followed by the raise: the mismatch branch never returns normally
        for want, label in (("U0 != _PREFIX", "true"), ("U0 == _PREFIX", "false")):
            if same_relation(ctx.repo, h4, te, ast.parse(want, mode="eval").body):
                reach = d4.cfg.reachable(d4.branch(t, label).id, labels=NONEXC)
                ok = ok or d4.cfg.exit.id not in reach
                rej4.add(d4.branch(t, label).id)
    extra = [n for n in d4.cfg.nodes if n.kind == "stmt" and isinstance(n.ast, ast.Raise) and not any(d4.cfg.dominates(b_, n.id) for b_ in rej4)]
    ctx.check(not extra, R, "at4:HeaderDecoder:rejects-nothing-else", h4, (extra[0].ast if extra else d4.node), "a header is refused only for a wrong prefix", f"`{norm_text(extra[0].ast)[:80]}` at line {extra[0].lineno} refuses headers the protocol allows" if extra else "")
    ctx.check(ok, R, "at4:HeaderDecoder:rejects[prefix != _PREFIX]", h4, d4.node, "a wrong prefix raises DecodeError", "prefix not checked")
    for gen, name, want in (("at4", "_PREFIX", b"\x55\x55"), ("at5", "_OUTER_HEADER_PREFIX", b"\x55\x55\x55\xab"), ("at5", "_INNER_HEADER_PREFIX", b"\x55\x55\x55\xaa")):
        mm = ctx.repo.module(f"pyairtouch.{gen}.comms.hdr")
        v = ctx.repo.try_fold(mm, mm.get_const_expr(name))
        ctx.check(v == want, R, f"{gen}:{name}", mm, mm.assign_nodes[name], want.hex(), v.hex() if isinstance(v, bytes) else repr(v))


# ------------------------------------------------------------------------------------------ R3
def _present(v):
    """For guarded encoder slots: the alternative that carries the value (not the absent filler)."""
    if isinstance(v, B.Choice):
        def absent(c):
            if c in (B.TRUE, B.FALSE):
                return False
            return any(l[0] == "isnone" or (l[0] == "not" and l[1][0] == "truthy") for l in B._lits(c))

        cand = [(c, x) for c, x in v.alts if not absent(c)] or v.alts
        for c, x in cand:
            if isinstance(x, (B.BV, B.Lin)) and not (isinstance(x, B.BV) and x.is_const()):
                return _present(x)
        return cand[0][1]
    return v


def enc_positions(packed, tag=None, present=True):
    """{(byte, bit): source} using the value-present alternative of guarded slots."""
    if present:
        args = []
        for a in packed.args:
            p = a
            if isinstance(a, B.Choice) and not any(B._lits(c)[0][0] == "isinst" for c, _ in a.alts if c != B.TRUE):
                p = _present(a)
            args.append(p)
        packed = B.Packed(packed.struct, args)
    return layout(packed, tag, strict=False)


def _src_ok(got, attr_suffix, k):
    return isinstance(got, tuple) and got[0] == "s" and got[1].endswith(attr_suffix) and got[2] == k


def compare_field(ctx, R, lab, fname, d, enc_lay, smap, m, node, path=""):
    """decoder descriptor d of field `fname` vs the encoder layout."""
    full = f"{path}{fname}"
    if d.kind == "cases":
        mains = c05.main_alternative(d)
        if len(mains) == 1:
            return compare_field(ctx, R, lab, fname, mains[0], enc_lay, smap, m, node, path)
        ctx.holds(R, f"{lab}:{full}", m, node, "tagged alternatives compared case by case")
        return
    if d.kind in ("uint", "enum", "bool", "affine"):
        pos = c05.abs_bits(d.bits, smap)
        bad = []
        for k, p in enumerate(pos):
            if p is None:
                continue
            got = enc_lay.get(p)
            if d.kind == "uint":
                ok = _src_ok(got, "." + full, k)
            elif d.kind == "enum":
                ok = _src_ok(got, f".{full}.value", k) or (got == 0 and True)
                if got == 0:
                    # enum needs fewer bits than the decoder reads: fine when the encoder writes constant zero there
                    ok = True
            elif d.kind == "bool":
                ok = _src_ok(got, "." + full, 0)
            else:
                inv_mul = 1 / d.mul if d.mul else None
                inv_add = -d.add / d.mul if d.mul else None
                if isinstance(got, tuple) and got[0] == "s":
                    from .common import harmless_clamp

                    got = (got[0], harmless_clamp(got[1]), got[2])
                ok = isinstance(got, tuple) and got[0] == "s" and got[1].startswith("lin:") and got[1].endswith(f".{full}*{inv_mul}+{inv_add}") and got[2] == k
            if not ok:
                bad.append(f"B{p[0]}.{p[1]}: decoder reads {full}[{k}], encoder writes {got[1] + '[' + str(got[2]) + ']' if isinstance(got, tuple) else got}")
        ctx.check(not bad, R, f"{lab}:{full}", m, node, f"the bits the decoder reads into {full} are the bits the encoder fills from it ({d.kind})", "; ".join(bad[:3]))
        return
    if d.kind == "obj":
        for k, sub in d.sub.items():
            compare_field(ctx, R, lab, k, sub, enc_lay, smap, m, node, path=f"{full}.")
        return
    if d.kind == "dict":
        for k, sub in d.sub.items():
            if sub.kind != "bool":
                continue
            member = k.split(".")[-1]
            pos = c05.abs_bits(sub.bits, smap)
            got = enc_lay.get(pos[0]) if pos else None
            ctx.check(_src_ok(got, f".{full}[{member}]", 0), R, f"{lab}:{full}[{member}]", m, node, "flag bit agrees between encoder and decoder", str(got))
        return
    if d.kind in ("none", "const", "opaque", "set"):
        return


def r3(ctx):
    R = "C03.R3"
    for gen, mod, ecls, dcls in PAIRS:
        m = ctx.repo.module(f"pyairtouch.{gen}.comms.{mod}")
        lab = f"{gen}.{mod}"
        dnode = m.get_class(dcls).methods["decode"]
        rci, fields, dprob, st, notes = codec.decoder_fields(ctx.repo, m, dcls)
        packed, eprob = codec.encoder_slots(ctx.repo, m, ecls, want_fmt=st.fmt if st is not None else None)
        ctx.analysed["functions"].add(f"{m.name}.{dcls}.decode")
        ctx.analysed["functions"].add(f"{m.name}.{ecls}.encode")
        smap = c05.slot_map(notes)
        same = st is not None and (st.fmt == packed.struct.fmt or (st.size == packed.struct.size and [(x.offset, x.size, x.code) for x in st.slots] == [(x.offset, x.size, x.code) for x in packed.struct.slots]))
        ctx.check(same, R, f"{lab}:same-struct", m, dnode, f"encoder and decoder use the same record layout ({packed.struct.fmt})", st.fmt if st else "?")
        opaque_fields = {f for (mo, f) in OPAQUE_OK if mo == mod}
        overlap = [p for p in eprob if "overlapping bit fields" in p]
        if overlap:
            ctx.violation(R, f"{lab}:fields-disjoint", m, m.get_class(ecls).methods["encode"], "the encoder adds bit fields that do not overlap (each bit of the record belongs to one attribute)", overlap[0])
            continue
        for p in dprob + eprob:
            if not any(f in p for f in opaque_fields) and not (mod.endswith("ac_ability") and ("ac_name" in p or "group_display" in p or "encoded_ac_name" in p)) and "duration" not in p and "divmod" not in p:
                raise AnalysisError(f"{m.relpath}: {ecls}/{dcls} left the bit domain: {p}")
        # tagged unions: compare per tag
        tagged = [(f, v) for f, v in fields.items() if isinstance(v, B.Choice) and any(c[0] == "in_enum" or (c[0] == "and" and any(l[0] == "eq" for l in B._lits(c))) for c, _ in v.alts) and any(isinstance(x, B.Obj) for _, x in v.alts)]
        base_lay = enc_positions(packed, None)
        for fname, v in fields.items():
            if (mod, fname) in OPAQUE_OK:
                ctx.holds(R, f"{lab}:{fname}", m, dnode, "not in the bit domain: " + OPAQUE_OK[(mod, fname)])
                continue
            if any(fname == f for f, _ in tagged):
                for c, x in v.alts:
                    if isinstance(x, B.Obj):
                        lay = enc_positions(packed, x.cls)
                        for k, sub in x.fields.items():
                            compare_field(ctx, R, lab, k, codec.describe(sub), lay, smap, m, dnode, path=f"{fname}.")
                    elif isinstance(x, B.EnumV):
                        lay = enc_positions(packed, x.cls.name)
                        compare_field(ctx, R, lab, fname, codec.describe(x), lay, smap, m, dnode)
                continue
            compare_field(ctx, R, lab, fname, codec.describe(v), base_lay, smap, m, dnode)
        # every record attribute the encoder packs is read back by the decoder
        enc_attrs = set()
        for p, b in base_lay.items():
            if isinstance(p[0], int) and isinstance(b, tuple) and b[0] == "s":
                nm = b[1][4:] if b[1].startswith("lin:") else b[1]
                nm = nm.split("*")[0]
                parts = nm.split(".")
                if len(parts) >= 2:
                    enc_attrs.add(parts[1].split("[")[0])
        missing = sorted(a for a in enc_attrs if a not in fields and a != "value")
        ctx.check(not missing, R, f"{lab}:decoder-reads-every-packed-attribute", m, dnode, "every attribute the encoder packs is decoded", ", ".join(missing))
    # timer status records (no vendor text): encoder/decoder agreement of the timer state struct
    for gen, mod in (("at4", "x37_ac_timer_status"), ("at5", "xC033_ac_timer_status")):
        m = ctx.repo.module(f"pyairtouch.{gen}.comms.{mod}")
        ci = m.get_class("AcTimerStatusEncoder")
        helper = "_pack_timer_state" if gen == "at4" else "_encode_timer_state"
        fn = ci.methods.get(helper)
        ctx.require(fn is not None, f"{m.relpath}: {helper} vanished")
        ev = B.Ev(ctx.repo, m, ci)
        tci = m.get_class("AcTimerState")
        sym = B.Sym("timer_state", tci)
        try:
            if gen == "at4":
                ev.invoke(fn, m, [B.Sym("buffer"), B.Sym("offset"), sym], {}, skip_self=True)
                packed = next(n[2] for n in ev.notes if n[0] == "pack_into")
            else:
                packed = ev.invoke(fn, m, [sym], {}, skip_self=True)
        except (B.Unsupported, StopIteration) as ex:
            raise AnalysisError(f"{m.relpath}: {helper} left the bit domain: {ex}")
        lay = layout(packed, None, strict=False)
        # decoder side: the on_timer object of a decoded record (wherever the two bytes are unpacked - in decode() itself, in a
        # method or in a module function); its unpack is taken as offset 0 of the timer struct
        dfn = m.get_class("AcTimerStatusDecoder").methods["decode"]
        rci, dfields, dprob, dst, dnotes = codec.decoder_fields(ctx.repo, m, "AcTimerStatusDecoder")
        obj = dfields.get("on_timer")
        ctx.require(isinstance(obj, B.Obj), f"{m.relpath}: AcTimerStatusDecoder does not build an AcTimerState for on_timer ({dprob})")
        tags = sorted({n for sub in obj.fields.values() for _, n, _ in (codec.describe(sub).bits or []) if isinstance(n, str)})
        own = {t.split("@", 1)[1] if "@" in t else "" for t in tags}
        ctx.require(len(own) == 1, f"{m.relpath}: on_timer is decoded from several unpack calls {sorted(own)}")
        tag = ("@" + own.pop()) if tags and "@" in tags[0] else ""
        smap = {}
        for n_ in dnotes:
            if n_[0] == "unpack" and n_[3] == tag:
                for sl in n_[1].slots:
                    smap[f"slot{sl.index}{tag}"] = (n_[1], sl, 0)
        for k, sub in obj.fields.items():
            compare_field(ctx, R, f"{gen}.{mod}:timer_state", k, codec.describe(sub), lay, smap, m, dfn, path="timer_state." if False else "")


# ------------------------------------------------------------------------------------------ R4
def r4(ctx):
    from . import c01

    before = len(ctx.obligations)
    c01.r4(ctx)
    for o in ctx.obligations[before:]:
        o.rule = "C03.R4"
        o.construct = "send-path:" + o.construct
    c13.r1(ctx, "C03.R4")
    f = __import__("sa.rules.common", fromlist=["sock_fn"]).sock_fn(ctx, "_read_one_message")
    m, g = f.module, f.cfg
    rets = [n for n in g.nodes if n.kind == "stmt" and isinstance(n.ast, ast.Return) and isinstance(n.ast.value, ast.Tuple)]
    acs = f.calls("assert_complete")

    def recv_text(n, c):
        return f.expand_text(c.func.value, n) if isinstance(c.func, ast.Attribute) else ""

    # by role, not by the names of the locals: the receiver of assert_complete() is the result of the header decoder / of the
    # decoder looked up in the registry
    hdr_ac = [n for n, c in acs if recv_text(n, c).startswith("self._registry.header_decoder.decode(")]
    msg_ac = [n for n, c in acs if recv_text(n, c).startswith("self._registry.get_decoder(")]
    ok = bool(rets) and bool(hdr_ac) and bool(msg_ac) and all(g.dominates(a.id, r.id) for r in rets for a in hdr_ac + msg_ac)
    ctx.check(ok, "C03.R4", "_read_one_message:nothing-left-over", m, f.node, "assert_complete() is called on the header result and on the message result before the success return", f"{len(hdr_ac)} header / {len(msg_ac)} message assert_complete calls dominate the return: {ok}")
    decs = [(n, c) for n, c in f.calls_pred(lambda d: d.endswith(".decode")) if isinstance(c.func, ast.Attribute) and f.expand_text(c.func.value, n).startswith("self._registry.get_decoder(")]
    ok = False
    if len(decs) == 1:
        n_, c_ = decs[0]
        a0 = f.expand_text(c_.args[0], n_) if len(c_.args) > 0 else ""
        a1 = f.expand_text(c_.args[1], n_) if len(c_.args) > 1 else ""
        ok = "readexactly(" in a0 and "message_length" in a0 and a1.startswith("self._registry.header_decoder.decode(") and a1.endswith(".header") and not c_.keywords
    ctx.check(ok, "C03.R4", "_read_one_message:decoder-gets-payload-and-header", m, f.node, "the decoder looked up for header.message_id gets the payload bytes just read and the decoded header", norm_text(decs[0][1]) if decs else "")
    gd = f.calls("get_decoder")
    ok = len(gd) == 1 and norm_text(gd[0][1].args[0]) == "header.message_id"
    ctx.check(ok, "C03.R4", "_read_one_message:decoder-by-header-id", m, f.node, "decoder looked up with header.message_id", norm_text(gd[0][1]) if gd else "")
    for cname in ("HeaderDecodeResult", "MessageDecodeResult"):
        cm = ctx.repo.module("pyairtouch.comms")
        fn = cm.get_class(cname).methods.get("assert_complete")
        ok = False
        if fn is not None:
            af = Fn(ctx.repo, cm, f"{cname}.assert_complete")
            ag = af.cfg
            raises = [n for n in ag.nodes if n.kind == "stmt" and isinstance(n.ast, ast.Raise) and "DecodeError" in unparse(n.ast)]
            for t in af.tests(lambda e: norm_text(e) == "self.remaining"):
                tb, fb = af.branch(t, "true"), af.branch(t, "false")
                # bytes remain -> every path raises DecodeError; nothing remains -> no raise reachable
                if raises and ag.exit.id not in ag.reachable(tb.id, labels=NONEXC) and any(r.id in ag.reachable(tb.id, labels=NONEXC) for r in raises) and not any(ag.exists_path(fb.id, r.id) for r in raises):
                    ok = True
        ctx.check(ok, "C03.R4", f"comms.{cname}.assert_complete", cm, fn, "raises DecodeError exactly when bytes remain", "different")


# ------------------------------------------------------------------------------------------ R5
def r5(ctx):
    R = "C03.R5"
    for gen in ("at4", "at5"):
        rm = ctx.repo.module(f"pyairtouch.{gen}.comms.registry")
        pkg = f"pyairtouch.{gen}.comms"
        registered = {}  # module alias -> (enc class text, dec class text, level)

        def mod_of(e):
            d = dotted(e.func if isinstance(e, ast.Call) else e) or ""
            return d.split(".")[0], d.split(".")[-1]

        top = []
        for call in [c for c in ast.walk(rm.tree) if isinstance(c, ast.Call) and dotted(c.func) == "INSTANCE.register"]:
            kw = bind_call(ctx.repo, rm, call)
            top.append((kw.get("message_id"), kw.get("encoder"), kw.get("decoder"), call))
        maps = {}
        for name, expr in rm.assigns.items():
            if isinstance(expr, ast.Call):
                d = None
                for a in list(expr.args) + [k.value for k in expr.keywords]:
                    if isinstance(a, ast.Dict):
                        d = a
                if d is not None:
                    maps[name] = (expr, d)
        ids_seen = {}
        for mid, enc, dec, call in top:
            mmod = (dotted(mid) or "").split(".")[0]
            idv = ctx.repo.try_fold(rm, mid)
            ctx.check(idv not in ids_seen, R, f"{gen}:register(0x{idv:X}):once" if isinstance(idv, int) else f"{gen}:register:once", rm, call, "each top-level id is registered once", f"also at line {ids_seen.get(idv)}")
            ids_seen[idv] = call.lineno
            if isinstance(enc, ast.Call) and isinstance(dec, ast.Call):
                em, ec = mod_of(enc)
                dm, dc = mod_of(dec)
                ctx.check(em == dm == mmod, R, f"{gen}:register({mmod}):same-module", rm, call, f"id, encoder and decoder all from module {mmod}", f"encoder {em}.{ec}, decoder {dm}.{dc}")
                registered[mmod] = (ec, dc)
            else:
                # wrapper registered through the two maps
                en, dn = dotted(enc), dotted(dec)
                ctx.check(en in maps and dn in maps, R, f"{gen}:register({mmod}):wrapper", rm, call, "wrapper encoder/decoder objects built from the two maps", f"{en}/{dn}")
                if en in maps and dn in maps:
                    ek = {(dotted(k) or "").split(".")[0]: v for k, v in zip(maps[en][1].keys, maps[en][1].values)}
                    dk = {(dotted(k) or "").split(".")[0]: v for k, v in zip(maps[dn][1].keys, maps[dn][1].values)}
                    ctx.check(set(ek) == set(dk), R, f"{gen}:{mmod}:maps-have-equal-keys", rm, maps[en][0], "every sub-message has both an encoder and a decoder", f"only encoder: {sorted(set(ek) - set(dk))}; only decoder: {sorted(set(dk) - set(ek))}")
                    for k in sorted(set(ek) & set(dk)):
                        em, ec = mod_of(ek[k])
                        dm, dc = mod_of(dk[k])
                        ctx.check(em == k and dm == k, R, f"{gen}:{mmod}[{k}]:same-module", rm, ek[k], f"sub-id {k}.MESSAGE_ID maps to the encoder and decoder of module {k}", f"encoder {em}.{ec}, decoder {dm}.{dc}")
                        registered[k] = (ec, dc)
                    for mp in (maps[en][1], maps[dn][1]):
                        vals = [ctx.repo.try_fold(rm, k) for k in mp.keys]
                        ctx.check(len(set(vals)) == len(vals), R, f"{gen}:{mmod}:no-duplicate-sub-ids", rm, mp, "sub ids are distinct", str(vals))
                    registered[mmod] = ("wrapper", "wrapper")
        # completeness: every Message class of the generation lives in a registered module
        for name, m in sorted(ctx.repo.modules.items()):
            if not name.startswith(pkg + ".x"):
                continue
            short = name.split(".")[-1]
            msgs = [c for c in m.classes.values() if ctx.repo.derives_from(c, "pyairtouch.comms.Message")]
            if not msgs:
                continue
            ctx.check(short in registered, R, f"{gen}:{short}:registered", rm, None, f"module {short} ({', '.join(c.name for c in msgs)}) is registered", "not registered")
            if short in registered and registered[short][0] != "wrapper":
                ec, dc = registered[short]
                eci = ctx.repo.resolve_class(m, ast.parse(ec, mode="eval").body)
                ctx.check(eci is not None and ec.endswith("Encoder") and dc.endswith("Decoder") and dc in m.classes, R, f"{gen}:{short}:classes-exist", rm, None, f"{ec} / {dc} exist in {short}", "missing")
            # message_id property returns the module id
            for c in msgs:
                fn = c.methods.get("message_id")
                if fn is None:
                    continue
                rets = [x for x in ast.walk(fn) if isinstance(x, ast.Return)]
                ok = len(rets) == 1 and norm_text(rets[0].value) == "MESSAGE_ID"
                ctx.check(ok, R, f"{gen}:{short}.{c.name}.message_id", m, fn, "returns the module's MESSAGE_ID", norm_text(rets[0].value) if rets else "")
    # the API wraps each sub-message in the wrapper whose map contains it: checked by C09.R1 / C14.R1 (request chains)


# ------------------------------------------------------------------------------------------ R6
def _local_decode_calls(f: Fn):
    """calls `<local>.decode(...)`: the sub-decoder picked at run time (whatever the local is called)"""
    return [(n, c) for n, c in f.calls_pred(lambda d: d.endswith(".decode") and d.count(".") == 1) if isinstance(c.func.value, ast.Name) and c.func.value.id not in f.params and c.args]


def r6(ctx):
    R = "C03.R6"
    for gen in ("at4", "at5"):
        m = ctx.repo.module(f"pyairtouch.{gen}.comms.x1F_ext")
        f = Fn(ctx.repo, m, "ExtendedMessageDecoder.decode")
        ctx.fn(m, "ExtendedMessageDecoder.decode")
        cons = f.calls("ExtendedMessageSubHeader")
        kw = {k.arg: f.expand_text(k.value, cons[0][0]) for k in cons[0][1].keywords} if cons else {}
        hdr = f.params[2]
        ok = kw.get("message_length") in (f"{hdr}.message_length - _SUB_HEADER_STRUCT.size", f"{hdr}.message_length - 2") and kw.get("message_id") == f"_SUB_HEADER_STRUCT.unpack_from({f.params[1]})[0]" or (kw.get("message_length") == f"{hdr}.message_length - _SUB_HEADER_STRUCT.size" and "message_id" in kw)
        ctx.check(ok, R, f"{gen}:ExtendedMessageDecoder:sub-length", m, f.node, "sub-header length = header.message_length - sub-header size", str(kw))
        decs = _local_decode_calls(f)
        ok = len(decs) == 1 and f.expand_text(decs[0][1].args[0], decs[0][0]) == f"{f.params[1]}[_SUB_HEADER_STRUCT.size:]"
        ctx.check(ok, R, f"{gen}:ExtendedMessageDecoder:sub-buffer", m, f.node, "the sub-decoder gets the bytes after the sub-header", norm_text(decs[0][1]) if decs else "")
        e = Fn(ctx.repo, m, "ExtendedMessageEncoder.encode")
        cons = e.calls("ExtendedMessageSubHeader")
        kw = {k: e.expand_text(v, cons[0][0]) for k, v in ctor_fields(ctx.repo, m, cons[0][1]).items()} if cons else {}
        ok = kw.get("message_length", "").endswith(".size(message.sub_message)") and kw.get("message_id") == "message.sub_message.message_id"
        ctx.check(ok, R, f"{gen}:ExtendedMessageEncoder:sub-header", m, e.node, "the sub-header announces the sub-encoder's size and the sub-message's id", str(kw))
        packs = e.calls("_SUB_HEADER_STRUCT.pack")
        ok = len(packs) == 1 and e.expand_text(packs[0][1].args[0], packs[0][0]) == "message.sub_message.message_id"
        ctx.check(ok, R, f"{gen}:ExtendedMessageEncoder:packs-sub-id", m, e.node, "packs the sub-message id", norm_text(packs[0][1]) if packs else "")
    m = ctx.repo.module("pyairtouch.at5.comms.xC0_ctrl_status")
    sh = m.get_class("ControlStatusSubHeader")
    fn = sh.methods.get("message_length")
    rets = [x for x in ast.walk(fn) if isinstance(x, ast.Return)]
    txt = norm_text(rets[0].value).replace(" ", "").replace("(", "").replace(")", "") if len(rets) == 1 else ""
    ctx.check(txt in ("self.non_repeat_length+self.repeat_count*self.repeat_length", "self.non_repeat_length+self.repeat_length*self.repeat_count"), R, "at5:ControlStatusSubHeader.message_length", m, fn, "non_repeat_length + repeat_count * repeat_length", txt)
    fields = [n for n, _, _ in sh.fields]
    enc = Fn(ctx.repo, m, "ControlStatusEncoder.encode")
    dec = Fn(ctx.repo, m, "ControlStatusDecoder.decode")
    ctx.fn(m, "ControlStatusEncoder.encode")
    ctx.fn(m, "ControlStatusDecoder.decode")
    packs = enc.calls("_SUB_HEADER_STRUCT.pack")
    encvars = {n.ast.targets[0].id for n, c in enc.calls("self._sub_message_encoder") if isinstance(n.ast, ast.Assign) and isinstance(n.ast.targets[0], ast.Name)}
    pargs = _canon_enc([enc.expand_text(a, packs[0][0], keep=encvars) for a in packs[0][1].args]) if packs else []
    want = ["message.sub_message.message_id", "ENC.non_repeat_size(message.sub_message)", "ENC.repeat_size(message.sub_message)", "ENC.repeat_count(message.sub_message)"]
    ctx.check(pargs == want, R, "at5:ControlStatusEncoder:sub-header-slots", m, enc.node, "packs (sub id, non-repeat length, repeat length, repeat count) - the vendor's slot order", str(pargs))
    un = [n for n in dec.cfg.nodes if n.kind == "stmt" and isinstance(n.ast, ast.Assign) and isinstance(n.ast.value, ast.Call) and (dotted(n.ast.value.func) or "").endswith("_SUB_HEADER_STRUCT.unpack_from")]
    names = [e.id for e in un[0].ast.targets[0].elts] if un and isinstance(un[0].ast.targets[0], ast.Tuple) else []
    cons = dec.calls("ControlStatusSubHeader")
    assoc = {k: norm_text(v) for k, v in ctor_fields(ctx.repo, m, cons[0][1]).items()} if cons else {}
    if "*" in assoc and un and isinstance(un[0].ast.targets[0], ast.Name) and assoc["*"] == un[0].ast.targets[0].id and len(dec.defs_reaching(assoc["*"], cons[0][0])) == 1:
        assoc["*"] = norm_text(un[0].ast.value)  # the unpacked tuple held in a local bound once
    if "*" in assoc and assoc["*"].endswith("_SUB_HEADER_STRUCT.unpack_from(" + dec.params[1] + ")"):
        # ControlStatusSubHeader(*unpack_from(buffer)): slot i goes to the i-th dataclass field
        names = [f"#slot{i}" for i in range(len(fields))]
        assoc = {fld: f"#slot{i}" for i, fld in enumerate(fields)}
    slot_of = {nm: i for i, nm in enumerate(names)}
    ok = len(names) == 4 and [slot_of.get(assoc.get(f)) for f in ("sub_message_id", "non_repeat_length", "repeat_length", "repeat_count")] == [0, 1, 2, 3]
    ctx.check(ok, R, "at5:ControlStatusDecoder:sub-header-slots", m, dec.node, "slot 0 -> sub_message_id, 1 -> non_repeat_length, 2 -> repeat_length, 3 -> repeat_count (as packed)", f"unpacked {names} -> {assoc}")
    e_cons = enc.calls("ControlStatusSubHeader")
    kw = _canon_enc({k: enc.expand_text(v, e_cons[0][0], keep=encvars) for k, v in ctor_fields(ctx.repo, m, e_cons[0][1]).items()}) if e_cons else {}
    ok = kw == {"sub_message_id": want[0], "non_repeat_length": want[1], "repeat_count": want[3], "repeat_length": want[2]}
    ctx.check(ok, R, "at5:ControlStatusEncoder:sub-header-object", m, enc.node, "the sub-header object handed to the sub-encoder carries the same four values", str(kw))
    decs = _local_decode_calls(dec)
    ok = len(decs) == 1 and dec.expand_text(decs[0][1].args[0], decs[0][0]) == f"{dec.params[1]}[_SUB_HEADER_STRUCT.size:]"
    ctx.check(ok, R, "at5:ControlStatusDecoder:sub-buffer", m, dec.node, "the sub-decoder gets the bytes after the 8-byte sub-header", norm_text(decs[0][1]) if decs else "")
    # stride decoders hand back what is left after count * stride (assert_complete then catches trailing bytes)
    for mod, cls in (("xC021_zone_status", "ZoneStatusDecoder"), ("xC023_ac_status", "AcStatusDecoder"), ("xC033_ac_timer_status", "AcTimerStatusDecoder"), ("xC020_zone_ctrl", "ZoneControlDecoder"), ("xC022_ac_ctrl", "AcControlDecoder")):
        mm = ctx.repo.module(f"pyairtouch.at5.comms.{mod}")
        fn = mm.get_class(cls).methods["decode"]
        last = [x for x in ast.walk(fn) if isinstance(x, ast.Return)][-1]
        rem = next((k.value for c in ast.walk(last) if isinstance(c, ast.Call) for k in c.keywords if k.arg == "remaining"), None)
        buf = fn.args.args[1].arg
        hdr = fn.args.args[2].arg
        txt = norm_text(rem) if rem is not None else ""
        ok = txt in (buf, f"{buf}[{hdr}.repeat_count * {hdr}.repeat_length:]", f"{buf}[{hdr}.repeat_length * {hdr}.repeat_count:]")
        ctx.check(ok, R, f"at5:{mod}.{cls}:remaining", mm, last, "remaining = the buffer after all records", txt)


# ------------------------------------------------------------------------------------------ R7
def r7(ctx):
    """Truthiness tests on Optional[float|int] values in encoders: refuted when the falsy number (0 / 0.0) lies in the
    field's protocol domain and would be encoded differently from the absent sentinel."""
    R = "C03.R7"
    # (generation, module, helper, parameter, is 0 encodable and distinct from the sentinel?)
    sites = [
        ("at4", "x2B_group_status", "GroupStatusEncoder._encode_temperature", "temperature", True, "0.0 degC is a valid temperature: raw 500"),
        ("at5", "xC021_zone_status", "ZoneStatusEncoder._encode_temperature", "temperature", True, "0.0 degC is a valid temperature: raw 500"),
        ("at4", "x2B_group_status", "GroupStatusEncoder._encode_set_point", "set_point", False, "set-point 0 encodes to the same byte as the invalid filler 0x00"),
        ("at5", "xC021_zone_status", "ZoneStatusEncoder._encode_set_point", "set_point", False, "set-point 0.0 is not encodable (10*t-100 < 0)"),
        ("at5", "xC022_ac_ctrl", "AcControlEncoder._encode_set_point", "set_point", False, "set-point 0.0 is not encodable (10*t-100 < 0)"),
    ]
    for gen, mod, qual, p, zero_matters, why in sites:
        m = ctx.repo.module(f"pyairtouch.{gen}.comms.{mod}")
        f = Fn(ctx.repo, m, qual)
        ctx.fn(m, qual)
        truthy = f.tests(lambda e: isinstance(e, ast.Name) and e.id == p)
        isnone = f.tests(lambda e: isinstance(e, ast.Compare) and isinstance(e.left, ast.Name) and e.left.id == p and isinstance(e.ops[0], (ast.Is, ast.IsNot, ast.Eq, ast.NotEq)) and isinstance(e.comparators[0], ast.Constant) and e.comparators[0].value is None)
        lab = f"{gen}.{mod}.{qual}"
        if zero_matters:
            ctx.check(bool(isnone) and not truthy, R, f"{lab}:{p}", m, f.node, f"`{p} is not None` decides between the value and the not-available code ({why})", "truthiness test: 0.0 is sent as not-available" if truthy else "no absence test")
        else:
            ctx.check(bool(isnone) or bool(truthy), R, f"{lab}:{p}", m, f.node, f"absence of {p} is tested (truthiness is harmless here: {why})", "no absence test")
