"""C07 - the connection heals itself, never wedges, and stays single (structural clauses)."""
from __future__ import annotations

import ast

from ..effects import EMPTY, is_top
from ..model import AnalysisError, dotted, norm_text, unparse, walk_no_nested
from ..q import NONEXC, Fn, package_calls, iter_functions
from .common import schedule_calls, AT4_API, AT5_API, SOCKET, SOCK_CLS, fn_of, sock_fn

LEVEL = "other"
EXPLANATION = (
    "Static analysis of AirTouchSocket (CFG with exception edges, dominance/post-dominance, may-escape effect analysis over the resolved call "
    "graph): R1 every way out of the read loop resets the connection unless we closed locally; R2 reset = disconnect (close writer, await "
    "wait_closed under OSError suppression, clear state, notify) then schedule connect; R3 every completed connect attempt that leaves the socket"
    " unconnected re-tests is_connected and schedules a delayed retry (positive delay); R4 single flight: the entry guard of _connect returns "
    "when connected, when an attempt is in flight (flag set before the first await and cleared on every exit incl. cancellation) or when closed; "
    "R5 once is_connected is True the read loop is scheduled before anything that may raise; R6 encode errors are skipped without reset, write "
    "errors reset; R7 subscriber isolation in the three _notify_subscribers (every callback result awaited inside a try whose catch-all handler "
    "neither re-raises nor leaves the loop); R8 sole owners of open_connection / reader / writer; R9 connection-state coherence: a forward dataflow over every method of the socket class with the abstract state (is_connected, writer present) shows that at every suspension point and at every exit `is_connected` holds exactly when a writer is stored (otherwise another task runs in a window where a send writes to no stream and is dropped, or a connect attempt passes the guard while the old stream is still held and is then orphaned). Liveness and real interleavings are not "
    "decided."
    " Added later: R1 also demands that the 'closed locally' exemption covers end-of-stream only and that the read loop is left normally only when the reader is gone; R10 (C01.R1 re-used) a message is out of the queue before the attempt to write it."
    ' Rounds 7-8: R7 accepts two idioms for running subscriber callbacks (try/except Exception per awaited callback inside the loop, or asyncio.gather(..., return_exceptions=True)) and refutes callbacks wrapped in tasks that outlive a cancelled notifier; R3 also: retry delay == 2 s, no timer around the connection attempt; R11 the scheduling primitive (_schedule/_delay): one task per call running the coroutine given, delayed exactly for a non-zero delay (path conditions evaluated on the delays the package uses), tracked in _background_tasks and released by a done callback.'
    ' Rounds 9-10: R1 also: _read starts reading unconditionally (no entry guard); R2 also: neither reset_connection nor _disconnect nor _connect cancels a task; R3 also: inside the try of _connect only OSError can be raised (effect analysis per statement) and nothing in the OSError handler can raise; R7 also refutes raising a result collected by gather(); R13 every way round a while loop of a synchronous codec function assigns a local its condition reads; R14 (C13.R1 re-used): a legal frame never becomes an exception in the read path; R15 (C01.R11 re-used).'
)
ASSUMPTIONS = [
    "library calls in the frozen no-raise table of sa/effects.py do not raise (logging, loop.time/create_task, set/deque ops, StreamWriter.write/close/is_closing)",
    "asyncio.open_connection / drain / wait_closed raise only OSError family; CancelledError is outside the lattice",
]
FLOORS = {"C07.R1": 5, "C07.R2": 7, "C07.R3": 3, "C07.R4": 5, "C07.R5": 2, "C07.R6": 3, "C07.R7": 6, "C07.R8": 3, "C07.R9": 4, "C07.R10": 1, "C07.R11": 5, "C07.R12": 1, "C07.R13": 1, "C07.R14": 1, "C07.R15": 1}


def run(ctx):
    r1(ctx)
    r2(ctx)
    r3(ctx)
    r4(ctx)
    r5(ctx)
    r6(ctx)
    r7(ctx)
    r8(ctx)
    r9(ctx)
    r11(ctx)
    r13(ctx)
    from . import c01
    from .common import reuse

    from . import c03

    reuse(ctx, "C07.R12", [c03.r2], "a header whose length fields contradict each other is refused (and the connection reset) instead of making the read loop wait for bytes that never come (C03.R2)",
          keep=lambda o: "rejects" in o.construct or o.verdict != "HOLDS")
    from . import c13

    reuse(ctx, "C07.R14", [lambda c: c13.r1(c, "C13.R1")], "a legal frame never becomes an exception in the read path: header, payload (also an empty one) and check bytes are read unconditionally, in that order, with the announced lengths (C13.R1) - otherwise every such frame costs a reset",
          keep=lambda o: o.construct.startswith("_read_one_message") or o.verdict != "HOLDS")
    reuse(ctx, "C07.R15", [c01.r11], "an unencodable outgoing message costs only itself: the flush goes on with the messages queued behind it (C01.R11)")
    reuse(ctx, "C07.R10", [c01.r1], "a message is taken out of the queue before the attempt to write it, so one that cannot be encoded is gone when its error is handled and cannot block every later command (C01.R1)",
          keep=lambda o: "_drain_message_queue" in o.construct or o.verdict != "HOLDS")


def r13(ctx):
    """Codecs run synchronously inside the receive task: a `while` loop in one that does not advance blocks the whole event loop
    (no read, no heartbeat, no reset, no timer) - the client is wedged for good by one legal frame.  Necessary condition decided
    here: on every way round such a loop (fall-through or `continue`) a local that the loop condition reads is assigned."""
    R = "C07.R13"
    from ..q import _one_shot, block_paths, iter_functions

    n = 0
    for mm in ctx.repo.modules.values():
        if ".comms" not in mm.name or mm.name.endswith(("comms.socket", "comms.heartbeat", "comms.discovery")):
            continue
        for qual, f_ in iter_functions(mm):
            if isinstance(f_, ast.AsyncFunctionDef):
                continue
            stored = {x.id for x in ast.walk(f_) if isinstance(x, ast.Name) and isinstance(x.ctx, ast.Store)} | {a.arg for a in f_.args.args}
            for w in [x for x in ast.walk(f_) if isinstance(x, ast.While)]:
                if isinstance(w.test, ast.Constant) and w.test.value is True and _one_shot(w.body):
                    continue  # the one-shot block an inlined multi-exit helper becomes (every path leaves it): not a loop
                n += 1
                reads = {x.id for x in ast.walk(w.test) if isinstance(x, ast.Name)} & stored
                lab = f"{mm.name.split('pyairtouch.')[-1]}.{qual}:while({norm_text(w.test)[:40]})"
                if not reads:
                    ctx.check(False, R, f"{lab}:advances", mm, w, "the loop condition reads a local that the body advances", "the condition reads no local of the function")
                    continue
                try:
                    paths = block_paths(w.body)
                except AnalysisError:
                    ctx.check(False, R, f"{lab}:advances", mm, w, "the loop body is a block of assignments and ifs", "too many paths")
                    continue
                stuck = [lits for lits, env, end in paths if end in ("fall", "continue") and not (reads & set(env))]
                ctx.check(not stuck, R, f"{lab}:advances", mm, w, f"every way round the loop assigns one of {sorted(reads)} (the position moves on before the condition is tested again)", ("a way round the loop leaves the position where it was (when " + "; ".join(f"{'' if pol else 'not '}({t})" for t, pol in stuck[0]) + "): the decoder never returns and the event loop is blocked") if stuck else "")
    ctx.holds(R, "codecs:while-loops", None, None, f"{n} `while` loops in synchronous codec functions examined (`for` loops over finite sequences end by themselves)")


def _reset_nodes(fn: Fn):
    return [n for n, c in fn.calls("self.reset_connection") if n.awaits]


# ------------------------------------------------------------------------------------------ R1
def r1(ctx):
    R = "C07.R1"
    rd = sock_fn(ctx, "_read")
    m = rd.module
    g = rd.cfg
    resets = _reset_nodes(rd)
    reset_ids = [n.id for n in resets]
    reads = [n for n, c in rd.calls("self._read_one_message")]
    ctx.require(reads, "socket._read: no call of _read_one_message")
    handlers = rd.handlers()
    # the read call is covered by a catch-all handler
    for rn in reads:
        targets = [g.nodes[s] for lbl, s in rn.succ if lbl == "exc"]
        catch_all = any(h.kind == "handler" and any(t.split(".")[-1] in ("Exception", "BaseException") for t in h.meta["types"]) for h in targets)
        escapes = any(t.id == g.raise_exit.id for t in targets)
        ctx.check(catch_all and not escapes, R, "_read:catch-all", m, rn.ast, "the read loop runs inside a try with an `except Exception` handler (nothing escapes the receive task)", "handlers: " + ", ".join(h.label for h in targets if h.kind == "handler") + ("; exceptions can escape" if escapes else ""))
    # loop body covered too: the notify call
    for n, c in rd.calls("self._notify_message_received"):
        targets = [g.nodes[s] for lbl, s in n.succ if lbl == "exc"]
        ok = any(h.kind == "handler" and any(t.split(".")[-1] in ("Exception", "BaseException") for t in h.meta["types"]) for h in targets) and not any(t.id == g.raise_exit.id for t in targets)
        ctx.check(ok, R, "_read:notify-covered", m, c, "delivery to subscribers is inside the same catch-all", "not covered")
    # every handler resets
    for h in handlers:
        types = h.meta["types"]
        is_incomplete = any(t.split(".")[-1] == "IncompleteReadError" for t in types)
        others = [t for t in types if t.split(".")[-1] not in ("IncompleteReadError", "EOFError")]
        if is_incomplete and others:
            # the local-close exemption is sound for end-of-stream only: after a transport error (reset by peer, broken pipe)
            # asyncio has already closed the transport, so `is_closing()` is true although the peer ended the connection
            ctx.violation(R, f"_read:handler({h.label}):exemption-scope", m, h.ast, "the 'closed locally' exemption (writer gone or closing => no reset) covers end-of-stream (IncompleteReadError) only", "it also covers " + ", ".join(others) + ": a transport error leaves is_closing() true, so the dead link would never be reset")
            is_incomplete = False
        via = set(reset_ids)
        if is_incomplete:
            # allowed to skip the reset only when we closed locally: `self._writer and not self._writer.is_closing()`
            for t, present in rd.presence("self._writer"):
                if g.dominates(h.id, t.id):
                    via.add(rd.branch(t, "false" if present == "true" else "true").id)
            for t in rd.tests(lambda e: isinstance(e, ast.Call) and dotted(e.func) == "self._writer.is_closing"):
                if g.dominates(h.id, t.id):
                    via.add(rd.branch(t, "true").id)
        ok = bool(reset_ids) and g.all_paths_pass(h.id, [g.exit.id], via, NONEXC)
        exp = "every normal path through the handler awaits reset_connection()" + (" unless the writer is gone or closing (local close)" if is_incomplete else "")
        ctx.check(ok, R, f"_read:handler({h.label})", m, h.ast, exp, "a path leaves the handler without resetting the connection")
    # leaving the loop normally: only because the reader is gone (a disconnect happened, which notified and scheduled what it
    # must); any other loop condition ends the receive task on a connection that still counts as connected
    heads = [n for n in g.nodes if n.kind == "join" and n.label == "while" and any(g.exists_path(n.id, r.id) and g.exists_path(r.id, n.id) for r in reads)]
    for hd in heads:
        via = set(reset_ids)
        for t, present in rd.presence("self._reader"):
            via.add(rd.branch(t, "false" if present == "true" else "true").id)
        ok = g.all_paths_pass(hd.id, [g.exit.id], via, NONEXC)
        ctx.check(ok, R, "_read:loop-ends-only-without-reader", m, hd.ast, "the read loop is left normally only when self._reader is gone or after a reset", "the loop condition can end the receive task while the connection still counts as connected (no reset, no reconnect)")
    # ... and the task reads from the moment it is started: nothing but the absence of a reader (or a reset) lets _read end
    # before its loop.  An entry guard ("a read loop is already running") makes the loop of a new connection return while the
    # old loop is still finishing its own reset: connected, transmitting, and deaf for ever.
    if heads:
        via = set(reset_ids) | {hd.id for hd in heads}
        for t, present in rd.presence("self._reader"):
            via.add(rd.branch(t, "false" if present == "true" else "true").id)
        ok = g.all_paths_pass(g.entry.id, [g.exit.id], via, NONEXC)
        ctx.check(ok, R, "_read:starts-reading-unconditionally", m, rd.node, "every normal path from the start of _read reaches the read loop (or finds no reader)", "a path returns from _read before the loop: the connection it was started for is never read")
    # falsy result -> reset
    for rn in reads:
        a = rn.ast
        var = a.targets[0].id if isinstance(a, ast.Assign) and isinstance(a.targets[0], ast.Name) else None
        ts = rd.tests(lambda e: isinstance(e, ast.Name) and e.id == var) if var else []
        if not ts:
            ctx.violation(R, "_read:falsy-result", m, a, "a failed read (None) leads to reset_connection()", "result is not tested")
            continue
        for t in ts:
            fb = rd.branch(t, "false")
            heads = [n.id for n in g.nodes if n.kind == "join" and n.label == "while"] + [g.exit.id]
            ok = bool(reset_ids) and g.all_paths_pass(fb.id, heads, reset_ids, NONEXC)
            ctx.check(ok, R, "_read:falsy-result", m, t.ast, "the falsy branch awaits reset_connection() before reading again", "no reset on the falsy branch")
            tb = rd.branch(t, "true")
            nots = [n for n, c in rd.calls("self._notify_message_received")]
            ok2 = all(g.dominates(tb.id, n.id) for n in nots) and bool(nots)
            ctx.check(ok2, R, "_read:deliver-only-truthy", m, t.ast, "subscribers are notified only for a successful read", "notification outside the truthy branch")


# ------------------------------------------------------------------------------------------ R2
def r2(ctx):
    R = "C07.R2"
    rc = sock_fn(ctx, "reset_connection")
    m = rc.module
    dis = [n for n, c in rc.calls("self._disconnect") if n.awaits]
    sched = schedule_calls(rc, "_connect")
    ok = bool(dis) and bool(sched) and all(rc.cfg.dominates(dis[0].id, n.id) for n, _ in sched) and rc.cfg.all_paths_pass(rc.cfg.entry.id, [rc.cfg.exit.id], [n.id for n, _ in sched], NONEXC) and rc.cfg.all_paths_pass(rc.cfg.entry.id, [rc.cfg.exit.id], [d.id for d in dis], NONEXC)
    ctx.check(ok, R, "reset_connection:disconnect-then-connect", m, rc.node, "await _disconnect() and then _schedule(_connect()) on every path", "missing or out of order")
    for n, c in sched:
        d = next((k.value for k in c.keywords if k.arg == "delay"), c.args[1] if len(c.args) > 1 else None)
        dv = ctx.repo.try_fold(m, d) if d is not None else None
        ctx.check(d is None or dv in (None, 0, 0.0) or (isinstance(dv, (int, float)) and dv <= 2.0), R, "reset_connection:reconnect-promptly", m, c, "the reconnect after a reset is scheduled without a long delay", unparse(d) if d is not None else "")
    # who may cancel: a reset ends the connection, not the tasks.  The receive task may be in the middle of delivering a frame
    # (suspended in a subscriber) and a sender may be half way through the queue: cancelling them from reset_connection() /
    # _disconnect() throws away the rest of that frame / of the queue.  Only close() cancels background tasks.
    cancels = [(q_, c_) for q_ in ("reset_connection", "_disconnect", "_connect") for _, c_ in sock_fn(ctx, q_).calls_pred(lambda d_: d_.endswith(".cancel"))]
    ctx.check(not cancels, R, "reset_connection:cancels-nothing", m, (cancels[0][1] if cancels else rc.node), "neither reset_connection() nor _disconnect() nor _connect() cancels a task (the old read loop ends by itself when its reader is gone)", f"{cancels[0][0]}: `{norm_text(cancels[0][1])[:60]}`" if cancels else "")
    ds = sock_fn(ctx, "_disconnect")
    g = ds.cfg
    closes = [n for n, c in ds.calls("self._writer.close")]
    waits = [n for n, c in ds.calls("self._writer.wait_closed")]
    wtp = ds.presence("self._writer")
    wt = [t for t, _ in wtp]
    ok = bool(closes) and all(any(g.dominates(ds.branch(t, lab).id, n.id) for t, lab in wtp) for n in closes)
    ctx.check(ok, R, "_disconnect:close-writer", m, ds.node, "the current writer is closed when one exists", "no guarded self._writer.close()")
    # every path on which a writer exists closes it
    if wt and closes:
        tb = ds.branch(wtp[0][0], wtp[0][1])
        ctx.check(g.all_paths_pass(tb.id, [g.exit.id], [n.id for n in closes], NONEXC), R, "_disconnect:close-on-all-paths", m, wt[0].ast, "with a writer present every path closes it", "a path skips close()")
    else:
        ctx.violation(R, "_disconnect:close-on-all-paths", m, ds.node, "with a writer present every path closes it", "no writer test / close")
    # wait_closed may raise OSError: must not escape
    esc = ctx.effects.of_function(ds.node, m, ds.cls)
    ctx.check(esc == EMPTY, R, "_disconnect:never-raises", m, ds.node, "_disconnect cannot raise (wait_closed errors are suppressed), so reset_connection always reaches the reconnect", f"may escape: {'any exception' if is_top(esc) else sorted(esc)}; " + " | ".join(ctx.effects.witness(ctx.effects.key(ds.node, m, ds.cls))))
    for attr, val in (("self.is_connected", False), ("self._reader", None), ("self._writer", None)):
        nodes = [n for n, v in ds.assigns(attr) if isinstance(v, ast.Constant) and v.value is val]
        ok = bool(nodes) and g.all_paths_pass(g.entry.id, [g.exit.id], [n.id for n in nodes], NONEXC)
        ctx.check(ok, R, f"_disconnect:{attr}={val}", m, ds.node, f"{attr} = {val} on every normal path", "missing on some path")
    nots = [(n, c) for n, c in ds.calls("self._notify_connection_changed") if n.awaits]
    flag = [n for n, v in ds.assigns("self.is_connected")]
    ok = bool(nots) and bool(flag) and all(g.dominates(flag[0].id, n.id) for n, _ in nots) and g.all_paths_pass(g.entry.id, [g.exit.id], [n.id for n, _ in nots], NONEXC)
    ctx.check(ok, R, "_disconnect:notify-disconnected", m, ds.node, "subscribers are told connected=False after the state was cleared", "missing or before the state change")
    # closes must precede clearing the writer reference
    wclear = [n for n, v in ds.assigns("self._writer")]
    ok = bool(closes) and bool(wclear) and all(not g.exists_path(w.id, c.id) for w in wclear for c in closes)
    ctx.check(ok, R, "_disconnect:close-before-forget", m, ds.node, "the writer is closed before its reference is dropped", "reference dropped first")


# ------------------------------------------------------------------------------------------ R3
def _connect_parts(ctx):
    con = sock_fn(ctx, "_connect", precise=True)
    opens = [(n, c) for n, c in con.calls("asyncio.open_connection")]
    ctx.require(opens, "socket._connect: no asyncio.open_connection call")
    return con, opens


def r3(ctx):
    R = "C07.R3"
    con, opens = _connect_parts(ctx)
    m, g = con.module, con.cfg
    on = opens[0][0]
    retries = schedule_calls(con, "_connect")
    if not retries:
        ctx.violation(R, "_connect:retry", m, con.node, "a failed connection attempt schedules another _connect()", "no self._schedule(self._connect(), ...) in _connect")
        return
    for n, c in retries:
        d = next((k.value for k in c.keywords if k.arg == "delay"), c.args[1] if len(c.args) > 1 else None)
        dv = ctx.repo.try_fold(m, d) if d is not None else None
        ctx.check(isinstance(dv, (int, float)) and not isinstance(dv, bool) and dv == 2.0, R, "_connect:retry-delay", m, c, "a failed attempt is retried after 2 s (the delay the property names; init()'s 5 s window relies on it)", f"{unparse(d) if d is not None else 'no delay'} = {dv!r}")
    # the attempt itself is not put under a local timer: TimeoutError is an OSError, so a connect that takes longer than the timer
    # would be abandoned and retried for ever although it would have succeeded
    timers = [c for n, c in con.calls_pred(lambda d_: d_ in ("asyncio.wait_for", "asyncio.timeout", "asyncio.timeout_at"))]
    ctx.check(not timers, R, "_connect:no-timer-around-the-attempt", m, (timers[0] if timers else con.node), "open_connection is awaited as it is (the operating system's connect timeout applies)", f"{norm_text(timers[0])[:70]}" if timers else "")
    # tests of is_connected evaluated after the attempt
    post_tests = [t for t in con.tests(lambda e: dotted(e) == "self.is_connected") if g.exists_path(on.id, t.id)]
    labels = NONEXC | {"exc"}
    # every way out of the attempt (normal completion or handled failure) reaches such a test
    avoid_raise = {g.raise_exit.id}
    reach_exit_without_test = g.exit.id in g.reachable(on.id, avoid={t.id for t in post_tests} | avoid_raise)
    ctx.check(bool(post_tests) and not reach_exit_without_test, R, "_connect:retest-after-attempt", m, con.node, "every completion of the attempt (success, handled failure, or a disconnect that happened meanwhile) re-tests self.is_connected", "a path returns from _connect without re-testing is_connected (e.g. the retry lives only in the except branch)")
    for t in post_tests:
        fb = con.branch(t, "false")
        ok = g.all_paths_pass(fb.id, [g.exit.id], [n.id for n, _ in retries], NONEXC)
        ctx.check(ok, R, "_connect:retry-when-unconnected", m, t.ast, "the not-connected branch always schedules the retry", "a not-connected path ends without scheduling a retry")
    # nothing but a cancellation ends _connect before its retry test: the effect analysis finds no exception class that can leave
    # the function (an attribute access on a writer that a concurrent reset may have cleared, an unresolved call in the try body
    # that raises something other than OSError, ... would kill the task and end the retry chain)
    from ..effects import EMPTY as _E0, is_top as _top0

    worst0 = None
    for t_ in [x for x in ast.walk(con.node) if isinstance(x, ast.Try)]:
        for st_ in t_.body:
            if any(isinstance(x, ast.Call) and (dotted(x.func) or "").endswith("_drain_message_queue") for x in ast.walk(st_)):
                continue  # the flush: an encoder failure there concerns a connection that is already up (decided by C07.R6/C02)
            e_ = ctx.effects.of_stmt(st_, m, con.cls)
            if _top0(e_) or (e_ - {"OSError"}):
                worst0 = worst0 or (st_, e_)
    ctx.check(worst0 is None, R, "_connect:only-OSError-in-the-attempt", m, (worst0[0] if worst0 else con.node), "inside the try of _connect only OSError can be raised (and is handled): no statement can throw past the handler and the retry test", f"`{norm_text(worst0[0])[:70]}` may raise {'any exception' if _top0(worst0[1]) else sorted(worst0[1] - {'OSError'})}" if worst0 else "")
    # the OSError handler neither returns nor raises
    hs = [h for h in con.handlers() if any(t.split(".")[-1] == "OSError" for t in h.meta["types"])]
    ctx.check(bool(hs), R, "_connect:OSError-handled", m, con.node, "connection refusals (OSError) are caught in _connect", "no OSError handler")
    for h in hs:
        bad = [x for s in h.ast.body for x in ast.walk(s) if isinstance(x, (ast.Return, ast.Raise))]
        ctx.check(not bad, R, "_connect:OSError-falls-through", m, h.ast, "the OSError handler falls through to the retry test", "return/raise inside the handler")
        # ... and nothing evaluated inside it can raise: an exception out of the handler leaves the task before the retry is
        # scheduled, and the retry chain ends for good (effect analysis of the handler body: subscripts, unresolved calls and
        # awaits of foreign code count as able to raise)
        from ..effects import EMPTY as _E, is_top as _top

        esc = _E
        worst = None
        for s_ in h.ast.body:
            e_ = ctx.effects.of_stmt(s_, m, con.cls)
            if e_ != _E and worst is None:
                worst = s_
            esc = esc | e_ if not (_top(esc) or _top(e_)) else (e_ if _top(e_) else esc)
        ctx.check(esc == _E, R, "_connect:OSError-handler-cannot-raise", m, (worst if worst is not None else h.ast), "nothing in the OSError handler can raise (the retry test after it is always reached)", f"`{norm_text(worst)[:80]}` may raise {'any exception' if _top(esc) else sorted(esc)}" if worst is not None else "")


# ------------------------------------------------------------------------------------------ R4
def r4(ctx):
    R = "C07.R4"
    con, opens = _connect_parts(ctx)
    m, g = con.module, con.cfg
    on = opens[0][0]
    # entry guard: tests that dominate the open_connection node
    guard = {}
    for t in con.tests(lambda e: (dotted(e) or "").startswith("self.")):
        for label in ("true", "false"):
            b = con.branch(t, label)
            if g.dominates(b.id, on.id):
                guard[dotted(t.ast)] = label  # the branch on which we proceed
    ctx.check(guard.get("self.is_connected") == "false", R, "_connect:guard:is_connected", m, con.node, "_connect proceeds only when not already connected", f"guard: {guard}")
    flags = [k for k, v in guard.items() if v == "false" and k not in ("self.is_connected",)]
    ok_flag = None
    found = "no in-flight flag is tested in the entry guard; is_connected alone is only set after `await open_connection`, so two tasks can pass the guard"
    awaiting = [n for n in g.nodes if n.awaits and n.id in g.reachable(g.entry.id)]
    for f in flags:
        sets = [n for n, v in con.assigns(f) if isinstance(v, ast.Constant) and v.value is True]
        clears = [n for n, v in con.assigns(f) if isinstance(v, ast.Constant) and v.value is False]
        if not sets:
            continue
        s = sets[0]
        before_await = all(g.dominates(s.id, a.id) for a in awaiting) and not con.awaits_between(g.entry, s)
        # cleared on every exit reachable after the set, including exceptional exits and cancellation at any await
        cleared = bool(clears) and g.all_paths_pass(s.id, [g.exit.id, g.raise_exit.id], [c.id for c in clears], None)
        if before_await and cleared:
            ok_flag = f
        else:
            found = f"flag {f}: " + ("" if before_await else "not set before the first await; ") + ("" if cleared else "not cleared on every exit (an exception or cancellation leaves it set and no later _connect can run)")
    ctx.check(ok_flag is not None, R, "_connect:single-flight", m, con.node, "an in-flight flag tested by the guard is set before the first await and cleared on every exit (finally)", found if ok_flag is None else ok_flag)
    # callers that can overlap: informational census
    callers = package_calls(ctx.repo, lambda d: d.endswith("reset_connection"))
    ctx.holds(R, "reset_connection:callers", m, None, f"{len(callers)} call sites can schedule overlapping connects: " + ", ".join(sorted({f'{mm.name.split(".")[-1]}.{q.split(".")[-1]}' for mm, q, _ in callers})))
    ctx.check(guard.get("self.is_open") == "true", R, "_connect:guard:is_open", m, con.node, "_connect proceeds only while the socket is open", f"guard: {guard}")
    # the guard's early exit must not schedule anything
    early = [n for n, c in con.calls("self._schedule") if not g.exists_path(on.id, n.id) and not g.dominates(on.id, n.id) and any(g.dominates(con.branch(t, 'true' if lbl == 'false' else 'false').id, n.id) for t in con.tests(lambda e: dotted(e) in guard) for lbl in [guard[dotted(t.ast)]])]
    ctx.check(not early, R, "_connect:guard-exit-is-silent", m, con.node, "the early return of the guard schedules nothing", f"line {early[0].lineno}" if early else "")


# ------------------------------------------------------------------------------------------ R5
def r5(ctx):
    R = "C07.R5"
    con, opens = _connect_parts(ctx)
    m, g = con.module, con.cfg
    sets = [n for n, v in con.assigns("self.is_connected") if isinstance(v, ast.Constant) and v.value is True]
    reads = [n for n, c in schedule_calls(con, "_read")]
    if not sets or not reads:
        ctx.violation(R, "_connect:read-loop", m, con.node, "_connect sets is_connected and schedules the read loop", f"is_connected=True: {len(sets)}, _schedule(_read()): {len(reads)}")
        return
    for s in sets:
        ok = g.all_paths_pass(s.id, [g.exit.id], [r.id for r in reads], NONEXC)
        ctx.check(ok, R, "_connect:read-loop-on-normal-paths", m, s.ast, "every normal path after is_connected=True schedules _read()", "a normal path skips the read loop")
        mid = set()
        for r in reads:
            mid |= g.between(s.id, r.id, NONEXC)
        mid -= {s.id} | {r.id for r in reads}
        bad = []
        for i in sorted(mid):
            n = g.nodes[i]
            if n.kind in ("branch", "join") or n.ast is None:
                continue
            probe = n.ast if n.kind == "stmt" else None
            esc = ctx.effects.of_stmt(probe, m, con.cls, ctx="C07.R5") if probe is not None else ctx.effects.of_expr(n.ast, m, con.cls, ctx="C07.R5")
            if esc != EMPTY:
                bad.append((n, esc))
        detail = ""
        if bad:
            n, esc = bad[0]
            chain = []
            for c in [x for x in walk_no_nested(n.ast) if isinstance(x, ast.Call)]:
                d = dotted(c.func) or ""
                if d.startswith("self."):
                    found = ctx.repo.find_method(con.cls, d.split(".")[1])
                    if found:
                        chain = ctx.effects.witness(ctx.effects.key(found[1], found[0].module, found[0]))
            detail = f"line {n.lineno} `{norm_text(n.ast)[:70]}` may raise {'any exception' if is_top(esc) else sorted(esc)} before the read loop exists; the OSError handler then finds is_connected True, so neither a retry nor a reader is created" + ("; witness: " + " | ".join(chain) if chain else "")
        ctx.check(not bad, R, "_connect:nothing-raises-before-read-loop", m, (bad[0][0].ast if bad else s.ast), "no statement between is_connected=True and _schedule(_read()) may raise (connected implies a reader)", detail)


# ------------------------------------------------------------------------------------------ R6
def r6(ctx):
    R = "C07.R6"
    dr = sock_fn(ctx, "_drain_message_queue")
    m, g = dr.module, dr.cfg
    hs = dr.handlers()
    enc = [h for h in hs if any(t.split(".")[-1] in ("ValueError", "NotImplementedError") for t in h.meta["types"])]
    osr = [h for h in hs if any(t.split(".")[-1] == "OSError" for t in h.meta["types"])]
    ctx.check(bool(enc), R, "_drain_message_queue:encode-error-handler", m, dr.node, "encode errors (ValueError/NotImplementedError) are handled", "no such handler")
    for h in enc:
        bad = [x for s in h.ast.body for x in ast.walk(s) if isinstance(x, ast.Call) and (dotted(x.func) or "").split(".")[-1] in ("reset_connection", "appendleft", "append", "_disconnect")]
        catches_os = any(t.split(".")[-1] in ("OSError", "Exception", "BaseException") for t in h.meta["types"])
        ctx.check(not bad and not catches_os, R, "_drain_message_queue:encode-error-skips", m, h.ast, "an unencodable message is dropped without reset and without re-queue, and the handler does not swallow write errors", (f"calls {dotted(bad[0].func)}" if bad else "") + (" catches OSError/Exception too" if catches_os else ""))
    for h in osr:
        rs = [n.id for n in _reset_nodes(dr)]
        ok = bool(rs) and g.all_paths_pass(h.id, [g.exit.id], rs, NONEXC)
        ctx.check(ok, R, "_drain_message_queue:write-error-resets", m, h.ast, "every normal path through the OSError handler awaits reset_connection()", "a path skips the reset")
    if not osr:
        ctx.violation(R, "_drain_message_queue:write-error-resets", m, dr.node, "write errors reset the connection", "no OSError handler")
    # order of handlers: the encode handler must not shadow OSError (ValueError is not an OSError ancestor) - informational
    # connected guard
    ts = dr.tests(lambda e: dotted(e) == "self.is_connected")
    wr = [n for n, c in dr.calls("self._write")]
    ok = bool(ts) and all(any(g.dominates(dr.branch(t, "true").id, w.id) for t in ts) for w in wr)
    ctx.check(ok, R, "_drain_message_queue:only-when-connected", m, dr.node, "nothing is written unless is_connected", "write reachable while disconnected")


# ------------------------------------------------------------------------------------------ R7
def check_notify_isolation(ctx, R, modname, qual):
    """Two sound idioms for running the subscriber callbacks:
    (A) `for cb in callbacks: try: await cb except Exception: log` - each awaited inside its own catch-all, in the loop;
    (B) `await asyncio.gather(*callbacks, return_exceptions=True)` - every callback runs to its end whatever the others do,
        nothing a callback raises propagates, and cancelling the notifier cancels the callbacks still running.
    Refuted: a re-raise / loop exit in the handler, gather without return_exceptions=True (the first failure aborts the caller),
    an await of a callback outside the protection, and callbacks turned into tasks that outlive a cancelled notifier
    (as_completed / create_task / ensure_future / asyncio.wait without cancelling them)."""
    f = fn_of(ctx, modname, qual)
    m = f.module
    lab = f"{modname.split('.', 1)[1]}.{qual}"
    loops = [n for n in ast.walk(f.node) if isinstance(n, (ast.For, ast.AsyncFor))]
    ok = False
    found = "neither `for ...: try: await ... except Exception` nor `await asyncio.gather(..., return_exceptions=True)`"
    protected = set()
    for lp in loops:
        for st in lp.body:
            if isinstance(st, ast.Try):
                aw = [x for s_ in st.body for x in ast.walk(s_) if isinstance(x, ast.Await)]
                catch = [h for h in st.handlers if h.type is None or (dotted(h.type) or "").split(".")[-1] in ("Exception", "BaseException")]
                reraises = any(isinstance(x, ast.Raise) for h in st.handlers for s_ in h.body for x in ast.walk(s_))
                exits = any(isinstance(x, (ast.Return, ast.Break)) for h in st.handlers for s_ in h.body for x in ast.walk(s_))
                if aw and catch and not reraises and not exits:
                    ok = True
                    protected |= {id(x) for x in aw}
                elif aw:
                    found = "handler types: " + ", ".join(unparse(h.type) if h.type is not None else "bare" for h in st.handlers) + ("; re-raises" if reraises else "") + ("; leaves the loop" if exits else "")
    gathers = [x for x in walk_no_nested(f.node) if isinstance(x, ast.Await) and isinstance(x.value, ast.Call) and (ctx.repo.qual(m, x.value.func) or dotted(x.value.func) or "") == "asyncio.gather"]
    for gx in gathers:
        re_ = next((k.value for k in gx.value.keywords if k.arg == "return_exceptions"), None)
        if isinstance(re_, ast.Constant) and re_.value is True:
            ok = True
            protected.add(id(gx))
        else:
            ok = False
            found = "asyncio.gather without return_exceptions=True: the first failing subscriber aborts the caller and hides the others' results"
            break
    if gathers and ok:
        # what gather() collected is only looked at (logged): raising a collected result - a subscriber's exception or its
        # CancelledError - out of the notifier aborts the caller's loop over the remaining entities of the frame
        rr = [x for x in walk_no_nested(f.node) if isinstance(x, ast.Raise)]
        if rr:
            ok = False
            found = f"`{norm_text(rr[0])[:50]}` (line {rr[0].lineno}) raises a collected result out of the notifier"
    stray = [x for x in walk_no_nested(f.node) if isinstance(x, ast.Await) and id(x) not in protected]
    ctx.check(ok and not stray, R, f"{lab}:isolation", m, f.node, "each callback is awaited inside its own try/except Exception within the loop, or all of them through asyncio.gather(..., return_exceptions=True): a failing subscriber neither stops the others nor the caller", found if not ok else (f"await outside the protection at line {stray[0].lineno}" if stray else ""))
    # the callbacks do not outlive a cancelled notifier
    detached = [x for x in walk_no_nested(f.node) if isinstance(x, ast.Call) and ((ctx.repo.qual(m, x.func) or dotted(x.func) or "").split(".")[-1] in ("as_completed", "create_task", "ensure_future", "wait", "run_coroutine_threadsafe", "TaskGroup"))]
    cancels = any(isinstance(x, ast.Call) and isinstance(x.func, ast.Attribute) and x.func.attr == "cancel" for x in ast.walk(f.node))
    ctx.check(not detached or cancels, R, f"{lab}:callbacks-end-with-the-notifier", m, (detached[0] if detached else f.node), "the callbacks are awaited directly or through gather(), so cancelling the notifying task (close() cancels the read loop) also ends the callbacks that are still running", f"`{norm_text(detached[0])[:60]}` wraps the callbacks in tasks of their own that keep running - and acting on the client - after the notifier was cancelled" if detached else "")


def r7(ctx):
    check_notify_isolation(ctx, "C07.R7", SOCKET, f"{SOCK_CLS}._notify_subscribers")
    check_notify_isolation(ctx, "C07.R7", AT4_API, "_notify_subscribers")
    check_notify_isolation(ctx, "C07.R7", AT5_API, "_notify_subscribers")


# ------------------------------------------------------------------------------------------ R8
def r8(ctx):
    R = "C07.R8"
    m = ctx.repo.module(SOCKET)
    oc = package_calls(ctx.repo, lambda d: d.endswith("open_connection"))
    bad = [(mm, q) for mm, q, c in oc if not (mm.name == SOCKET and q == f"{SOCK_CLS}._connect")]
    ctx.check(bool(oc) and not bad, R, "who-may-call:open_connection", m, None, "only AirTouchSocket._connect opens connections", "; ".join(f"{mm.relpath}:{q}" for mm, q in bad) or "no call")
    for attr in ("_reader", "_writer"):
        bad = []
        count = 0
        for mm in ctx.repo.modules.values():
            for qual, fnode in iter_functions(mm):
                for n in walk_no_nested(fnode):
                    tg = []
                    if isinstance(n, ast.Assign):
                        for t in n.targets:
                            tg += list(t.elts) if isinstance(t, (ast.Tuple, ast.List)) else [t]
                    elif isinstance(n, (ast.AnnAssign, ast.AugAssign)):
                        tg = [n.target]
                    for t in tg:
                        if isinstance(t, ast.Attribute) and t.attr == attr and isinstance(t.value, ast.Name) and t.value.id == "self" and mm.name == SOCKET:
                            count += 1
                            if qual not in (f"{SOCK_CLS}._connect", f"{SOCK_CLS}._disconnect", f"{SOCK_CLS}.__init__"):
                                bad.append(qual)
        ctx.check(count >= 3 and not bad, R, f"who-may-write:self.{attr}", m, None, f"self.{attr} assigned only in __init__, _connect, _disconnect", ", ".join(bad) or f"{count} assignments")


# ------------------------------------------------------------------------------------------ R9
_COHERENT = frozenset({("T", "S"), ("F", "N")})


def _pair_text(st):
    return ", ".join(f"(is_connected={'True' if c == 'T' else 'False'}, writer {'stored' if w == 'S' else 'None'})" for c, w in sorted(st))


class _ConnState:
    """Forward dataflow over one method: abstract state = set of (is_connected, writer) pairs.  Other tasks run only at
    suspension points and are assumed to keep the invariant (induction over the methods of the class), so after an await the
    state is any coherent pair; between awaits only this method's own assignments change it."""

    def __init__(self, ctx, module, cls_name):
        self.ctx, self.m, self.cls = ctx, module, cls_name
        self.ci = module.get_class(cls_name)
        self._summ = {}
        self.violations = []  # (qual, node, state, kind)
        self.points = 0

    def fn(self, name):
        return Fn(self.ctx.repo, self.m, f"{self.cls}.{name}", self.ctx.effects)

    def _assign_effect(self, a, st):
        pairs = []
        if isinstance(a, ast.Assign):
            from ..q import _pairs
            for t in a.targets:
                pairs += list(_pairs(t, a.value))
        elif isinstance(a, ast.AnnAssign) and a.value is not None:
            pairs = [(a.target, a.value)]
        elif isinstance(a, ast.AugAssign):
            pairs = [(a.target, ast.IfExp(test=ast.Constant(value=True), body=a.value, orelse=a.value))]
        for t, v in pairs:
            d = dotted(t)
            if d == "self.is_connected":
                if isinstance(v, ast.Constant) and isinstance(v.value, bool):
                    st = frozenset({("T" if v.value else "F", w) for _, w in st})
                else:
                    st = frozenset({(c, w) for _, w in st for c in "TF"})
            elif d == "self._writer":
                if isinstance(v, ast.Constant) and v.value is None:
                    st = frozenset({(c, "N") for c, _ in st})
                elif isinstance(v, (ast.IfExp, ast.BoolOp)):
                    st = frozenset({(c, w) for c, _ in st for w in "SN"})
                else:
                    st = frozenset({(c, "S") for c, _ in st})
        return st

    def _refine(self, test, truth, st):
        d = dotted(test)
        if d == "self.is_connected":
            return frozenset(p for p in st if (p[0] == "T") == truth)
        if d == "self._writer":
            return frozenset(p for p in st if (p[1] == "S") == truth)
        if isinstance(test, ast.Compare) and len(test.ops) == 1 and dotted(test.left) == "self._writer" and isinstance(test.comparators[0], ast.Constant) and test.comparators[0].value is None:
            if isinstance(test.ops[0], (ast.Is, ast.Eq)):
                return frozenset(p for p in st if (p[1] == "N") == truth)
            if isinstance(test.ops[0], (ast.IsNot, ast.NotEq)):
                return frozenset(p for p in st if (p[1] == "S") == truth)
        return st

    def _sync_self_calls(self, node):
        out = []
        a = node.ast
        if a is None or node.kind in ("branch", "join", "handler") or "defn" in node.meta:
            return out
        probe = a
        if node.kind == "for":
            probe = a.iter
        elif node.kind in ("with_enter",):
            probe = ast.Tuple(elts=[i.context_expr for i in a.items], ctx=ast.Load())
        elif node.kind == "match":
            probe = a.subject
        elif node.kind == "case":
            probe = a.guard
        if probe is None:
            return out
        awaited = {id(x.value) for x in walk_no_nested(probe) if isinstance(x, ast.Await)}
        for x in walk_no_nested(probe):
            if isinstance(x, ast.Call) and isinstance(x.func, ast.Attribute) and isinstance(x.func.value, ast.Name) and x.func.value.id == "self" and x.func.attr in self.ci.methods:
                fnode = self.ci.methods[x.func.attr]
                if isinstance(fnode, ast.FunctionDef) and id(x) not in awaited:
                    out.append(x.func.attr)
        return out

    def summary(self, name, stack=()):
        """pair -> set of pairs at the normal exit of a synchronous method"""
        if name in self._summ:
            return self._summ[name]
        if name in stack:
            return {p: frozenset({p}) for p in (("T", "S"), ("T", "N"), ("F", "S"), ("F", "N"))}
        res = {}
        for p in (("T", "S"), ("T", "N"), ("F", "S"), ("F", "N")):
            res[p] = self.run(name, frozenset({p}), record=False, stack=stack + (name,))
        self._summ[name] = res
        return res

    def run(self, name, entry, record=True, stack=()):
        f = self.fn(name)
        g = f.cfg
        IN = {n.id: frozenset() for n in g.nodes}
        IN[g.entry.id] = entry
        work = [g.entry.id]
        while work:
            nid = work.pop()
            n = g.nodes[nid]
            st = IN[nid]
            mid = st
            if n.awaits:
                mid = _COHERENT  # other tasks have run; they keep the invariant
            out = mid
            for callee in self._sync_self_calls(n):
                sm = self.summary(callee, stack)
                out = frozenset(q for p in out for q in sm[p])
            mid = mid | out  # an exception leaves the statement before its own stores happen (the right-hand side is evaluated first)
            if n.kind == "stmt" and n.ast is not None and "defn" not in n.meta:
                out = self._assign_effect(n.ast, out)
            if n.kind == "branch":
                out = self._refine(n.ast, n.label == "true", out)
            for lbl, s in n.succ:
                prop = mid if lbl == "exc" else out
                if not prop <= IN[s]:
                    IN[s] = IN[s] | prop
                    work.append(s)
        if record:
            for n in g.nodes:
                if n.awaits and IN[n.id]:
                    self.points += 1
                    bad = IN[n.id] - _COHERENT
                    if bad:
                        self.violations.append((f, n, bad, "suspends"))
            for ex, what in ((g.exit, "returns"), (g.raise_exit, "raises")):
                if IN[ex.id]:
                    self.points += 1
                    bad = IN[ex.id] - _COHERENT
                    if bad:
                        self.violations.append((f, ex, bad, what))
        return IN[g.exit.id]


def r9(ctx, rule="C07.R9"):
    R = rule
    m = ctx.repo.module(SOCKET)
    ci = m.get_class(SOCK_CLS)
    an = _ConnState(ctx, m, SOCK_CLS)
    writers = 0
    for name, fnode in ci.methods.items():
        if name == "__init__":
            continue
        if any(isinstance(x, ast.Attribute) and x.attr in ("is_connected", "_writer") and isinstance(x.ctx, ast.Store) for x in ast.walk(fnode)):
            writers += 1
        an.run(name, _COHERENT)
    ctx.require(writers >= 2, "socket: fewer than two methods assign is_connected/_writer (C07.R9 has nothing to analyse)")
    # __init__ establishes the invariant
    init = an.run("__init__", frozenset({("F", "N")}), record=False) if "__init__" in ci.methods else frozenset()
    ctx.check(bool(init) and init <= _COHERENT, R, "coherence:__init__", m, ci.methods.get("__init__"), "a new socket is not connected and holds no writer", _pair_text(init))
    by = {"connected-implies-writer": [], "writer-implies-connected": []}
    for f, n, bad, what in an.violations:
        for c, w in bad:
            by["connected-implies-writer" if (c, w) == ("T", "N") else "writer-implies-connected"].append((f, n, what))
    exp = {
        "connected-implies-writer": "whenever another task can run (at every await and after every return) is_connected is True only while a writer is stored - otherwise a send in that window pops its message, finds no stream and drops it",
        "writer-implies-connected": "whenever another task can run (at every await and after every return) a stored writer means is_connected is True - otherwise a connect attempt passes the `is_connected` guard while the old stream is still held, and one of the two connections is orphaned",
    }
    for k, lst in by.items():
        if lst:
            for f, n, what in lst[:3]:
                at = n.ast if n.ast is not None else f.node
                ctx.violation(R, f"coherence:{k}", m, at, exp[k], f"{f.qual} {what} at line {getattr(at, 'lineno', '?')} in a state where this does not hold")
        else:
            ctx.check(True, R, f"coherence:{k}", m, None, exp[k], "")
    ctx.check(an.points >= 10, R, "coherence:suspension-points-analysed", m, None, "every await and exit of every socket method was evaluated", f"{an.points} points")


# ------------------------------------------------------------------------------------------ R11
def r11(ctx, R="C07.R11"):
    """The scheduling primitive itself: _schedule(coro, delay) starts a task that runs exactly `coro` (after exactly `delay`
    seconds when a delay is given), and keeps the task in _background_tasks until it is done - every reconnect, retry and
    read loop goes through it, and close() can only cancel what is tracked there."""
    sc = sock_fn(ctx, "_schedule")
    m, g = sc.module, sc.cfg
    params = sc.params[1:]
    ctx.require(len(params) >= 1, "socket._schedule: no coroutine parameter")
    pc = params[0]
    pd = params[1] if len(params) > 1 else None
    creates = sc.calls_pred(lambda d: d.endswith("create_task") or d.endswith("ensure_future"))
    ok = len(creates) == 1 and g.all_paths_pass(g.entry.id, [g.exit.id], [creates[0][0].id], NONEXC)
    ctx.check(ok, R, "_schedule:creates-one-task", m, sc.node, "every call creates exactly one task", f"{len(creates)} create_task calls" if len(creates) != 1 else "a path creates no task")
    if len(creates) != 1:
        return
    cn, cc = creates[0]
    arg = cc.args[0] if cc.args else None
    # what the task runs, per guarded path through the body (locals substituted): the coroutine parameter itself, or
    # _delay(<that coroutine>, <the delay parameter>) exactly on the paths where the delay is truthy
    from ..q import block_paths, subst_env
    from ..minieval import Mini, Unsupported

    body = [st for st in sc.node.body if not (isinstance(st, ast.Expr) and isinstance(st.value, ast.Constant))]
    idx = next((k for k, st in enumerate(body) if any(x is cc for x in ast.walk(st))), None)
    ctx.require(idx is not None and arg is not None, "socket._schedule: create_task is not a top-level statement of the body")
    shapes, rows = [], []
    ok_delay = True
    for lits, env, end in block_paths(body[:idx]):
        if end != "fall":
            continue
        e = subst_env(arg, env)
        alts = [(e, None)]
        if isinstance(e, ast.IfExp):
            alts = [(e.body, (e.test, True)), (e.orelse, (e.test, False))]
        for val, extra in alts:
            kind = "other:" + norm_text(val)[:60]
            if isinstance(val, ast.Name) and val.id == pc:
                kind = "param"
            elif isinstance(val, ast.Call):
                q_ = (ctx.repo.qual(m, val.func) or dotted(val.func) or "").split(".")[-1]
                fn_delay = m.functions.get(q_)
                if fn_delay is not None and isinstance(fn_delay, ast.AsyncFunctionDef):
                    names = [a.arg for a in fn_delay.args.args]
                    bound = {names[k]: a for k, a in enumerate(val.args) if k < len(names)}
                    bound.update({k.arg: k.value for k in val.keywords if k.arg})
                    # by role: which parameter receives the coroutine, which the delay (whatever their order)
                    p_coro = next((k for k, v in bound.items() if isinstance(v, ast.Name) and v.id == pc), None)
                    p_del = next((k for k, v in bound.items() if isinstance(v, ast.Name) and v.id == pd), None)
                    if len(names) == 2 and p_coro is not None and p_del is not None and p_coro != p_del:
                        kind = "delayed"
                        _check_delay(ctx, R, m, fn_delay, [p_coro, p_del])
            shapes.append(kind)
            # under which delays is this path taken?  evaluate the path condition for the delays the package uses
            if pd is not None and kind in ("param", "delayed"):
                conds = [(ast.parse(t, mode="eval").body, pol) for t, pol in lits] + ([extra] if extra else [])
                for dv in (None, 0, 0.0, 0.5, 2.0, 30.0):
                    try:
                        taken = all(bool(Mini(ctx.repo, m, {}).ev(c_, {pd: dv})) == pol for c_, pol in conds)
                    except Unsupported as ex:
                        raise AnalysisError(f"{m.relpath}: _schedule: path condition outside the evaluable fragment: {ex}")
                    if taken:
                        rows.append((dv, kind))
                        if (kind == "delayed") != bool(dv):
                            ok_delay = False
    ok = bool(shapes) and set(shapes) <= {"param", "delayed"} and "param" in shapes
    ctx.check(ok, R, "_schedule:runs-the-given-coroutine", m, cc, "the task runs the coroutine passed in, wrapped in _delay(coro, delay) only when a delay was given", ", ".join(sorted(set(shapes))) or "no path reaches create_task")
    if pd is not None and "delayed" in shapes:
        seen = {repr(dv) for dv, _ in rows}
        ctx.check(ok_delay and len(seen) == 6, R, "_schedule:delay-only-when-given", m, sc.node, "the task is delayed exactly when a non-zero delay is given (None / 0 -> at once; 0.5, 2.0, 30.0 -> delayed)", ", ".join(f"delay={dv!r}: {'delayed' if k == 'delayed' else 'immediate'}" for dv, k in rows))
    # tracked: the created task is added to _background_tasks on every path, and removed by a done callback
    tv = cn.ast.targets[0].id if isinstance(cn.ast, ast.Assign) and isinstance(cn.ast.targets[0], ast.Name) else None
    adds = [n for n, c in sc.calls("self._background_tasks.add") if c.args and isinstance(c.args[0], ast.Name) and c.args[0].id == tv]
    ok = tv is not None and bool(adds) and g.all_paths_pass(cn.id, [g.exit.id], [a.id for a in adds], NONEXC)
    ctx.check(ok, R, "_schedule:task-is-tracked", m, sc.node, "the new task is added to self._background_tasks (close() cancels what is tracked there; an untracked task may also be garbage-collected while pending)", "the task is not added on every path")
    cbs = [c for n, c in sc.calls_pred(lambda d: d.endswith("add_done_callback"))]
    where = [sc.node]
    for c in cbs:
        a0 = c.args[0] if c.args else None
        if isinstance(a0, ast.Attribute) and isinstance(a0.value, ast.Name) and a0.value.id == "self" and sc.cls is not None and a0.attr in sc.cls.methods:
            where.append(sc.cls.methods[a0.attr])  # the callback is a method of the class
        elif isinstance(a0, ast.Name) and a0.id in m.functions:
            where.append(m.functions[a0.id])
    disc = any(isinstance(x, ast.Call) and (dotted(x.func) or "").endswith("_background_tasks.discard") for w_ in where for x in ast.walk(w_))
    ctx.check(bool(cbs) and disc, R, "_schedule:task-is-released", m, sc.node, "a done callback discards the finished task from _background_tasks", "no done callback / no discard")


def _check_delay(ctx, R, m, fn, names):
    f = Fn(ctx.repo, m, fn.name)
    g = f.cfg
    sleeps = [(n, c) for n, c in f.calls("asyncio.sleep") if n.awaits]
    ok = len(sleeps) == 1 and len(sleeps[0][1].args) == 1 and isinstance(sleeps[0][1].args[0], ast.Name) and sleeps[0][1].args[0].id == names[1] and not sleeps[0][1].keywords
    ctx.check(ok, R, "_delay:sleeps-for-the-delay", m, fn, f"awaits asyncio.sleep({names[1]}) once, with the delay as given", norm_text(sleeps[0][1]) if sleeps else "no sleep")
    runs = [n for n in g.nodes if n.awaits and any(isinstance(x, ast.Await) and isinstance(x.value, ast.Name) and x.value.id == names[0] for x in ast.walk(n.ast))]
    ok = bool(runs) and bool(sleeps) and g.all_paths_pass(g.entry.id, [g.exit.id], [r.id for r in runs], NONEXC) and all(g.dominates(sleeps[0][0].id, r.id) for r in runs)
    ctx.check(ok, R, "_delay:then-runs-the-coroutine", m, fn, f"after the sleep the wrapped coroutine `{names[0]}` is awaited on every path", "the coroutine is not awaited on every path after the sleep")
