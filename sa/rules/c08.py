"""C08 - heartbeat detects a dead link, and only a dead link (structural clauses)."""
from __future__ import annotations

import ast

from .. import idioms
from ..model import AnalysisError, dotted, norm_text, unparse, walk_no_nested
from ..q import NONEXC, Fn, flatten_add, package_calls
from .common import AT4_API, AT5_API, HEARTBEAT, SOCKET, fn_of, loop_time_call

LEVEL = "other"
EXPLANATION = (
    'Static analysis of comms/heartbeat.py and the heartbeat wiring of both api.py: R1 folded constants (interval 300.0, default timeout interval + 30.0 = '
    '330.0, not overridden by either API); R2 the unconditional heartbeat loop sleeps config.interval and sends the configured message under is_connected '
    'with the 1 s policy in every iteration; R3 deadline-loop idiom extraction: the deadline is armed with config.timeout at the top of every outer '
    'iteration, pushed to loop.time() + config.timeout after each response, the event is cleared, the TimeoutError handler resets under is_connected and '
    'the loop continues; R4 only a dead link: the handler is the only reset in the module, the event is set only under response_match, both matchers accept '
    'exactly ExtendedMessage carrying sub-id 0xFF30; R5 start() subscribes the response listener on every (re)start and stop() removes it, start() creates '
    'both loops and is awaited on every path that reaches the CONNECTED state in both generations. Arrival-time arithmetic is not decided. R6 the reset the '
    'watchdog asks for really ends in a new connection attempt (C07.R2 + C07.R3 re-evaluated).'
    ' Added later: R3 also demands that the monitoring loop waits (event, sleep, queue) only inside the armed asyncio.timeout - after a handled timeout the deadline is armed again at once.'
    ' Rounds 7-8: R2 also: the interval sleep and the send are handed to one awaited gather (requests are `interval` apart whatever a send takes); R4: more stand-in messages for the matcher (a zero-length echo has the same id); R5 also: only shutdown() stops the heartbeat manager and only _message_received starts it (who-may-call).'
    ' Rounds 9-10: R4 also: the response event is created per instance in __init__ (no shared class-level object); R9 (C05.R6 re-used): the console-version decoder refuses no version text.'
)
ASSUMPTIONS = ["asyncio.timeout(delay)/Timeout.reschedule(when) semantics as documented (delay None = no deadline)", "loop.time() is the clock asyncio.timeout uses"]
FLOORS = {"C08.R1": 5, "C08.R2": 4, "C08.R3": 7, "C08.R4": 5, "C08.R5": 5, "C08.R6": 1, "C08.R7": 1, "C08.R8": 1, "C08.R9": 1}


def run(ctx):
    r1(ctx)
    r2(ctx)
    r3(ctx)
    r4(ctx)
    r5(ctx)
    from . import c07
    from .common import reuse
    from . import c05 as _c05

    reuse(ctx, "C08.R9", [lambda c: _c05.console_version_refuses_nothing(c, "C05.R6")], "an answered heartbeat is recognised whatever version text it carries: the console-version decoder refuses nothing, so the answer reaches the matcher instead of resetting the link (C05.R6)")

    reuse(ctx, "C08.R6", [c07.r2, c07.r3], "a heartbeat reset really re-establishes the connection (C07.R2 reset = disconnect + reconnect and cannot raise, C07.R3 failed attempts are retried)")
    from . import c15

    reuse(ctx, "C08.R8", [c15.r3, c07.r6], "the heartbeat tasks survive: shutdown() stops them before the socket is closed (a tick during close() would raise in the task and leave its state behind for the next init()), and a failing write is handled inside the socket (OSError handler of the drain), so sending the periodic request cannot end the heartbeat task (C15.R3, C07.R6)",
          keep=lambda o: "heartbeat" in o.construct.lower() or "write-error" in o.construct or "_drain_message_queue" in o.construct or o.verdict != "HOLDS")
    from . import c01

    reuse(ctx, "C08.R7", [c01.r6], "framing the periodic request cannot fail: every packet id fits its header slot (a struct.error raised inside the heartbeat task ends the periodic request for good, after which a healthy link is reset every 330 s) (C01.R6)")


def r1(ctx):
    R = "C08.R1"
    m = ctx.repo.module(HEARTBEAT)
    iv = ctx.repo.try_fold(m, m.get_const_expr("DEFAULT_HEARTBEAT_INTERVAL"))
    ctx.check(iv == 300.0, R, "const:DEFAULT_HEARTBEAT_INTERVAL", m, m.assign_nodes["DEFAULT_HEARTBEAT_INTERVAL"], "300.0 s", repr(iv))
    cfg = m.get_class("HeartbeatConfig")
    d = {n: ctx.repo.try_fold(m, dv) for n, _, dv in cfg.fields if dv is not None}
    ctx.check(d.get("interval") == 300.0, R, "HeartbeatConfig.interval:default", m, cfg.node, "300.0", repr(d.get("interval")))
    ctx.check(d.get("timeout") == 330.0, R, "HeartbeatConfig.timeout:default", m, cfg.node, "interval + 30.0 = 330.0", repr(d.get("timeout")))
    for modname in (AT4_API, AT5_API):
        am = ctx.repo.module(modname)
        cons = [c for c in ast.walk(am.tree) if isinstance(c, ast.Call) and ctx.repo.qual(am, c.func) == f"{HEARTBEAT}.HeartbeatConfig"]
        ctx.require(cons, f"{am.relpath}: no HeartbeatConfig construction")
        for c in cons:
            names = [k.arg for k in c.keywords]
            ok = len(c.args) <= 2 and "interval" not in names and "timeout" not in names
            ctx.check(ok, R, f"{modname.split('.')[1]}:HeartbeatConfig(...)", am, c, "the API keeps the default interval/timeout", norm_text(c)[:120])


def r2(ctx):
    R = "C08.R2"
    hl = fn_of(ctx, HEARTBEAT, "HeartbeatManager._heartbeat_loop")
    m = hl.module
    loops = [s for s in hl.node.body if isinstance(s, ast.While)]
    ok = len(loops) == 1 and isinstance(loops[0].test, ast.Constant) and loops[0].test.value is True and not any(isinstance(x, (ast.Break, ast.Return)) for x in ast.walk(loops[0]))
    ctx.check(ok, R, "_heartbeat_loop:unconditional", m, hl.node, "`while True` without break/return (runs until cancelled)", "loop can end")
    sleeps = hl.calls("asyncio.sleep")
    sends = hl.calls("self._send_heartbeat_message")
    s_ok = bool(sleeps) and all(hl.expand_text(c.args[0], n) == "self._config.interval" for n, c in sleeps if c.args) and all(c.args for _, c in sleeps)
    ctx.check(s_ok, R, "_heartbeat_loop:period", m, (sleeps[0][1] if sleeps else hl.node), "each iteration sleeps self._config.interval", ", ".join(norm_text(c) for _, c in sleeps) or "no sleep")
    in_loop = loops and all(any(x is c for x in ast.walk(loops[0])) for _, c in sleeps + sends)
    def _reaches_await(n):
        # awaited where it is created, or held in a local that an awaited expression of the loop (e.g. gather(a, b)) consumes
        if n.awaits:
            return True
        if isinstance(n.ast, ast.Assign) and len(n.ast.targets) == 1 and isinstance(n.ast.targets[0], ast.Name) and loops:
            v = n.ast.targets[0].id
            uses = [x for x in hl.cfg.nodes if x.awaits and x.ast is not None and any(y is x.ast for y in ast.walk(loops[0])) and any(isinstance(z, ast.Name) and z.id == v and isinstance(z.ctx, ast.Load) for z in ast.walk(x.ast))]
            return any(hl.cfg.dominates(n.id, u.id) for u in uses)
        return False

    awaited = all(_reaches_await(n) for n, _ in sleeps + sends)
    ctx.check(bool(sends) and in_loop and awaited, R, "_heartbeat_loop:sends-every-iteration", m, hl.node, "each iteration awaits the sleep and _send_heartbeat_message()", "send or sleep missing from the loop body / not awaited")
    # the period is the interval itself: the sleep runs concurrently with the send (both handed to one gather / wait), so the
    # time a send spends in a slow drain() is not added to every period (a coroutine object does not start before it is awaited)
    conc = False
    for n, c in hl.calls_pred(lambda d: d in ("asyncio.gather", "asyncio.wait")):
        if not n.awaits:
            continue
        texts = []
        for a_ in c.args:
            e_ = hl.expand(a_, n)
            texts += [norm_text(x) for x in ast.walk(e_) if isinstance(x, ast.Call)]
        if any(t.startswith("asyncio.sleep(") for t in texts) and any(t.startswith("self._send_heartbeat_message(") for t in texts):
            conc = True
    ctx.check(conc, R, "_heartbeat_loop:sleep-and-send-concurrent", m, hl.node, "one awaited asyncio.gather(...) runs the interval sleep and the send together: requests are `interval` apart", "the sleep and the send are awaited one after the other: every period is lengthened by the time the send takes (a 40 s drain makes a 300 s interval 340 s, beyond the 330 s deadline)")
    sh = fn_of(ctx, HEARTBEAT, "HeartbeatManager._send_heartbeat_message")
    snd = sh.calls("self._socket.send")
    ts = sh.tests(lambda e: dotted(e) == "self._socket.is_connected")
    ok = bool(snd) and bool(ts) and all(sh.cfg.dominates(sh.branch(t, "true").id, n.id) for t in ts for n, _ in snd)
    ctx.check(ok, R, "_send_heartbeat_message:only-when-connected", m, sh.node, "the heartbeat is sent only while the socket is connected", "unguarded send")
    for n, c in snd:
        msg = next((k.value for k in c.keywords if k.arg == "message"), c.args[0] if c.args else None)
        ctx.check(msg is not None and sh.expand_text(msg, n) == "self._config.message", R, "_send_heartbeat_message:message", m, c, "sends self._config.message", unparse(msg) if msg is not None else "missing")


def check_deadline_loop(ctx, R, fn: Fn, label: str, t_expected_text=None, t_expected_value=None):
    """Common part of C08.R3 / C14.R3. Returns the extracted loop."""
    m = fn.module
    dl = idioms.extract(fn)
    ctx.check(not dl.problems, R, f"{label}:shape", m, fn.node, "while True / try / async with asyncio.timeout(T0) as t / while True: wait, reschedule, clear / except TimeoutError", "; ".join(dl.problems))
    if dl.with_stmt is None or dl.inner is None:
        return dl

    def t_ok(expr, at):
        if expr is None:
            return False, "missing"
        txt = fn.expand_text(expr, at)
        val = ctx.repo.try_fold(m, fn.expand(expr, at), default="?")
        if t_expected_text is not None:
            return txt == t_expected_text, txt
        return val == t_expected_value, f"{txt} = {val!r}"

    wnode = next((n for n in fn.cfg.nodes if n.kind == "with_enter" and n.ast is dl.with_stmt), None)
    ok, found = t_ok(dl.t0, wnode)
    exp = t_expected_text or repr(t_expected_value)
    ctx.check(ok, R, f"{label}:armed-on-entry", m, dl.timeout_call, f"asyncio.timeout({exp}): the deadline runs from the start of monitoring and is re-armed after every timeout", f"asyncio.timeout({found})" + (" - a None delay never fires until the first response arrives" if found.startswith("None") else ""))
    # reschedule
    if dl.reschedule is None:
        ctx.violation(R, f"{label}:reschedule", m, dl.inner, f"after each response: t.reschedule(loop.time() + {exp})", "no reschedule call on the timeout object")
    else:
        rn = next(n for n, c in fn.calls(f"{dl.tvar}.reschedule") if c is dl.reschedule)
        arg = dl.reschedule.args[0] if dl.reschedule.args else None
        e = fn.expand(arg, rn) if arg is not None else None
        terms = flatten_add(e) if e is not None else []
        nows = [t for t in terms if loop_time_call(t)]
        rest = [t for t in terms if not loop_time_call(t)]
        ok = len(terms) == 2 and len(nows) == 1 and len(rest) == 1
        found = norm_text(e) if e is not None else "no argument"
        if ok:
            ok, f2 = t_ok(rest[0], rn)
            found = f"loop.time() + {f2}"
        ctx.check(ok, R, f"{label}:reschedule", m, dl.reschedule, f"t.reschedule(loop.time() + {exp}): the deadline is counted from the response just received", found)
    # order wait -> reschedule -> clear inside one iteration
    body = dl.inner.body
    iw = idioms.stmt_index(body, dl.wait) if dl.wait is not None else -1
    ir = idioms.stmt_index(body, dl.reschedule) if dl.reschedule is not None else -1
    ic = idioms.stmt_index(body, dl.clear) if dl.clear is not None else -1
    ok = 0 <= iw < ir and ic > iw
    ctx.check(ok, R, f"{label}:wait-reschedule-clear", m, dl.inner, "each inner iteration: await event.wait(); reschedule; event.clear() (same event)", f"wait@{iw} reschedule@{ir} clear@{ic} (-1 = missing)")
    if ok:
        extra_awaits = [s for s in body[iw + 1:] if any(isinstance(x, ast.Await) for x in ast.walk(s))]
        ctx.check(not extra_awaits, R, f"{label}:no-await-after-wait", m, dl.inner, "no suspension between receiving the response and clearing the event (a response arriving meanwhile would be lost)", f"await at line {extra_awaits[0].lineno}" if extra_awaits else "")
    # every open-ended wait of the monitoring loop runs under the armed deadline (also after a timeout was handled)
    inside = {id(x) for s in dl.with_stmt.body for x in ast.walk(s)}
    waiting = ("wait", "sleep", "wait_for", "get", "join", "acquire", "gather")
    loose = []
    for x in walk_no_nested(dl.outer if dl.outer is not None else fn.node):
        if isinstance(x, ast.Await) and id(x) not in inside and isinstance(x.value, ast.Call):
            d = dotted(x.value.func) or unparse(x.value.func)
            if d.split(".")[-1] in waiting:
                loose.append(x)
    ctx.check(not loose, R, f"{label}:every-wait-under-deadline", m, (loose[0] if loose else dl.with_stmt), "the loop waits (event, sleep, queue) only inside `async with asyncio.timeout(...)`: after a timeout was handled the deadline is armed again at once, without waiting for a first response",
              "; ".join(f"`{norm_text(x)}` at line {x.lineno} waits with no deadline armed - a console that stays silent is never noticed again" for x in loose))
    return dl


def r3(ctx):
    R = "C08.R3"
    tl = fn_of(ctx, HEARTBEAT, "HeartbeatManager._heartbeat_timeout_loop")
    m = tl.module
    dl = check_deadline_loop(ctx, R, tl, "_heartbeat_timeout_loop", t_expected_text="self._config.timeout")
    ctx.check(dl.event == "self._response_received", R, "_heartbeat_timeout_loop:event", m, tl.node, "waits on self._response_received", str(dl.event))
    if dl.handler is not None:
        resets = [x for s in dl.handler.body for x in ast.walk(s) if isinstance(x, ast.Await) and isinstance(x.value, ast.Call) and dotted(x.value.func) == "self._socket.reset_connection"]
        ctx.check(bool(resets), R, "_heartbeat_timeout_loop:timeout-resets", m, dl.handler, "the TimeoutError handler awaits self._socket.reset_connection()", "no reset in the handler")
        rn = [n for n, c in tl.calls("self._socket.reset_connection")]
        ts = tl.tests(lambda e: dotted(e) == "self._socket.is_connected")
        ok = bool(rn) and bool(ts) and all(tl.cfg.dominates(tl.branch(t, "true").id, n.id) for t in ts for n in rn)
        ctx.check(ok, R, "_heartbeat_timeout_loop:reset-only-when-connected", m, dl.handler, "the reset happens under `self._socket.is_connected` (a link that is already down is being re-established by the socket)", "unguarded reset")
        only = all(isinstance(s, (ast.If, ast.Expr)) for s in dl.handler.body)
        ctx.check(only, R, "_heartbeat_timeout_loop:handler-continues", m, dl.handler, "the handler falls through so that the outer loop re-arms the deadline", "handler leaves the loop")


def r4(ctx):
    R = "C08.R4"
    m = ctx.repo.module(HEARTBEAT)
    resets = package_calls(ctx.repo, lambda d: d.endswith("reset_connection"))
    hb = [(mm, q, c) for mm, q, c in resets if mm.name == HEARTBEAT]
    ok = len(hb) == 1 and hb[0][1] == "HeartbeatManager._heartbeat_timeout_loop"
    ctx.check(ok, R, "heartbeat:only-reset-site", m, (hb[0][2] if hb else None), "the timeout handler is the only reset_connection() in heartbeat.py", ", ".join(q for _, q, _ in hb))
    api_resets = [(mm, q) for mm, q, c in resets if mm.name in (AT4_API, AT5_API)]
    ctx.check(not api_resets, R, "api:no-reset", m, None, "the API layers never reset the connection themselves", ", ".join(f"{mm.relpath}:{q}" for mm, q in api_resets))
    sets = package_calls(ctx.repo, lambda d: d.endswith("_response_received.set"))
    mr = fn_of(ctx, HEARTBEAT, "HeartbeatManager._message_received")
    sn = [n for n, c in mr.calls("self._response_received.set")]
    ts = mr.tests(lambda e: isinstance(e, ast.Call) and dotted(e.func) == "self._config.response_match" and len(e.args) == 1 and isinstance(e.args[0], ast.Name) and mr.is_param(e.args[0].id, mr.cfg.entry) )
    ts = mr.tests(lambda e: isinstance(e, ast.Call) and dotted(e.func) == "self._config.response_match")
    ok = len(sets) == len(sn) == 1 and bool(ts) and all(mr.cfg.dominates(mr.branch(t, "true").id, n.id) for t in ts for n in sn)
    ctx.check(ok, R, "_message_received:set-only-on-match", m, mr.node, "the response event is set only under self._config.response_match(message), nowhere else", f"{len(sets)} set() sites; guarded={ok}")
    # the event belongs to ONE manager: it is created per instance in __init__.  An object created in the class body is shared by
    # every HeartbeatManager of the process, so the responses of one console re-arm the deadline of another, silent, link.
    hci = m.get_class("HeartbeatManager")
    ctx.require(hci is not None and "__init__" in hci.methods, f"{m.relpath}: HeartbeatManager.__init__ vanished")
    per_inst = [a_ for a_ in ast.walk(hci.methods["__init__"]) if isinstance(a_, (ast.Assign, ast.AnnAssign)) and dotted(a_.targets[0] if isinstance(a_, ast.Assign) else a_.target) == "self._response_received" and isinstance(a_.value, ast.Call) and ctx.repo.qual(m, a_.value.func) == "asyncio.Event"]
    shared = [st for st in hci.node.body if isinstance(st, (ast.Assign, ast.AnnAssign)) and getattr(st, "value", None) is not None and isinstance(st.value, ast.Call) and not (dotted(st.value.func) or "").split(".")[-1] in ("TypeVar", "field", "getLogger")]
    ctx.check(bool(per_inst) and not shared, R, "HeartbeatManager:state-is-per-instance", m, (shared[0] if shared else hci.methods["__init__"]), "the response event is created in __init__ (one per manager); the class body creates no shared object", (f"class-level object `{norm_text(shared[0])[:70]}` is shared by every manager" if shared else "no `self._response_received = asyncio.Event()` in __init__"))
    for t in ts:
        a = t.ast.args[0] if t.ast.args else None
        ctx.check(isinstance(a, ast.Name) and a.id in mr.params[1:] and a.id == mr.params[-1], R, "_message_received:matches-the-message", m, t.ast, "the matcher is applied to the received message", unparse(a) if a is not None else "")
    # matchers
    for modname, clsname in ((AT4_API, "AirTouch4"), (AT5_API, "AirTouch5")):
        am = ctx.repo.module(modname)
        init = am.get_class(clsname).methods.get("__init__")
        ctx.require(init is not None, f"{am.relpath}: {clsname}.__init__ vanished")
        cons = [c for c in ast.walk(init) if isinstance(c, ast.Call) and ctx.repo.qual(am, c.func) == f"{HEARTBEAT}.HeartbeatConfig"]
        ctx.require(cons, f"{am.relpath}: no HeartbeatConfig in {clsname}.__init__")
        rm = next((k.value for k in cons[0].keywords if k.arg == "response_match"), cons[0].args[1] if len(cons[0].args) > 1 else None)
        # the matcher: a function nested in __init__ or defined at module level, whatever its name
        matcher = None
        if isinstance(rm, ast.Name):
            matcher = next((x for x in ast.walk(init) if isinstance(x, ast.FunctionDef) and x.name == rm.id), None) or (am.functions.get(rm.id) if isinstance(am.functions.get(rm.id), ast.FunctionDef) else None)
        ctx.check(matcher is not None, R, f"{clsname}:response_match", am, cons[0], "response_match is a plain function of this module (nested in __init__ or module level) that the rule can read", unparse(rm) if rm is not None else "missing")
        if matcher is None:
            continue
        ok, found = _matcher_ok(ctx, am, matcher)
        ctx.check(ok, R, f"{clsname}.is_heartbeat_response", am, matcher, "True exactly for isinstance(message, ExtendedMessage) with sub_message.message_id == console version id 0xFF30", found)
        msg = next((k.value for k in cons[0].keywords if k.arg == "message"), cons[0].args[0] if cons[0].args else None)
        if isinstance(msg, ast.Name):
            # an explaining local of __init__ bound once to the message
            defs_ = [a_ for a_ in ast.walk(init) if isinstance(a_, ast.Assign) and len(a_.targets) == 1 and isinstance(a_.targets[0], ast.Name) and a_.targets[0].id == msg.id]
            if len(defs_) == 1:
                msg = defs_[0].value
        names = [ctx.repo.resolve_class(am, c.func).name for c in ast.walk(msg) if isinstance(c, ast.Call) and ctx.repo.resolve_class(am, c.func) is not None] if msg is not None else []
        ctx.check(names == ["ExtendedMessage", "ConsoleVersionRequest"], R, f"{clsname}:heartbeat-message", am, cons[0], "heartbeat message = ExtendedMessage(ConsoleVersionRequest())", "/".join(names))


def _matcher_ok(ctx, am, fn):
    """Truth table of the matcher (evaluated by sa/minieval.py on stand-in messages): True exactly for an ExtendedMessage
    whose sub-message id is the console-version id 0xFF30; a message of another class must be rejected without touching
    attributes it does not have."""
    from ..minieval import FakeObj, Mini, Unsupported

    p = fn.args.args[0].arg if fn.args.args else None
    if p is None:
        return False, "matcher takes no message"
    cases = [
        ("ExtendedMessage(sub id 0xFF30)", FakeObj("ExtendedMessage", message_id=0x1F, sub_message=FakeObj("ConsoleVersionMessage", message_id=0xFF30)), True),
        ("ExtendedMessage(sub id 0xFF30, zero-length echo decoded as ConsoleVersionRequest)", FakeObj("ExtendedMessage", message_id=0x1F, sub_message=FakeObj("ConsoleVersionRequest", message_id=0xFF30)), True),
        ("ExtendedMessage(sub id 0xFF30, unsupported payload)", FakeObj("ExtendedMessage", message_id=0x1F, sub_message=FakeObj("UnsupportedMessage", message_id=0xFF30)), True),
        ("ExtendedMessage(sub id 0xFF10)", FakeObj("ExtendedMessage", message_id=0x1F, sub_message=FakeObj("AcErrorInformationMessage", message_id=0xFF10)), False),
        ("ExtendedMessage(sub id 0xFF11)", FakeObj("ExtendedMessage", message_id=0x1F, sub_message=FakeObj("AcAbilityMessage", message_id=0xFF11)), False),
        ("a status message with id 0x2D", FakeObj("AcStatusMessage", message_id=0x2D), False),
        ("a message of another class whose own id is 0xFF30", FakeObj("ConsoleVersionMessage", message_id=0xFF30), False),
    ]
    for desc, obj, want in cases:
        try:
            got = Mini(ctx.repo, am).function_value(fn, {p: obj})
        except Unsupported as ex:
            return False, f"{desc}: the matcher does not reject it cleanly ({ex})"
        if bool(got) is not want or isinstance(got, tuple):
            return False, f"{desc}: matcher gives {got!r}, expected {want}"
    return True, f"{len(cases)} stand-in messages evaluated"

def r5(ctx):
    R = "C08.R5"
    st = fn_of(ctx, HEARTBEAT, "HeartbeatManager.start")
    m = st.module
    # who may stop the monitor: only shutdown().  stop() cancels both heartbeat tasks - and the timeout task is the one that
    # runs reset_connection(); a connection subscriber (called from inside that reset) that stops the heartbeat cancels the reset
    # before the reconnect is scheduled, so the link is never re-established
    stops = package_calls(ctx.repo, lambda d: d.endswith("_heartbeat_manager.stop"))
    bad = [(mm, q) for mm, q, c in stops if q.split(".")[-1] != "shutdown"]
    bm = next((mm for mm, q, c in stops if q.split(".")[-1] != "shutdown"), m)
    ctx.check(bool(stops) and not bad, R, "who-may-call:heartbeat.stop", bm, (next((c for mm, q, c in stops if q.split(".")[-1] != "shutdown"), None)), "the heartbeat manager is stopped by shutdown() only (never from a connection or message callback, which may run inside the heartbeat's own reset)", ", ".join(f"{mm.relpath}:{q}" for mm, q in bad) or "no stop call")
    starts_ = package_calls(ctx.repo, lambda d: d.endswith("_heartbeat_manager.start"))
    bad = [(mm, q) for mm, q, c in starts_ if q.split(".")[-1] != "_message_received"]
    ctx.check(bool(starts_) and not bad, R, "who-may-call:heartbeat.start", m, None, "the heartbeat manager is started where the handshake reaches CONNECTED (_message_received) and nowhere else", ", ".join(f"{mm.relpath}:{q}" for mm, q in bad) or "no start call")
    created = []
    for n, c in st.calls("create_task"):
        for x in ast.walk(c):
            if isinstance(x, ast.Call) and (dotted(x.func) or "").startswith("self._heartbeat"):
                created.append(dotted(x.func))
    ctx.check(sorted(created) == ["self._heartbeat_loop", "self._heartbeat_timeout_loop"], R, "start:both-loops", m, st.node, "start() creates tasks for _heartbeat_loop() and _heartbeat_timeout_loop()", ", ".join(created))
    sp = fn_of(ctx, HEARTBEAT, "HeartbeatManager.stop")
    subs = [(n, c) for n, c in st.calls("self._socket.subscribe_on_message_received")]
    unsubs = [(n, c) for n, c in sp.calls("self._socket.unsubcribe_on_message_received") + sp.calls("self._socket.unsubscribe_on_message_received")]
    ok = len(subs) == 1 and subs[0][1].args and dotted(subs[0][1].args[0]) == "self._message_received" and st.cfg.all_paths_pass(st.cfg.entry.id, [st.cfg.exit.id], [subs[0][0].id] + [st.branch(t, "true").id for t in st.tests(lambda e: dotted(e) == "self._heartbeat_tasks")], NONEXC)
    ctx.check(ok, R, "start:subscribes-listener", m, st.node, "every (re)start subscribes self._message_received (stop() unsubscribes it, so a subscription made only once, e.g. in __init__, is lost after the first stop)", f"{len(subs)} subscribe call(s) in start()")
    init = m.get_class("HeartbeatManager").methods.get("__init__")
    elsewhere = [x for x in ast.walk(init) if isinstance(x, ast.Call) and (dotted(x.func) or "").endswith("subscribe_on_message_received")] if init else []
    ctx.check(bool(unsubs) or not subs, R, "stop:unsubscribes-listener", m, sp.node, "stop() removes the listener that start() added", "no unsubscribe in stop()")
    for modname, clsname in ((AT4_API, "AirTouch4"), (AT5_API, "AirTouch5")):
        mr = fn_of(ctx, modname, f"{clsname}._message_received")
        am, g = mr.module, mr.cfg
        conn = [n for n, v in mr.assigns("self._state") if (dotted(v) or "").endswith(".CONNECTED")]
        starts = [n for n, c in mr.calls("self._heartbeat_manager.start") if n.awaits]
        ctx.check(bool(conn), R, f"{clsname}._message_received:reaches-CONNECTED", am, mr.node, "the handshake ends in the CONNECTED state", "no transition to CONNECTED")
        for i, cn in enumerate(conn):
            ok = bool(starts) and g.all_paths_pass(cn.id, [g.exit.id], [s.id for s in starts], NONEXC)
            ctx.check(ok, R, f"{clsname}._message_received:start-on-CONNECTED#{i}", am, cn.ast, "every transition to CONNECTED awaits heartbeat_manager.start()", "a path becomes CONNECTED without starting the heartbeat (the zero-zones echo branch must start it too)")
