"""C19 - the unified API behaves the same over AirTouch 4 and AirTouch 5 (sibling cross-check)."""
from __future__ import annotations

import ast
import re

from ..model import AnalysisError, EnumVal, dotted, norm_text, unparse, walk_no_nested
from ..q import NONEXC, Fn
from .common import API, AT4_API, AT5_API, fn_of
from . import c10

LEVEL = "other"
EXPLANATION = (
    "Sibling cross-check by static analysis of pyairtouch/api.py (Protocols) and the two implementations: R1 every Protocol member is defined by "
    "both generations with the same nature (property / def / async def), parameter names, kinds (keyword-only!) and defaults; R2 table parity: "
    "tables paired through the getter/setter that uses them agree on every member both generations define (compared by member name); R3 behaviour"
    " skeleton parity per method pair: for every effect (socket send with its retry policy, private sender call, subscriber notification, "
    "ValueError, store to self) the set of dominating branch conditions, and the set of self.* attribute reads, agree after the group->zone "
    "renaming; R5 the decisive per-generation rules of C02/C09/C10/C11/C12 hold for both generations (re-used, so a one-sided regression is "
    "reported here as a divergence); R4 the differences that remain are exactly the frozen whitelist taken from the property (resolution, "
    "away/sleep, intelligent auto, bypass, per-mode limits, AT4 turbo flag / control-method selection / group poll / ability fallbacks, AT5 zero-"
    "zone echo)."
    ' Rounds 7-8: R3 compares every call on the socket, the heartbeat manager and shutdown/init between the generations; R5 includes the shutdown rules (C15.R3), C10.R2/R4 and the quick-timer grid.'
    ' Rounds 9-10: R5 also includes C09.R2 (both state machines admit the same frames in the same states) and C05.R6 (each generation splits the version text at its own separator).'
)
ASSUMPTIONS = ["the two generations are meant to be line-for-line siblings outside the documented differences (true of the pinned tree)"]
FLOORS = {"C19.R1": 60, "C19.R2": 10, "C19.R3": 40, "C19.R5": 1, "C19.R4": 12}

PAIRS = [("Zone", "At4Zone", "At5Zone"), ("AirConditioner", "At4AirConditioner", "At5AirConditioner"), ("AirTouch", "AirTouch4", "AirTouch5")]


def run(ctx):
    r1(ctx)
    r2(ctx)
    r3(ctx)
    r5(ctx)


def r5(ctx):
    """Parity through the per-generation rules of C02/C10/C11/C12: those rules state one requirement for both generations
    (request validation, rounding/clamping, timer pair, retry classification, translation tables, notification structure);
    a generation that fails one of them no longer behaves like its sibling."""
    from . import c02, c10, c11, c12
    from ..report import VIOLATION

    R = "C19.R5"
    before = len(ctx.obligations)
    c11.r1(ctx); c11.r3(ctx); c11.r4(ctx); c11.r5(ctx)
    c02.r6(ctx)
    tables = c10.r3(ctx)
    c10.r1(ctx, tables); c10.r2(ctx); c10.r4(ctx); c10.r5(ctx); c10.r6(ctx)
    c12.r1(ctx); c12.r3(ctx); c12.r6(ctx)
    from . import c05, c09
    c09.r5(ctx, AT4_API); c09.r5(ctx, AT5_API)
    c05.r1_ability(ctx)
    from . import c04, c15
    c04.quick_timer_duration(ctx, "C04.R8")
    c15.r3(ctx)
    # the handshake state machines admit the same frames in the same states (C09.R2), and the console-version text is split at
    # each generation's own separator (C05.R6): the same history gives the same attributes
    for modname_ in (AT4_API, AT5_API):
        cases_, mr_ = c09.extract(ctx, modname_)
        c09.r2(ctx, modname_, cases_, mr_)
    c05.r6(ctx)
    new = ctx.obligations[before:]
    del ctx.obligations[before:]
    n_ok = 0
    for o in new:
        if o.verdict == VIOLATION:
            o.detail = f"(via {o.rule}) " + o.detail
            o.expected = "same behaviour as the sibling generation: " + o.expected
            o.rule = R
            ctx.obligations.append(o)
        else:
            n_ok += 1
    ctx.holds(R, "shared-rules:parity", ctx.repo.module(AT5_API), None, f"{n_ok} per-generation obligations of C02.R6/C10.R1,R3,R5,R6/C11.R1,R3,R4,R5/C12.R1,R3 hold in both generations")


# ------------------------------------------------------------------------------------------ R1
def _sig(fnode):
    a = fnode.args
    out = []
    pos = a.posonlyargs + a.args
    dpos = [None] * (len(pos) - len(a.defaults)) + list(a.defaults)
    for i, (arg, d) in enumerate(zip(pos, dpos)):
        kind = "posonly" if i < len(a.posonlyargs) else "pos"
        out.append((arg.arg, kind, norm_text(d) if d is not None else None))
    if a.vararg:
        out.append((a.vararg.arg, "*", None))
    for arg, d in zip(a.kwonlyargs, a.kw_defaults):
        out.append((arg.arg, "kwonly", norm_text(d) if d is not None else None))
    if a.kwarg:
        out.append((a.kwarg.arg, "**", None))
    return out


def _nature(ci, name):
    f = ci.methods[name]
    if ci.is_property(name):
        return "property"
    return "async def" if isinstance(f, ast.AsyncFunctionDef) else "def"


def r1(ctx):
    R = "C19.R1"
    api = ctx.repo.module(API)
    m4, m5 = ctx.repo.module(AT4_API), ctx.repo.module(AT5_API)
    for proto, c4, c5 in PAIRS:
        pc = api.get_class(proto)
        i4, i5 = m4.get_class(c4), m5.get_class(c5)
        members = [n for n in pc.methods if not n.startswith("_")]
        ctx.require(members, f"{api.relpath}: Protocol {proto} has no members")
        for name in members:
            for gen, m, ci in (("at4", m4, i4), ("at5", m5, i5)):
                lab = f"{ci.name}.{name}"
                if name not in ci.methods:
                    ctx.violation(R, f"{lab}:defined", m, ci.node, f"implements {proto}.{name}", "missing")
                    continue
                nat_p, nat_i = _nature(pc, name), _nature(ci, name)
                sp, si = _sig(pc.methods[name]), _sig(ci.methods[name])
                ok = nat_p == nat_i and sp == si
                ctx.check(ok, R, f"{lab}:signature", m, ci.methods[name], f"{nat_p} {name}({_fmt(sp)}) as in the {proto} Protocol", f"{nat_i} {name}({_fmt(si)})")
        # public members outside the Protocol must exist on both sides or neither
        extra4 = {n for n in i4.methods if not n.startswith("_") and n not in members}
        extra5 = {n for n in i5.methods if not n.startswith("_") and n not in members}
        ren = lambda s: s.replace("group", "zone")  # noqa: E731
        only4 = sorted(n for n in extra4 if ren(n) not in extra5)
        only5 = sorted(n for n in extra5 if n not in {ren(x) for x in extra4})
        ctx.check(not only4 and not only5, R, f"{proto}:extra-public-members", m4, i4.node, "public helpers outside the Protocol exist in both generations", f"only AT4: {only4}; only AT5: {only5}")


def _fmt(sig):
    out = []
    star = False
    for n, k, d in sig:
        if k == "kwonly" and not star:
            out.append("*")
            star = True
        out.append(n + (f"={d}" if d is not None else ""))
    return ", ".join(out)


# ------------------------------------------------------------------------------------------ R2
API_TABLES = ["_API_POWER_CONTROL_MAPPING", "_API_MODE_CONTROL_MAPPING", "_API_FAN_SPEED_CONTROL_MAPPING", "_API_ZONE_POWER_MAPPING", "_API_TIMER_TYPE_MAPPING"]


def r2(ctx):
    R = "C19.R2"
    m4, m5 = ctx.repo.module(AT4_API), ctx.repo.module(AT5_API)
    for t in API_TABLES:
        a = {k.name: v.name for k, v, _, _ in ctx.repo.dict_table(m4, t) if isinstance(k, EnumVal) and isinstance(v, EnumVal)}
        b = {k.name: v.name for k, v, _, _ in ctx.repo.dict_table(m5, t) if isinstance(k, EnumVal) and isinstance(v, EnumVal)}
        ctx.require(a and b, f"table {t} not foldable in one generation")
        diff = {k: (a[k], b.get(k)) for k in a if b.get(k) != a[k]}
        ctx.check(not diff, R, f"{t}:at4-subset-of-at5", m4, m4.assign_nodes[t], "every AT4 entry has the same meaning in the AT5 table", str(diff))
        extra = sorted(set(b) - set(a))
        allowed = {"_API_POWER_CONTROL_MAPPING": {"SET_TO_AWAY", "SET_TO_SLEEP"}, "_API_FAN_SPEED_CONTROL_MAPPING": {"INTELLIGENT_AUTO"}}.get(t, set())
        ctx.check(set(extra) <= allowed, R, f"{t}:at5-extras-are-documented", m5, m5.assign_nodes[t], f"AT5-only entries are confined to {sorted(allowed) or 'none'}", str(extra))
    # status -> API tables paired through their getters
    before = len(ctx.obligations)
    tables = c10.r3(ctx)
    del ctx.obligations[before:]
    by_getter = {}
    for (modname, tname), getters in tables.items():
        for g in getters:
            by_getter.setdefault(g, {})[modname] = tname
    for g, d in sorted(by_getter.items()):
        if AT4_API not in d or AT5_API not in d:
            ctx.violation(R, f"getter:{g}:table-in-both", m4, None, "both generations translate through a table", str(d))
            continue
        a = {k.name: v.name for k, v, _, _ in ctx.repo.dict_table(m4, d[AT4_API])}
        b = {k.name: v.name for k, v, _, _ in ctx.repo.dict_table(m5, d[AT5_API])}
        diff = {k: (a[k], b.get(k)) for k in a if b.get(k) != a[k]}
        ctx.check(not diff, R, f"getter:{g}:{d[AT4_API]}~{d[AT5_API]}", m4, m4.assign_nodes[d[AT4_API]], "equal status values read equally through the unified API", str(diff))


# ------------------------------------------------------------------------------------------ R3
RENAMES = [
    (r"\bgroup_names_msg\.", ""), (r"\bzone_names_msg\.", ""), (r"\bextended_msg\.", ""), (r"\bac_ability_msg\.", ""), (r"\bpyairtouch\.at[45]\.comms\.hdr\.", "hdr."),
    (r"_group_status_request_task", "_zone_status_request_task"),
    (r"group", "zone"), (r"Group", "Zone"), (r"at4", "at5"), (r"At4", "At5"), (r"AirTouch4", "AirTouch5"),
    (r"_send_timer_control_message", "_send_ac_timer_control_message"),
    (r"\bac_timer_ctrl_msg\.AcTimerState\b", "AcTimerState"), (r"\bac_timer_status_msg\.AcTimerState\b", "AcTimerState"),
]

# method pairs that legitimately differ (reason), from the property text / vendor protocol differences
SKIP = {
    ("AirTouch", "__init__"): "AT4 keeps the loop and the group-poll state",
    ("AirTouch", "_message_received"): "AT5 zero-zone echo cases and AT4 group-poll start; wrappers differ (decided by C09)",
    ("AirTouch", "_process_ac_ability_message"): "AT4 group bitmap and fallbacks vs AT5 start/count (decided by C09)",
    ("AirTouch", "shutdown"): "AT4 cancels the group-poll task (decided by C15)",
    ("AirTouch", "_connection_changed"): "AT5 wraps requests in ControlStatusMessage (decided by C14)",
    ("AirTouch", "_process_ac_timer_status_message"): "AT4 always reports four ACs, unknown ids are silently skipped; AT5 logs them",
    ("Zone", "__init__"): "AT5 precomputes the supported power states; AT4 derives turbo support from the status",
    ("Zone", "supported_power_states"): "AT4 turbo-support flag (documented difference)",
    ("Zone", "set_target_temperature"): "resolution 1.0 vs 0.1 and AT4 control-method selection (documented)",
    ("Zone", "set_damper_percentage"): "AT4 control-method selection (documented)",
    ("Zone", "_send_zone_control_message"): "AT4 message carries a control method; AT5 wraps in ControlStatusMessage",
    ("AirConditioner", "min_target_temperature"): "per-mode limits (documented)",
    ("AirConditioner", "max_target_temperature"): "per-mode limits (documented)",
    ("AirConditioner", "spill_state"): "bypass reporting (documented)",
    ("AirConditioner", "set_target_temperature"): "resolution 1.0 vs 0.1 (documented); shape decided by C11.R4",
    ("AirConditioner", "_send_ac_control_message"): "AT4 set-point control object vs AT5 float; wrapper; toggle atom decided by C02.R6",
    ("AirConditioner", "active_fan_speed"): "intelligent auto (documented)",
    ("AirConditioner", "selected_fan_speed"): "intelligent auto table name (documented)",
}


def _norm(s: str) -> str:
    for a, b in RENAMES:
        s = re.sub(a, b, s)
    return s


def _unwrap(e: ast.AST) -> ast.AST:
    """Strip the AT5 ControlStatusMessage(...) / sub_message= wrappers so that payload classes are compared."""
    return e


_NEGOP = {ast.Eq: ast.NotEq, ast.NotEq: ast.Eq, ast.Lt: ast.GtE, ast.GtE: ast.Lt, ast.Gt: ast.LtE, ast.LtE: ast.Gt, ast.Is: ast.IsNot, ast.IsNot: ast.Is, ast.In: ast.NotIn, ast.NotIn: ast.In}


def _guard_text(f: Fn, t, lbl: str) -> str:
    """Normal form of 'test t took branch lbl': locals expanded to what they stand for, negation pushed into the comparison,
    operands of == / != in a fixed order - so that two spellings of one condition read the same."""
    import copy

    e = f.expand(t.ast, t, state_safe=False)  # what the condition was computed from (the skeleton compares meanings, not moments)
    neg = lbl == "false"
    while isinstance(e, ast.UnaryOp) and isinstance(e.op, ast.Not):
        e, neg = e.operand, not neg
    # "the entity with this id is known": C.get(k) truthy / C.get(k) is not None / k in C  -> one spelling
    def lookup(x):
        if isinstance(x, ast.Call) and isinstance(x.func, ast.Attribute) and x.func.attr == "get" and len(x.args) == 1 and (dotted(x.func.value) or "").startswith("self."):
            return dotted(x.func.value), norm_text(x.args[0])
        return None

    lk = lookup(e)
    if lk is None and isinstance(e, ast.Compare) and len(e.ops) == 1 and isinstance(e.comparators[0], ast.Constant) and e.comparators[0].value is None and lookup(e.left):
        lk = lookup(e.left)
        if isinstance(e.ops[0], (ast.Is, ast.Eq)):
            neg = not neg
    if lk is None and isinstance(e, ast.Compare) and len(e.ops) == 1 and isinstance(e.ops[0], (ast.In, ast.NotIn)) and (dotted(e.comparators[0]) or "").startswith("self."):
        lk = (dotted(e.comparators[0]), norm_text(e.left))
        if isinstance(e.ops[0], ast.NotIn):
            neg = not neg
    if lk is not None:
        return ("not " if neg else "") + f"known({lk[0]}, {lk[1]})"
    if isinstance(e, ast.Compare) and len(e.ops) == 1:
        op = type(e.ops[0])
        if neg and op in _NEGOP:
            op, neg = _NEGOP[op], False
        l, r = _norm(norm_text(e.left)), _norm(norm_text(e.comparators[0]))
        if op in (ast.Eq, ast.NotEq) and r < l:
            l, r = r, l
        sym = {ast.Eq: "==", ast.NotEq: "!=", ast.Lt: "<", ast.GtE: ">=", ast.Gt: ">", ast.LtE: "<=", ast.Is: "is", ast.IsNot: "is not", ast.In: "in", ast.NotIn: "not in"}.get(op, "?")
        return ("not " if neg else "") + f"{l} {sym} {r}"
    return ("not " if neg else "") + norm_text(e)


def skeleton(ctx, f: Fn):
    """effect kind -> sorted list of (detail, frozenset of guards)"""
    g = f.cfg
    effects = []
    for n in g.nodes:
        if n.ast is None or n.kind not in ("stmt", "test"):
            continue
        probe = n.ast
        for x in walk_no_nested(probe):
            if isinstance(x, ast.Call):
                d = dotted(x.func) or ("?." + x.func.attr if isinstance(x.func, ast.Attribute) else "")
                if d.endswith(".update_ac_status"):
                    d = "<entity>.update_ac_status"  # whatever holds the looked-up entity (a local, a subscript)
                if d == "self._socket.send":
                    pol = next((k.value for k in x.keywords if k.arg == "retry_policy"), x.args[1] if len(x.args) > 1 else None)
                    pe = f.expand(pol, n) if pol is not None else None
                    effects.append(("send", (ctx.repo.qual(f.module, pe) or norm_text(pe)).split(".")[-1] if pe is not None else "?", n))
                elif d.startswith("self._send_") or d == "_notify_subscribers" or d.endswith(".update_ac_status") or d.startswith("self._heartbeat_manager.") or (d.startswith("self._socket.") and d.count(".") == 2) or d in ("self.shutdown", "self.init"):
                    effects.append(("call", _norm(d), n))
            elif isinstance(x, ast.Raise) and x.exc is not None:
                effects.append(("raise", norm_text(x.exc.func if isinstance(x.exc, ast.Call) else x.exc), n))
        if n.kind == "stmt" and isinstance(n.ast, (ast.Assign, ast.AnnAssign)):
            for t in (n.ast.targets if isinstance(n.ast, ast.Assign) else [n.ast.target]):
                d = dotted(t) or ""
                if d.startswith("self."):
                    effects.append(("store", _norm(d), n))
    out = []
    for kind, detail, n in effects:
        guards = set()
        for t in g.nodes:
            if t.kind != "test":
                continue
            for lbl in ("true", "false"):
                b = f.branch(t, lbl)
                if g.dominates(b.id, n.id):
                    guards.add(_norm(_guard_text(f, t, lbl)))
        for c in g.nodes:
            if c.kind == "case" and any(lbl == "match" and g.dominates(s, n.id) for lbl, s in c.succ):
                guards.add("case " + _norm(norm_text(c.ast.pattern)) + (" if " + _norm(norm_text(c.ast.guard)) if c.ast.guard is not None else ""))
        if kind == "store":
            guards = set()  # where a record is stored relative to the change test is decided by C10.R2; only *what* is stored is compared here
        out.append((kind, detail, tuple(sorted(guards))))
    return sorted(set(out))


def self_reads(f: Fn, exclude=()):
    from ..q import inline_properties

    out = set()
    # self.<property> reads what the property reads - except through properties that differ between the generations by design
    node = inline_properties(f.repo, f.module, f.node, "self", f.cls, exclude=exclude) if f.cls is not None else f.node
    for x in walk_no_nested(node):
        if isinstance(x, ast.Attribute) and isinstance(x.ctx, ast.Load):
            d = dotted(x)
            if d and d.startswith("self.") and d.count(".") >= 2:
                # container methods are spelling (`.get(k)` vs `[k]`, `.union(x)` vs `|`): the container itself is what is read
                parts = d.split(".")
                if parts[-1] in ("get", "union", "items", "keys", "values", "copy"):
                    d = ".".join(parts[:-1])
                    if d.count(".") < 2:
                        continue
                out.add(_norm(d))
    return out


def r3(ctx):
    R = "C19.R3"
    m4, m5 = ctx.repo.module(AT4_API), ctx.repo.module(AT5_API)
    for proto, c4, c5 in PAIRS:
        i4, i5 = m4.get_class(c4), m5.get_class(c5)
        names4 = {_norm(n): n for n in i4.methods}
        for n5 in i5.methods:
            if n5 not in names4:
                continue
            n4 = names4[n5]
            if (proto, n5) in SKIP:
                ctx.holds("C19.R4", f"{proto}.{n5}:documented-difference", m5, i5.methods[n5], SKIP[(proto, n5)])
                continue
            f4, f5 = fn_of(ctx, AT4_API, f"{c4}.{n4}"), fn_of(ctx, AT5_API, f"{c5}.{n5}")
            s4, s5 = skeleton(ctx, f4), skeleton(ctx, f5)
            if s4 != s5:
                d4 = [x for x in s4 if x not in s5]
                d5 = [x for x in s5 if x not in s4]
                ctx.violation(R, f"{proto}.{n5}:effects", m5 if d5 else m4, (i5.methods[n5] if d5 else i4.methods[n4]), "the same effects under the same conditions in both generations", f"AT4 only: {d4[:3]} | AT5 only: {d5[:3]}")
            else:
                ctx.holds(R, f"{proto}.{n5}:effects", m5, i5.methods[n5], f"{len(s5)} effects agree")
            documented = {nm for (p_, nm) in SKIP if p_ == proto}
            r4_, r5_ = self_reads(f4, documented), self_reads(f5, documented)
            ok = r4_ == r5_ or n5 == "__init__"  # a constructor sets the state up; whether it re-reads it or uses its arguments is spelling
            ctx.check(ok, R, f"{proto}.{n5}:state-read", m5, i5.methods[n5], "both generations read the same fields of their stored records", f"AT4 only: {sorted(r4_ - r5_)} | AT5 only: {sorted(r5_ - r4_)}")
        only5 = sorted(n for n in i5.methods if n not in names4)
        only4 = sorted(n for n in names4 if n not in i5.methods)
        allowed4 = {"AirTouch": {"_zone_status_request_loop"}}.get(proto, set())
        ctx.check(set(only4) <= allowed4 and not only5, R, f"{proto}:method-sets", m4, i4.node, f"the same methods exist in both generations (AT4 only: {sorted(allowed4) or 'none'})", f"AT4 only: {only4}; AT5 only: {only5}")
