"""C11 - invalid requests are refused locally; valid ones are shaped as documented (structural clauses)."""
from __future__ import annotations

import ast
import re

from ..model import AnalysisError, EnumVal, dotted, norm_text, unparse, walk_no_nested
from ..q import NONEXC, Fn, cmp_oriented
from .common import AT4_API, AT5_API, fn_of

LEVEL = "other"
EXPLANATION = (
    "Static analysis of the public setters of At4/At5 Zone and AirConditioner: R1 every transmission is dominated by the valid branch of the "
    "setter's validity test (membership in the supported set, 0 <= pct <= 100 as an interval derived from the dominating comparisons, sensor "
    "present) and the invalid branch raises ValueError without reaching a send; R2 the supported sets are derived from the ability record through"
    " the API->control tables and recomputed on every call (plain @property, never cached: the AT4 turbo flag arrives with every status); R3 "
    "exactly one transmission on every normal path of each setter and private sender; R4 the set-point that reaches the message is round(t) (AT4)"
    " / round(t, 1) (AT5) and, for air-conditioners, clamp(min, ., max) with the min/max getters in the right positions (shape recognition of "
    "min/max nests); R5 the timer pair: the named timer takes the new state, the other one is copied from the last reported status (IfExp "
    "evaluated for both timer types), both in one record for self.ac_id."
    ' Rounds 7-8: R5 also: self._ac_timer_status is assigned in __init__ and update_ac_timer_status only.'
    ' Rounds 9-10: R3 also: nothing but the transmission is awaited in a setter; R5 also: update_* is called from the _process_* handlers only; R10 (C01.R3/R5 re-used); R11 (C02.R2 re-used): the shared retry policies are never written to.'
)
ASSUMPTIONS = ["round() is Python's banker's rounding; ties are outside the decided clauses"]
FLOORS = {"C11.R1": 12, "C11.R2": 8, "C11.R3": 18, "C11.R4": 6, "C11.R5": 8, "C11.R6": 1, "C11.R7": 1, "C11.R8": 1, "C11.R9": 1, "C11.R10": 1, "C11.R11": 1}

ZONES = ((AT4_API, "At4Zone"), (AT5_API, "At5Zone"))
ACS = ((AT4_API, "At4AirConditioner"), (AT5_API, "At5AirConditioner"))


def run(ctx):
    r1(ctx)
    r2(ctx)
    r3(ctx)
    r4(ctx)
    r5(ctx)
    from . import c04
    from .common import reuse

    from . import c07

    from . import c02

    from . import c05

    reuse(ctx, "C11.R9", [c05.r1_ability], "the limits a set-point is clamped into are the ones the console reported: the ability records are decoded as the vendor defines (C05.R1 for the ability decoders)")
    from . import c01

    reuse(ctx, "C11.R10", [c01.r3, c01.r5], "an accepted call ends in the queue and only the drain writes: a write fault is absorbed there (retry, reset), it never surfaces from a setter or costs the frame (C01.R3/R5)",
          keep=lambda o: "who-may-call" in o.construct or "every-accepted" in o.construct or o.verdict != "HOLDS")
    reuse(ctx, "C11.R11", [c02.r2], "the retry budget a setter names is the one its frame gets: the shared RETRY_* policy objects are never written to, and a write fault always reaches the handler that retries (C02.R2)",
          keep=lambda o: "RetryPolicy" in o.construct or "write-faults" in o.construct or o.verdict != "HOLDS")
    reuse(ctx, "C11.R8", [c02.r5], "an accepted call is not silently dropped: commands are sent with a 30 s policy, never with the connected-only policy of the requests (C02.R5)",
          keep=lambda o: "command-lifetime" in o.construct or "idempotent-command" in o.construct or o.verdict != "HOLDS")
    reuse(ctx, "C11.R7", [c07.r7], "a raising subscriber does not abort the loop over the records of a status frame, so the abilities/sensor flags the validity checks read are those of the latest frame for every entity (C07.R7)")
    reuse(ctx, "C11.R6", [c04.r5], "the rounded set-point reaches the wire unchanged: the set-point conversion is exact on the model's resolution grid (C04.R5)",
          keep=lambda o: "set_point" in o.construct or "setpoint" in o.construct.lower() or o.verdict != "HOLDS")


def _grow_only_state(getter: Fn):
    """Name of an instance attribute the getter returns that the class only ever extends in place (append/extend/add/insert,
    no re-assignment outside __init__, no remove/clear), or None."""
    rets = [x.value for x in walk_no_nested(getter.node) if isinstance(x, ast.Return) and x.value is not None]
    cls = getter.cls
    if cls is None:
        return None
    for r in rets:
        for a in ast.walk(r):
            if isinstance(a, ast.Attribute) and isinstance(a.value, ast.Name) and a.value.id == "self":
                name = a.attr
                grows = shrinks = rebinds = 0
                for mname, fnode in cls.methods.items():
                    for x in ast.walk(fnode):
                        if isinstance(x, ast.Call) and isinstance(x.func, ast.Attribute) and isinstance(x.func.value, ast.Attribute) and dotted(x.func.value) == f"self.{name}":
                            if x.func.attr in ("append", "extend", "add", "insert", "update"):
                                grows += 1
                            elif x.func.attr in ("remove", "discard", "clear", "pop"):
                                shrinks += 1
                        if isinstance(x, (ast.Assign, ast.AnnAssign, ast.AugAssign)) and mname != "__init__":
                            tg = x.targets if isinstance(x, ast.Assign) else [x.target]
                            if any(dotted(t) == f"self.{name}" for t in tg):
                                rebinds += 1
                if grows and not shrinks and not rebinds:
                    return name
    return None


def _tx_nodes(f: Fn):
    """CFG nodes that transmit: direct socket sends or calls of a private _send_* helper."""
    out = []
    for n, c in f.calls_pred(lambda d: d == "self._socket.send" or (d.startswith("self._send_") and d.count(".") == 1)):
        if n not in out:
            out.append(n)
    return out


def _raises_valueerror_only(f: Fn, branch) -> bool:
    g = f.cfg
    reach = g.reachable(branch.id, labels=NONEXC)
    if g.exit.id in reach:
        return False
    if any(t.id in reach for t in _tx_nodes(f)):
        return False
    raises = [g.nodes[i] for i in reach if g.nodes[i].kind == "stmt" and isinstance(g.nodes[i].ast, ast.Raise)]
    return bool(raises) and all("ValueError" in unparse(r.ast) for r in raises)


def r1(ctx):
    R = "C11.R1"
    member = []
    for modname, cls in ZONES:
        member.append((modname, cls, "set_power", "self.supported_power_states"))
    for modname, cls in ACS:
        member += [(modname, cls, "set_power", "self._supported_power_controls"), (modname, cls, "set_mode", "self._supported_modes"), (modname, cls, "set_fan_speed", "self._supported_fan_speeds")]
    for modname, cls, meth, cont in member:
        f = fn_of(ctx, modname, f"{cls}.{meth}")
        m, g = f.module, f.cfg
        p = f.params[1]
        tx = _tx_nodes(f)
        ok = False
        found = f"no `{p} in {cont}` test dominates the transmission"
        alt = {cont, cont.replace("self._", "self.")}
        for t in f.tests(lambda e: isinstance(e, ast.Compare) and len(e.ops) == 1 and isinstance(e.ops[0], (ast.In, ast.NotIn)) and isinstance(e.left, ast.Name) and e.left.id == p):
            if norm_text(t.ast.comparators[0]) not in alt:
                found = f"membership tested against {norm_text(t.ast.comparators[0])}"
                continue
            valid = f.branch(t, "true" if isinstance(t.ast.ops[0], ast.In) else "false")
            invalid = f.branch(t, "false" if isinstance(t.ast.ops[0], ast.In) else "true")
            if tx and all(g.dominates(valid.id, n.id) for n in tx) and _raises_valueerror_only(f, invalid):
                ok = True
            else:
                found = "the unsupported branch does not raise ValueError before anything is sent"
        ctx.check(ok, R, f"{cls}.{meth}:supported-only", m, f.node, f"every transmission is dominated by `{p} in {cont}`; otherwise ValueError and nothing is sent", found)
    for modname, cls in ZONES:
        f = fn_of(ctx, modname, f"{cls}.set_damper_percentage")
        m, g = f.module, f.cfg
        p = f.params[1]
        tx = _tx_nodes(f)
        lo, hi = None, None
        inv_ok = True
        for t in f.tests(lambda e: isinstance(e, ast.Compare)):
            for label in ("true", "false"):
                b = f.branch(t, label)
                if not (tx and all(g.dominates(b.id, n.id) for n in tx)):
                    continue
                cons = _constraints(ctx, m, t.ast, p, label == "true")
                for op, c in cons:
                    if op == ">=":
                        lo = c if lo is None else max(lo, c)
                    elif op == ">":
                        lo = c + 1 if lo is None else max(lo, c + 1)
                    elif op == "<=":
                        hi = c if hi is None else min(hi, c)
                    elif op == "<":
                        hi = c - 1 if hi is None else min(hi, c - 1)
                other = f.branch(t, "false" if label == "true" else "true")
                # the complementary branch must end in ValueError unless it continues to another range test
                reach = g.reachable(other.id, labels=NONEXC)
                if any(n.id in reach for n in tx) is False and g.exit.id in reach:
                    inv_ok = False
        ctx.check((lo, hi) == (0, 100), R, f"{cls}.set_damper_percentage:range", m, f.node, "transmission only for 0 <= open_percentage <= 100 (interval derived from the dominating comparisons)", f"accepted interval [{lo}, {hi}]")
        # every path that does not transmit raises ValueError
        bad_exit = not g.all_paths_pass(g.entry.id, [g.exit.id], [n.id for n in tx], NONEXC)
        raises = [n for n in g.nodes if n.kind == "stmt" and isinstance(n.ast, ast.Raise)]
        ctx.check(not bad_exit and raises and all("ValueError" in unparse(r.ast) for r in raises), R, f"{cls}.set_damper_percentage:refusal", m, f.node, "an out-of-range value raises ValueError (no silent return)", "a path returns without sending and without raising" if bad_exit else "no ValueError")
        f = fn_of(ctx, modname, f"{cls}.set_target_temperature")
        g = f.cfg
        tx = _tx_nodes(f)
        ok = False
        for t in f.tests(lambda e: dotted(e) in ("self.has_temp_sensor", "self._group_status.has_sensor", "self._zone_status.has_sensor")):
            if tx and all(g.dominates(f.branch(t, "true").id, n.id) for n in tx) and _raises_valueerror_only(f, f.branch(t, "false")):
                ok = True
        ctx.check(ok, R, f"{cls}.set_target_temperature:sensor-required", f.module, f.node, "transmission only when the zone has a temperature sensor; otherwise ValueError", "guard missing, inverted or not raising")


def _constraints(ctx, m, test, p, truth):
    """[(op, const)] constraints on name p implied by `test` being `truth` (chained comparisons supported)."""
    out = []
    if not isinstance(test, ast.Compare):
        return out
    if len(test.ops) == 1:
        o = cmp_oriented(test, lambda l: isinstance(l, ast.Name) and l.id == p, truth)
        if o is not None:
            c = ctx.repo.try_fold(m, o[2])
            if isinstance(c, int) and not isinstance(c, bool):
                out.append((o[1], c))
    elif len(test.ops) == 2 and truth and isinstance(test.comparators[0], ast.Name) and test.comparators[0].id == p:
        # a <= p <= b
        for sub in (ast.Compare(left=test.left, ops=[test.ops[0]], comparators=[test.comparators[0]]), ast.Compare(left=test.comparators[0], ops=[test.ops[1]], comparators=[test.comparators[1]])):
            out += _constraints(ctx, m, sub, p, True)
    return out


def r2(ctx):
    R = "C11.R2"
    for modname, cls in ACS:
        init = fn_of(ctx, modname, f"{cls}.__init__")
        m = init.module
        for attr, table, support, ctl in (("_supported_modes", "_API_MODE_CONTROL_MAPPING", "ac_mode_support", "AcModeControl"), ("_supported_fan_speeds", "_API_FAN_SPEED_CONTROL_MAPPING", "fan_speed_support", "AcFanSpeedControl")):
            # evaluated (sa/minieval.py): the constructor run on ability records with different support maps must leave
            # exactly the API values whose control value the record reports as supported, in table order
            from ..minieval import FakeObj, Mini, Unsupported

            rows0 = ctx.repo.dict_table(m, table)
            ctls = []
            for _, v_, _, _ in rows0:
                if v_ not in ctls:
                    ctls.append(v_)
            params = [a_.arg for a_ in init.node.args.args][1:] + [a_.arg for a_ in init.node.args.kwonlyargs]
            ok, found = True, ""
            tried = 0
            for pattern in ("all", "none", "even", "odd", "first"):
                sup = {c_: {"all": True, "none": False, "even": i % 2 == 0, "odd": i % 2 == 1, "first": i == 0}[pattern] for i, c_ in enumerate(ctls)}
                # the maps of both lists are given, each with the same pattern over its own control enum
                def smap(tbl):
                    cs = []
                    for _, v2, _, _ in ctx.repo.dict_table(m, tbl):
                        if v2 not in cs:
                            cs.append(v2)
                    return {c2: {"all": True, "none": False, "even": i % 2 == 0, "odd": i % 2 == 1, "first": i == 0}[pattern] for i, c2 in enumerate(cs)}

                ability = FakeObj("AcAbility", ac_number=0, ac_mode_support=smap("_API_MODE_CONTROL_MAPPING"), fan_speed_support=smap("_API_FAN_SPEED_CONTROL_MAPPING"), min_set_point=16, max_set_point=30, min_cool_set_point=16, max_cool_set_point=30, min_heat_set_point=16, max_heat_set_point=30)
                args = {p_: (ability if p_ == "ac_ability" else ([] if p_ == "zones" else FakeObj("stub"))) for p_ in params}
                env = dict(args)
                mini = Mini(ctx.repo, m, {}, init.cls, lenient=True)
                try:
                    mini.run(init.node.body, env)
                except Unsupported as ex:
                    raise AnalysisError(f"{m.relpath}: {cls}.__init__ left the evaluable fragment: {ex}")
                except Exception as ex:  # _Return etc.
                    if type(ex).__name__ not in ("_Return",):
                        raise AnalysisError(f"{m.relpath}: {cls}.__init__: {type(ex).__name__} during evaluation")
                got = env.get(f"self.{attr}")
                want = [k_ for k_, v2, _, _ in rows0 if sup[v2]]
                tried += 1
                if got != want:
                    ok, found = False, f"support pattern '{pattern}': self.{attr} = {got!r}, expected {want!r}"
                    break
            if ok:
                found = f"{tried} support maps evaluated"
            ctx.check(ok, R, f"{cls}.{attr}", m, init.node, f"the API values of {table} whose control value the ability record reports as supported ({support})", found)
            rows = ctx.repo.dict_table(m, table)
            ok = all(isinstance(v, EnumVal) and v.cls.name == ctl for _, v, _, _ in rows)
            ctx.check(ok, R, f"{cls}:{table}:values", m, m.assign_nodes[table], f"values are {ctl} members (the keys of the ability's support map)", ", ".join(repr(v) for _, v, _, _ in rows)[:120])
        vals = [v for n, v in init.assigns("self._supported_power_controls")]
        ok = len(vals) == 1 and norm_text(vals[0]) in ("list(_API_POWER_CONTROL_MAPPING.keys())", "list(_API_POWER_CONTROL_MAPPING)")
        ctx.check(ok, R, f"{cls}._supported_power_controls", m, init.node, "the keys of _API_POWER_CONTROL_MAPPING (what the generation can express)", ", ".join(norm_text(v) for v in vals))
        ab = [v for n, v in init.assigns("self._ac_ability")]
        ctx.check(len(ab) == 1 and dotted(ab[0]) == "ac_ability", R, f"{cls}._ac_ability", m, init.node, "the ability record is the constructor argument", ", ".join(norm_text(v) for v in ab))
        for getter, attr in (("supported_power_controls", "_supported_power_controls"), ("supported_modes", "_supported_modes"), ("supported_fan_speeds", "_supported_fan_speeds")):
            fnode = m.get_class(cls).methods.get(getter)
            rets = [x for x in walk_no_nested(fnode) if isinstance(x, ast.Return)] if fnode is not None else []
            ctx.check(len(rets) == 1 and norm_text(rets[0].value) == f"self.{attr}", R, f"{cls}.{getter}", m, fnode, f"returns self.{attr} (the set the setter validates against)", norm_text(rets[0].value) if rets else "?")
    # zones
    z4 = fn_of(ctx, AT4_API, "At4Zone.supported_power_states")
    m4 = z4.module
    # evaluated (sa/minieval.py) for both values of the reported flag: [OFF, ON] plus TURBO exactly when supports_turbo
    from ..minieval import Mini, Unsupported

    res = {}
    for turbo in (False, True):
        try:
            v = Mini(ctx.repo, m4, {"self._group_status.supports_turbo": turbo}, z4.cls).function_value(z4.node, {})
        except Unsupported as ex:
            # the getter hands out stored state instead of deriving the list from the latest record: decide the one case that is
            # clear from the shape of the code - a list that is only ever extended in place can never lose TURBO again
            stale = _grow_only_state(z4)
            if stale:
                ctx.violation(R, "At4Zone.supported_power_states:turbo-iff-supported", m4, z4.node, "OFF and ON always, TURBO exactly when the latest group status reports supports_turbo", f"returns self.{stale}, a stored list that is extended in place and never rebuilt: once TURBO was added it stays accepted after the group stops reporting turbo support")
                res = None
                break
            raise AnalysisError(f"{m4.relpath}: At4Zone.supported_power_states left the evaluable fragment: {ex}")
        res[turbo] = sorted(getattr(x, "name", repr(x)) for x in (v or []))
    if res is not None:
        ok = res[False] == ["OFF", "ON"] and res[True] == ["OFF", "ON", "TURBO"]
        ctx.check(ok, R, "At4Zone.supported_power_states:turbo-iff-supported", m4, z4.node, "OFF and ON always, TURBO exactly when the group status reports supports_turbo", f"without turbo support: {res[False]}, with: {res[True]}")
    fresh = not any(isinstance(x, ast.Return) and isinstance(x.value, (ast.Name, ast.Attribute)) and (ctx.repo.try_fold(m4, x.value) is not None or (isinstance(x.value, ast.Name) and x.value.id in m4.assigns)) for x in ast.walk(z4.node)) and not any(isinstance(x, ast.Assign) and isinstance(x.value, ast.Name) and x.value.id in m4.assigns for x in ast.walk(z4.node))
    ctx.check(fresh, R, "At4Zone.supported_power_states:base", m4, z4.node, "the list is built anew on every call (a module-level list that is extended in place would keep TURBO for every zone)", "a shared module-level list is handed out or extended")
    z4c = m4.get_class("At4Zone")
    decs = z4c.method_decorators("supported_power_states")
    ctx.check(z4c.is_property("supported_power_states") and not any("cache" in d for d in decs), R, "At4Zone.supported_power_states:recomputed", m4, z4.node, "a plain @property evaluated on every call (the turbo flag arrives with every group status; a cached value goes stale)", ", ".join(decs))
    z5 = fn_of(ctx, AT5_API, "At5Zone.__init__")
    vals = [v for n, v in z5.assigns("self._supported_power_states")]
    ok = len(vals) == 1 and norm_text(vals[0]) in ("list(_API_ZONE_POWER_MAPPING.keys())", "list(_API_ZONE_POWER_MAPPING)")
    ctx.check(ok, R, "At5Zone._supported_power_states", z5.module, z5.node, "the keys of _API_ZONE_POWER_MAPPING", ", ".join(norm_text(v) for v in vals))


def r3(ctx):
    R = "C11.R3"
    todo = []
    for modname, cls in ZONES:
        todo += [(modname, cls, x) for x in ("set_power", "set_target_temperature", "set_damper_percentage")]
    todo += [(AT4_API, "At4Zone", "_send_group_control_message"), (AT5_API, "At5Zone", "_send_zone_control_message")]
    for modname, cls in ACS:
        todo += [(modname, cls, x) for x in ("set_power", "set_mode", "set_fan_speed", "set_target_temperature", "set_quick_timer", "clear_quick_timer", "_send_ac_control_message")]
    todo += [(AT4_API, "At4AirConditioner", "_send_timer_control_message"), (AT5_API, "At5AirConditioner", "_send_ac_timer_control_message")]
    for modname, cls, meth in todo:
        f = fn_of(ctx, modname, f"{cls}.{meth}")
        m, g = f.module, f.cfg
        tx = _tx_nodes(f)
        every = bool(tx) and g.all_paths_pass(g.entry.id, [g.exit.id], [n.id for n in tx], NONEXC)
        twice = any(g.exists_path(a.id, b.id, labels=NONEXC) for a in tx for b in tx)
        multi = [n for n in tx if sum(1 for x in walk_no_nested(n.ast) if isinstance(x, ast.Call) and ((dotted(x.func) or "") == "self._socket.send" or (dotted(x.func) or "").startswith("self._send_"))) > 1]
        awaited = all(n.awaits for n in tx)
        # the transmission is the only suspension point: a setter that waits first (a settle time, a lock, a status refresh) lets a
        # second call overwrite what the first one is about to send, or sends after the state it validated against has changed
        other = [n for n in g.nodes if n.awaits and n not in tx]
        ctx.check(not other, R, f"{cls}.{meth}:suspends-only-to-transmit", m, (other[0].ast if other else f.node), "nothing but the transmission is awaited between the call and its frame", f"`{norm_text(other[0].ast)[:60]}` (line {other[0].lineno}) suspends the setter: calls made meanwhile interleave with it" if other else "")
        ctx.check(every and not twice and not multi and awaited, R, f"{cls}.{meth}:one-frame", m, f.node, "exactly one awaited transmission on every normal path", ("no transmission on some path; " if not every else "") + ("two transmissions on one path; " if twice or multi else "") + ("" if awaited else "not awaited"))


# ---- R4 -------------------------------------------------------------------------------------
def _round_of(e, var, digits):
    """e == round(var) (digits None) or round(var, 1 / ndigits=1)."""
    if not (isinstance(e, ast.Call) and dotted(e.func) == "round" and e.args):
        return False
    if norm_text(e.args[0]) != var:
        return False
    nd = e.args[1] if len(e.args) > 1 else next((k.value for k in e.keywords if k.arg == "ndigits"), None)
    if digits is None:
        return nd is None or (isinstance(nd, ast.Constant) and nd.value in (None, 0) and False) or (isinstance(nd, ast.Constant) and nd.value is None)
    return isinstance(nd, ast.Constant) and nd.value == digits


def _clamp(e):
    """Recognise clamp nests -> (lo, x, hi) or None. min(max(lo, x), hi) / min(hi, max(x, lo)) / max(lo, min(x, hi)) ..."""
    if not (isinstance(e, ast.Call) and dotted(e.func) in ("min", "max") and len(e.args) == 2 and not e.keywords):
        return None
    outer = dotted(e.func)
    inner_name = "max" if outer == "min" else "min"
    a, b = e.args
    for inner, bound in ((a, b), (b, a)):
        if isinstance(inner, ast.Call) and dotted(inner.func) == inner_name and len(inner.args) == 2:
            return outer, bound, inner.args
    return None


def _clamp_semantics(ctx, f: Fn, digits):
    """Evaluates the method's own statements (sa/minieval.py) for every ordering of the rounded request against the limits:
    the value handed to _send_ac_control_message must be min(max(lo, round(t[, digits])), hi) whenever lo <= hi."""
    from ..minieval import Mini, Unsupported

    def stop(st):
        for x in ast.walk(st):
            if isinstance(x, ast.Call) and dotted(x.func) == "self._send_ac_control_message":
                v = next((k.value for k in x.keywords if k.arg in ("set_point", "set_point_control")), None)
                if isinstance(v, ast.Call) and (dotted(v.func) or "").endswith("AcSetPointValue"):
                    v = v.args[0] if v.args else next((k.value for k in v.keywords if k.arg == "set_point"), None)
                return v
        return None

    step = 0.1 if digits else 1.0
    tried = 0
    for lo, hi in ((16, 16), (16, 30), (18, 19), (30, 30), (17.5, 29.5) if digits else (17, 29)):
        for base in (lo - 3, lo - 1, lo, lo + 1, (lo + hi) / 2, hi - 1, hi, hi + 1, hi + 3):
            for frac in (0.0, 0.04, 0.14, 0.26, 0.34, 0.49, -0.14, -0.34):
                t = base + frac
                want = min(max(lo, round(t, digits) if digits else round(t)), hi)
                mini = Mini(ctx.repo, f.module, {"self.min_target_temperature": lo, "self.max_target_temperature": hi}, f.cls)
                try:
                    kind, got = mini.value_at(f.node, {"temperature": t}, stop)
                except Unsupported as ex:
                    raise AnalysisError(f"{f.module.relpath}: {f.qual}: set-point computation left the evaluable fragment: {ex}")
                tried += 1
                if kind != "value":
                    return False, f"temperature={t}, limits [{lo}, {hi}]: no set-point reaches _send_ac_control_message ({kind})"
                if not (isinstance(got, (int, float)) and abs(got - want) < 1e-9):
                    return False, f"temperature={t}, limits [{lo}, {hi}]: the message gets {got!r}, expected {want!r}"
    return True, f"{tried} orderings/grid points evaluated"


def r4(ctx):
    R = "C11.R4"
    # zones
    for modname, cls, digits, ctor in ((AT4_API, "At4Zone", None, "GroupSetPointControl"), (AT5_API, "At5Zone", 1, "ZoneSetPointControl")):
        f = fn_of(ctx, modname, f"{cls}.set_target_temperature")
        m = f.module
        cons = [(n, c) for n, c in f.calls(ctor)]
        ok = False
        found = "no set-point control built"
        for n, c in cons:
            v = c.args[0] if c.args else next((k.value for k in c.keywords if k.arg == "set_point"), None)
            e = f.expand(v, n) if v is not None else None
            found = norm_text(e) if e is not None else "missing"
            ok = e is not None and _round_of(e, "temperature", digits)
        ctx.check(ok, R, f"{cls}.set_target_temperature:rounding", m, f.node, f"set_point = round(temperature{', 1' if digits else ''}) ({'0.1' if digits else '1'} degC resolution)", found)
    for modname, cls, digits in ((AT4_API, "At4AirConditioner", None), (AT5_API, "At5AirConditioner", 1)):
        f = fn_of(ctx, modname, f"{cls}.set_target_temperature")
        m = f.module
        ok, found = _clamp_semantics(ctx, f, digits)
        ctx.check(ok, R, f"{cls}.set_target_temperature:round-then-clamp", m, f.node, f"min(max(min_target_temperature, round(temperature{', 1' if digits else ''})), max_target_temperature)", found)
        # the message field receives that value unchanged
    for modname, cls, fld in ((AT4_API, "At4AirConditioner", "set_point_control"), (AT5_API, "At5AirConditioner", "set_point")):
        f = fn_of(ctx, modname, f"{cls}._send_ac_control_message")
        m = f.module
        cons = f.calls("AcControlMessage") if modname == AT4_API else f.calls("AcControlData")
        ok = False
        for n, c in cons:
            kw = {k.arg: norm_text(k.value) for k in c.keywords}
            ok = kw.get(fld) == fld and kw.get("power") == "power" and kw.get("mode") == "mode" and kw.get("fan_speed") == "fan_speed" and kw.get("ac_number") == "self.ac_id"
        ctx.check(ok, R, f"{cls}._send_ac_control_message:passes-fields-through", m, f.node, "each parameter goes to the field of the same name, ac_number=self.ac_id", norm_text(cons[0][1])[:160] if cons else "no message built")


# ---- R5 -------------------------------------------------------------------------------------
def _eval_ifexp(ctx, m, e, param, member):
    """Value expression selected by (nested) IfExp `e` when `param` equals enum member `member`."""
    while isinstance(e, ast.IfExp):
        t = e.test
        o = cmp_oriented(t, lambda l: isinstance(l, ast.Name) and l.id == param)
        if o is None or o[1] not in ("==", "!=", "is", "is not"):
            return None
        v = ctx.repo.try_fold(m, o[2])
        if not isinstance(v, EnumVal):
            return None
        eq = v == member
        truth = eq if o[1] in ("==", "is") else not eq
        e = e.body if truth else e.orelse
    return e


def r5(ctx):
    R = "C11.R5"
    from . import c12
    from .common import reuse

    reuse(ctx, R, [c12.r6], "the last reported records are never written in place (the 'other' timer must stay exactly as the console reported it)", keep=lambda o: "timer" in o.construct.lower() or o.verdict != "HOLDS")
    api = ctx.repo.module("pyairtouch.api")
    tt = api.get_class("AcTimerType")
    ON = EnumVal(tt, "ON_TIMER", tt.enum_members(ctx.repo)["ON_TIMER"])
    OFF = EnumVal(tt, "OFF_TIMER", tt.enum_members(ctx.repo)["OFF_TIMER"])
    for modname, cls, meth in ((AT4_API, "At4AirConditioner", "_send_timer_control_message"), (AT5_API, "At5AirConditioner", "_send_ac_timer_control_message")):
        f = fn_of(ctx, modname, f"{cls}.{meth}")
        m = f.module
        p_type, p_state = f.params[1], f.params[2]
        cons = f.calls("AcTimerControlData")
        if len(cons) != 1:
            ctx.violation(R, f"{cls}.{meth}:record", m, f.node, "one AcTimerControlData record is built", f"{len(cons)}")
            continue
        n, c = cons[0]
        kw = {k.arg: k.value for k in c.keywords}
        ctx.check("ac_number" in kw and norm_text(kw["ac_number"]) == "self.ac_id", R, f"{cls}.{meth}:own-ac", m, c, "ac_number=self.ac_id", norm_text(kw.get("ac_number")) if "ac_number" in kw else "missing")
        from ..minieval import Mini, Unsupported

        def stop(st, c=c):
            if any(x is c for x in ast.walk(st)):
                return ast.Tuple(elts=[kw.get("on_timer", ast.Constant(value="<missing>")), kw.get("off_timer", ast.Constant(value="<missing>"))], ctx=ast.Load())
            return None

        res = {}
        for tv in (ON, OFF):
            atoms = {"self._ac_timer_status.on_timer": "<reported on_timer>", "self._ac_timer_status.off_timer": "<reported off_timer>"}
            for _attempt in range(4):
                mini = Mini(ctx.repo, m, dict(atoms), f.cls)
                try:
                    kind, got = mini.value_at(f.node, {p_type: tv, p_state: "<new state>"}, stop)
                    break
                except Unsupported as ex:
                    # other object state consulted by the sender: give it a recognisable stand-in (a record whose timers are
                    # NOT the reported ones) and look at what reaches the message then
                    mm_ = re.search(r"attribute (self\.\w+) is not an atom", str(ex))
                    if mm_ is None or mm_.group(1) in atoms:
                        raise AnalysisError(f"{m.relpath}: {cls}.{meth}: timer selection left the evaluable fragment: {ex}")
                    from ..minieval import FakeObj
                    atoms[mm_.group(1)] = FakeObj("AcTimerControlData", on_timer=f"<on_timer of {mm_.group(1)}>", off_timer=f"<off_timer of {mm_.group(1)}>", ac_number=0)
            else:
                raise AnalysisError(f"{m.relpath}: {cls}.{meth}: timer selection left the evaluable fragment")
            res[tv.name] = got if kind == "value" else (f"<{kind}>", f"<{kind}>")
        for i, (field, mine, other) in enumerate((("on_timer", ON, OFF), ("off_timer", OFF, ON))):
            v_mine, v_other = res[mine.name][i], res[other.name][i]
            ctx.check(v_mine == "<new state>", R, f"{cls}.{meth}:{field}:when-{mine.name}", m, c, f"{field} = the new state when timer_type is {mine.name}", str(v_mine))
            ctx.check(v_other == f"<reported {field}>", R, f"{cls}.{meth}:{field}:when-{other.name}", m, c, f"{field} = self._ac_timer_status.{field} (exactly as last reported) when timer_type is {other.name}", str(v_other))
        # the record is the only one in the message
        msgs = f.calls("AcTimerControlMessage")
        ok = False
        if len(msgs) == 1:
            mn_, mc_ = msgs[0]
            for x in ast.walk(mc_):
                if isinstance(x, ast.List) and len(x.elts) == 1:
                    el = x.elts[0]
                    # the element is the record itself, or a local bound once to it
                    if el is c or (isinstance(el, ast.Name) and any(isinstance(d_.ast, ast.Assign) and d_.ast.value is c for d_ in f.defs_reaching(el.id, mn_) if d_.kind == "stmt") and len(f.defs_reaching(el.id, mn_)) == 1):
                        ok = True
        ctx.check(ok, R, f"{cls}.{meth}:single-record", m, f.node, "AcTimerControlMessage(ac_timer_status=[<that record>])", norm_text(msgs[0][1])[:120] if msgs else "no message")
    # "as last reported": the stored timer record is replaced only by a timer-status frame (and given its default in __init__)
    for modname, cls in ((AT4_API, "At4AirConditioner"), (AT5_API, "At5AirConditioner")):
        m = ctx.repo.module(modname)
        ci = m.get_class(cls)
        writers = sorted(mn for mn, fnode in ci.methods.items() if any(isinstance(x, (ast.Assign, ast.AnnAssign, ast.AugAssign)) and any(dotted(t) == "self._ac_timer_status" for t in (x.targets if isinstance(x, ast.Assign) else [x.target])) for x in ast.walk(fnode)))
        ctx.check(writers == ["__init__", "update_ac_timer_status"], R, f"{cls}:who-may-write:_ac_timer_status", m, ci.node, "self._ac_timer_status is assigned in __init__ and update_ac_timer_status only (the 'other' timer sent with a quick-timer command is the one the console last reported)", ", ".join(writers))
    # ... and update_* is fed by received frames only: every call of an update_* method in the API modules sits in one of the
    # _process_* handlers (reached from _message_received) and passes a record taken from the message being processed.  A
    # synthetic record (e.g. "forget the timers on disconnect") makes the next command send something the console never reported.
    from ..q import iter_functions as _iterf

    for modname in (AT4_API, AT5_API):
        m = ctx.repo.module(modname)
        n_calls = 0
        bad = []
        for qual, fnode in _iterf(m):
            for x in walk_no_nested(fnode):
                if isinstance(x, ast.Call) and isinstance(x.func, ast.Attribute) and x.func.attr.startswith("update_") and x.func.attr in ("update_ac_status", "update_ac_timer_status", "update_ac_error_info", "update_group_status", "update_zone_status"):
                    n_calls += 1
                    if not (qual.split(".")[-1].startswith("_process_") or qual.split(".")[-1] == "_message_received"):
                        bad.append((qual, x))
        ctx.require(n_calls >= 4, f"{m.relpath}: fewer than four update_* calls found")
        ctx.check(not bad, R, f"{modname.split('.')[1]}:who-may-call:update_*", m, (bad[0][1] if bad else None), "the stored records are replaced only from the _process_* handlers of received frames", "; ".join(f"{q}: {norm_text(x)[:50]}" for q, x in bad[:3]))
    # callers build the new state correctly
    for modname, cls, sender in ((AT4_API, "At4AirConditioner", "_send_timer_control_message"), (AT5_API, "At5AirConditioner", "_send_ac_timer_control_message")):
        f = fn_of(ctx, modname, f"{cls}.clear_quick_timer")
        m = f.module
        calls = f.calls(sender)
        ok = False
        snode = m.get_class(cls).methods.get(sender)
        spar = [a_.arg for a_ in snode.args.args[1:]] if snode is not None else []
        for n, c in calls:
            bound = {spar[i]: a_ for i, a_ in enumerate(c.args) if i < len(spar)}
            bound.update({k.arg: k.value for k in c.keywords if k.arg})
            a_type, a_state = (bound.get(spar[0]), bound.get(spar[1])) if len(spar) >= 2 else (None, None)
            st = f.expand(a_state, n) if a_state is not None else None
            kw = {}
            if isinstance(st, ast.Call):
                sci = ctx.repo.resolve_class(m, st.func)
                fields = [n_ for n_, _, _ in sci.fields] if sci is not None and sci.is_dataclass else []
                kw = {fields[i]: norm_text(a_) for i, a_ in enumerate(st.args) if i < len(fields)}
                kw.update({k.arg: norm_text(k.value) for k in st.keywords})
            ok = kw.get("disabled") == "True" and a_type is not None and norm_text(a_type) == f.params[1]
        ctx.check(ok, R, f"{cls}.clear_quick_timer", m, f.node, "clearing sends the named timer with disabled=True", "different")
        f = fn_of(ctx, modname, f"{cls}.set_quick_timer")
        calls = f.calls(sender)
        ok = False
        snode = m.get_class(cls).methods.get(sender)
        spar = [a_.arg for a_ in snode.args.args[1:]] if snode is not None else []
        for n, c in calls:
            # arguments by parameter, whether they are passed by position or by keyword
            bound = {spar[i]: a_ for i, a_ in enumerate(c.args) if i < len(spar)}
            bound.update({k.arg: k.value for k in c.keywords if k.arg})
            a_type, a_state = (bound.get(spar[0]), bound.get(spar[1])) if len(spar) >= 2 else (None, None)
            st = f.expand(a_state, n) if a_state is not None else None
            kw = {k.arg: norm_text(k.value) for k in st.keywords} if isinstance(st, ast.Call) else {}
            ok = kw.get("disabled") == "False" and kw.get("hour") == "value.hour" and kw.get("minute") == "value.minute" and a_type is not None and norm_text(a_type) == f.params[1]
        ctx.check(ok, R, f"{cls}.set_quick_timer:time", m, f.node, "a time value sets the named timer to (hour, minute), enabled", "different")
