"""C06 - checksum is CRC-16/MODBUS; damaged frames are never delivered."""
from __future__ import annotations

import ast

from .. import codec, gf2
from ..model import AnalysisError, dotted, norm_text, unparse, walk_no_nested
from ..q import NONEXC, Fn, flatten_add, package_calls
from .common import SOCKET, SOCK_CLS, sock_fn

LEVEL = "proof"
PROOF_RULES = ["C06.R1", "C06.R2"]
TRUSTED_BASE = [
    "CPython ast parser",
    "sa/gf2.py: GF(2)-affine abstract interpreter (exact for xor / shifts / and-with-constant / affine table lookups)",
    "the bitwise definition of CRC-16 with reflected polynomial 0xA001 written in sa/gf2.py (reference_crc16_step), cross-checked on the 14 vendor example frames of DESIGN Appendix B",
    "induction on the length of the byte string: equal initial value and equal step function give equal results for every input",
]
EXPLANATION = (
    'R1 (proof): each of the 256 literals of _CRC_TABLE equals the table generated from the reflected polynomial 0xA001 (256 obligations). R2 (proof): the '
    'loop body of Crc16Modbus.calculate is interpreted in the GF(2)-affine domain with a symbolic 16-bit register and a symbolic 8-bit input; its 16 output '
    'bit-forms equal those of the bitwise definition (16 obligations), the initial value folds to 0xFFFF and the result is emitted high byte first in 2 '
    'bytes (3 obligations) - so calculate() equals CRC-16/MODBUS for every byte string by induction on length. R3 validate() compares calculate(buffer) '
    'with the given bytes. R4 the checksum span of both header codecs starts at the to-address byte and ends at the header end, identical in encoder and '
    'decoder - on the encode side decided on the header bytes as built (HeaderEncoder.encode evaluated in the bit domain, struct packs and constant '
    'prefixes joined with + flattened into per-byte source descriptors: checksum_data must equal header_bytes[to-address:], and the header must have the '
    "size of the decoder's struct), and socket write/read paths sum header span + payload: the value handed to validate() is the one read from the stream "
    'and the bytes written after the payload are calculate(header span + payload), located by position (reaching definitions), not by name. R5 in '
    '_read_one_message every path from the failed validation returns None without decoding and the success return is dominated by the passed validation; '
    '_read delivers only truthy results and resets otherwise. Error-detection capability of the generator polynomial is a cited mathematical fact, not '
    'checked. R6 after a failed validation the connection is reset and re-established by the one self-healing path (C07.R2 + C07.R3 re-evaluated).'
)
ASSUMPTIONS = ["int.to_bytes(length, byteorder) as documented", "CRC-16 with generator x^16+x^15+x^2+1 detects all single/double-bit errors (for these frame lengths) and all bursts <= 16 bits (textbook property)"]
FLOORS = {"C06.R1": 256, "C06.R2": 19, "C06.R3": 2, "C06.R4": 6, "C06.R5": 4, "C06.R6": 1, "C06.R7": 1}

CRC = "pyairtouch.comms.crc16"

# Vendor example frames (DESIGN Appendix B): address .. payload, then CRC. Used to QA the checker's own reference.
EXAMPLES = [
    "80b0012a000401020000 da59", "80b0012b0000 f52f", "80b0012c000481ff3f00 1a96", "80b0012c000400403f00 c28f", "80b0012d0000 f4cf",
    "90b0011f0003ff1100 0983", "90b0011f0002ff12 820c", "90b0011f0002ff30 9b8c",
    "80b00fc0000c20000000000400010102ff00 f0a1", "80b001c000082100000000000000 a431", "80b001c0000c220000000004000121ff00ff d347",
    "80b001c000082300000000000000 7db0", "90b0311f0002ff13 b2c8", "b090311f0002ff13 68eb",
]


def run(ctx):
    qa_reference(ctx)
    r1(ctx)
    r2(ctx)
    r3(ctx)
    r4(ctx)
    r5(ctx)
    from . import c07, c17
    from .common import reuse

    reuse(ctx, "C06.R7", [c07.r5, c07.r9, c17.r2], "the reset after a rejected frame acts on a consistent connection state and the reader that replaces it is running: is_connected holds exactly while a writer is stored, the read loop is scheduled as soon as the socket is connected, and a failed decode returns no-message (which resets) instead of reading on (C07.R5, C07.R9, C17.R2)")

    reuse(ctx, "C06.R6", [c07.r1, c07.r2, c07.r3], "after a rejected frame the connection is reset and re-established (C07.R2 reset = disconnect + reconnect, C07.R3 failed attempts are retried)")


def qa_reference(ctx):
    for ex in EXAMPLES:
        data, crc = ex.split()
        got = gf2.reference_crc(bytes.fromhex(data))
        ctx.require(got == int(crc, 16), f"checker self-QA failed: reference CRC of vendor frame {data} is {got:04x}, document says {crc}")


def r1(ctx):
    R = "C06.R1"
    m = ctx.repo.module(CRC)
    expr = m.get_const_expr("_CRC_TABLE")
    ref = gf2.reference_table(0xA001)
    if isinstance(expr, (ast.List, ast.Tuple)):
        values = [ctx.repo.try_fold(m, e) for e in expr.elts]
        nodes = list(expr.elts)
    else:
        # a table computed at import time (pure integer code over 0..255): evaluated with the checker's interpreter
        from ..minieval import Mini, Unsupported

        try:
            values = Mini(ctx.repo, m).ev(expr, {})
        except Unsupported as ex:
            raise AnalysisError(f"{m.relpath}: _CRC_TABLE is neither a literal table nor an evaluable table expression: {ex}")
        ctx.require(isinstance(values, (list, tuple)), f"{m.relpath}: _CRC_TABLE does not evaluate to a sequence")
        values = list(values)
        nodes = [expr] * len(values)
    if len(values) != 256:
        ctx.violation(R, "_CRC_TABLE:length", m, expr, "256 entries", str(len(values)))
    for i, v in enumerate(values[:256]):
        ctx.check(v == ref[i], R, f"_CRC_TABLE[0x{i:02X}]", m, nodes[i], f"0x{ref[i]:04X} (generated from polynomial 0xA001)", f"0x{v:04X}" if isinstance(v, int) else repr(v))


def _calc_parts(ctx):
    m = ctx.repo.module(CRC)
    ci = m.get_class("Crc16Modbus")
    fn = ci.methods.get("calculate")
    ctx.require(fn is not None, f"{m.relpath}: Crc16Modbus.calculate vanished")
    ctx.fn(m, "Crc16Modbus.calculate")
    body = [s for s in fn.body if not (isinstance(s, ast.Expr) and isinstance(s.value, ast.Constant))]
    loop = next((s for s in body if isinstance(s, ast.For)), None)
    ctx.require(loop is not None and isinstance(loop.target, ast.Name), f"{m.relpath}: calculate() has no `for <byte> in <buffer>` loop")
    pre = body[: body.index(loop)]
    post = body[body.index(loop) + 1:]
    return m, ci, fn, pre, loop, post


def r2(ctx):
    R = "C06.R2"
    m, ci, fn, pre, loop, post = _calc_parts(ctx)
    buf = fn.args.args[1].arg
    ctx.check(isinstance(loop.iter, ast.Name) and loop.iter.id == buf and not loop.orelse, R, "calculate:iterates-every-byte", m, loop, f"for <byte> in {buf}: every byte of the input, in order", norm_text(loop.iter))
    # register variable = the name assigned before the loop and returned afterwards
    it0 = gf2.Interp(ctx.repo, m, {})
    try:
        it0.run(pre)
    except gf2.NonAffine as ex:
        raise AnalysisError(f"{m.relpath}: calculate() prologue not analysable: {ex}")
    regs = [k for k, v in it0.env.items() if gf2.is_const(v)]
    ctx.require(len(regs) >= 1, f"{m.relpath}: no register initialised before the loop")
    val = loop.target.id
    results = {}
    for reg in regs:
        env = dict(it0.env)
        env[reg] = gf2.sym_word("crc", 16)
        env[val] = gf2.sym_word("val", 8)
        it = gf2.Interp(ctx.repo, m, env)
        try:
            it.run(loop.body)
        except gf2.NonAffine as ex:
            if any(o.rule == "C06.R1" and o.verdict != "HOLDS" for o in ctx.obligations):
                ctx.violation(R, "calculate:step", m, loop, "the update step equals the bitwise CRC-16 step for every register value and byte", f"not analysable as an affine map because the lookup table is not the CRC table (see C06.R1): {ex}")
                return
            raise AnalysisError(f"{m.relpath}: CRC loop body left the GF(2)-affine fragment: {ex}")
        results[reg] = it.env[reg]
    # the register is the one returned
    rets = [s for s in post if isinstance(s, ast.Return)]
    ctx.require(len(rets) == 1, f"{m.relpath}: calculate() does not end in a single return")
    rv = rets[0].value
    reg = None
    if isinstance(rv, ast.Call) and isinstance(rv.func, ast.Attribute) and rv.func.attr == "to_bytes" and isinstance(rv.func.value, ast.Name):
        reg = rv.func.value.id
    ctx.require(reg in results, f"{m.relpath}: calculate() does not return <register>.to_bytes(...)")
    init = gf2.const_value(it0.env[reg])
    ctx.check(init == 0xFFFF, R, "calculate:initial-value", m, pre[0] if pre else fn, "register initialised to 0xFFFF", f"0x{init:04X}")
    got = results[reg]
    ref = gf2.reference_crc16_step(gf2.sym_word("crc", 16), gf2.sym_word("val", 8), 0xA001)
    for k in range(16):
        ok = got[k] == ref[k]
        ctx.check(ok, R, f"calculate:step:bit{k}", m, loop, f"bit {k} of the updated register = {_fmt(ref[k])}", _fmt(got[k]))
    hi = all(got[k] == gf2.ZERO for k in range(16, gf2.WIDTH))
    ctx.check(hi, R, "calculate:step:stays-16-bit", m, loop, "the register never exceeds 16 bits", "upper bits can become non-zero")
    kw = {k.arg: ctx.repo.try_fold(m, k.value) if not (isinstance(k.value, ast.Attribute) and dotted(k.value) == "self.checksum_length") else ctx.repo.try_fold(m, ci.attrs.get("checksum_length")) for k in rv.keywords}
    pos = [ctx.repo.try_fold(m, a) if dotted(a) != "self.checksum_length" else ctx.repo.try_fold(m, ci.attrs.get("checksum_length")) for a in rv.args]
    length = kw.get("length", pos[0] if pos else None)
    order = kw.get("byteorder", pos[1] if len(pos) > 1 else "big")
    ctx.check(length == 2 and order == "big", R, "calculate:output", m, rv, "to_bytes(length=2, byteorder='big'): high byte first", f"length={length!r} byteorder={order!r}")
    cl = ctx.repo.try_fold(m, ci.attrs.get("checksum_length")) if "checksum_length" in ci.attrs else None
    ctx.check(cl == 2, R, "Crc16Modbus.checksum_length", m, ci.node, "2", repr(cl))


def _fmt(bit):
    c, vs = bit
    terms = [f"{n}[{i}]" for n, i in sorted(vs)]
    if c:
        terms.append("1")
    return " ^ ".join(terms) or "0"


def r3(ctx):
    R = "C06.R3"
    m = ctx.repo.module(CRC)
    f = Fn(ctx.repo, m, "Crc16Modbus.validate")
    ctx.fn(m, "Crc16Modbus.validate")
    buf, chk = f.params[1], f.params[2]
    rets = [n for n in f.cfg.nodes if n.kind == "stmt" and isinstance(n.ast, ast.Return)]
    ok = len(rets) == 1
    txt = f.expand_text(rets[0].ast.value, rets[0]) if ok and rets[0].ast.value is not None else ""
    ok = ok and txt in (f"self.calculate({buf}) == {chk}", f"{chk} == self.calculate({buf})", f"bytes({chk}) == self.calculate({buf})", f"self.calculate({buf}) == bytes({chk})")
    ctx.check(ok, R, "validate:compares", m, f.node, f"returns self.calculate({buf}) == {chk}", txt or f"{len(rets)} return statements")
    # anything before the return may only raise (length check), never return True
    others = [n for n in f.cfg.nodes if n.kind == "stmt" and isinstance(n.ast, ast.Return) and n not in rets[:1]]
    ctx.check(not others, R, "validate:single-exit", m, f.node, "no other return (no shortcut that accepts)", f"line {others[0].lineno}" if others else "")
    # the registry uses this calculator in both generations
    for gen in ("at4", "at5"):
        rm = ctx.repo.module(f"pyairtouch.{gen}.comms.registry")
        inst = rm.get_const_expr("INSTANCE")
        kw = {k.arg: k.value for k in inst.keywords} if isinstance(inst, ast.Call) else {}
        cc = kw.get("checksum_calculator")
        ok = isinstance(cc, ast.Call) and ctx.repo.qual(rm, cc.func) == f"{CRC}.Crc16Modbus"
        ctx.check(ok, R, f"{gen}:registry:checksum_calculator", rm, inst, "checksum_calculator=Crc16Modbus()", norm_text(cc) if cc is not None else "missing")


def _inline_helper(repo, m, e):
    """f(x) with f a module-level function whose body is a single `return <expr>` -> <expr>[param := x]; else e."""
    import copy

    if isinstance(e, ast.Call) and isinstance(e.func, ast.Name) and e.func.id in m.functions and len(e.args) == 1 and not e.keywords:
        fn = m.functions[e.func.id]
        body = [st for st in fn.body if not (isinstance(st, ast.Expr) and isinstance(st.value, ast.Constant))]
        if len(body) == 1 and isinstance(body[0], ast.Return) and body[0].value is not None and len(fn.args.args) == 1:
            pname = fn.args.args[0].arg
            arg = e.args[0]

            class Sub(ast.NodeTransformer):
                def visit_Name(self, n):
                    return copy.deepcopy(arg) if n.id == pname else n

            return Sub().visit(copy.deepcopy(body[0].value))
    return e


def _span(ctx, hm, f, node, expr, base_pred, size):
    """(lo, hi, text) of a checksum span expression when it is a constant-position slice of the header buffer; else (None, None, text)."""
    e = _inline_helper(ctx.repo, hm, expr)
    if isinstance(e, ast.Name) and not base_pred(e) and node is not None and f is not None:
        # the span held in a local (`checksum_data = header_bytes[2:]`): read what it stands for, keeping the buffer's own name
        keep = {x.id for x in ast.walk(f.node) if isinstance(x, ast.Name) and base_pred(ast.Name(id=x.id, ctx=ast.Load()))}
        try:
            e = f.expand(e, node, keep=keep)
        except Exception:
            pass
    # slice bounds held in locals (e.g. `end = _STRUCT.size`) read as what they stand for
    if isinstance(e, ast.Subscript) and isinstance(e.slice, ast.Slice) and node is not None and f is not None:
        for fld in ("lower", "upper"):
            b = getattr(e.slice, fld)
            if b is not None and ctx.repo.try_fold(hm, b) is None:
                try:
                    setattr(e.slice, fld, f.expand(b, node))
                except Exception:
                    pass
    # unwrap bytes(...)
    while isinstance(e, ast.Call) and dotted(e.func) in ("bytes", "bytearray", "memoryview") and len(e.args) == 1:
        e = e.args[0]
    if isinstance(e, ast.Subscript) and isinstance(e.slice, ast.Slice) and e.slice.step is None and base_pred(e.value):
        lo = ctx.repo.try_fold(hm, e.slice.lower) if e.slice.lower is not None else 0
        hi = ctx.repo.try_fold(hm, e.slice.upper) if e.slice.upper is not None else size
        # nested slice buffer[:size][k:]
        return lo, hi, norm_text(e)
    if isinstance(e, ast.Subscript) and isinstance(e.slice, ast.Slice) and isinstance(e.value, ast.Subscript) and isinstance(e.value.slice, ast.Slice) and base_pred(e.value.value):
        inner = e.value.slice
        ilo = ctx.repo.try_fold(hm, inner.lower) if inner.lower is not None else 0
        ihi = ctx.repo.try_fold(hm, inner.upper) if inner.upper is not None else size
        lo = ctx.repo.try_fold(hm, e.slice.lower) if e.slice.lower is not None else 0
        hi = ctx.repo.try_fold(hm, e.slice.upper) if e.slice.upper is not None else None
        if all(isinstance(x, int) for x in (ilo, ihi, lo)) and (hi is None or isinstance(hi, int)):
            return ilo + lo, (ihi if hi is None else min(ihi, ilo + hi)), norm_text(e)
    return None, None, norm_text(e)


def r4(ctx):
    R = "C06.R4"
    for gen in ("at4", "at5"):
        hm = ctx.repo.module(f"pyairtouch.{gen}.comms.hdr")
        st = ctx.repo.try_fold(hm, hm.get_const_expr("_STRUCT"))
        ctx.require(st is not None, f"{hm.relpath}: _STRUCT not foldable")
        enc = Fn(ctx.repo, hm, "HeaderEncoder.encode")
        dec = Fn(ctx.repo, hm, "HeaderDecoder.decode")
        ctx.fn(hm, "HeaderEncoder.encode")
        ctx.fn(hm, "HeaderDecoder.decode")
        packed, hb, cd = codec.header_encoding(ctx.repo, hm)
        to_off = next((i for i, d in enumerate(hb) if isinstance(d, tuple) and d and isinstance(d[0], tuple) and str(d[0][1]).endswith(".to_address")), None)
        ctx.require(to_off is not None, f"{hm.relpath}: header.to_address is not packed")
        to_slot = next(sl for sl in packed.struct.slots if sl.offset == to_off)
        want = f"[{to_off}:{st.size}]"
        ok = len(hb) == st.size and cd == hb[to_off:]
        if ok:
            found = ""
        elif len(hb) != st.size:
            found = f"the encoder builds {len(hb)} header bytes, the decoder's struct has {st.size}"
        else:
            # where in the header do the checksum bytes come from?
            pos = next((i for i in range(len(hb) - len(cd) + 1) if hb[i:i + len(cd)] == cd), None) if cd else None
            found = f"header_bytes[{pos}:{pos + len(cd)}]" if pos is not None else f"{len(cd)} bytes that are not a fixed-position slice of the packed header (a value-dependent span changes with the bytes it contains)"
        ctx.check(ok, R, f"{gen}:HeaderEncoder:checksum_data", hm, enc.node, f"checksum_data = header_bytes{want}: from the to-address byte to the end of the header (prefix{' and outer header' if gen == 'at5' else ''} excluded)", found)
        res = [(n, c) for n, c in dec.calls("HeaderDecodeResult")]
        ok = False
        found = "no HeaderDecodeResult"
        for node, c in res:
            kw = {k.arg: k.value for k in c.keywords}
            cd = kw.get("checksum_data")
            if cd is None:
                continue
            lo, hi, txt = _span(ctx, hm, dec, node, cd, lambda e: dotted(e) == dec.params[1], None)
            ok = lo == to_slot.offset and hi == st.size
            found = f"{dec.params[1]}[{lo}:{hi}]" if lo is not None else f"`{txt}` is not a fixed-position slice of the received header"
        ctx.check(ok, R, f"{gen}:HeaderDecoder:checksum_data", hm, dec.node, f"checksum_data = buffer{want} (same span as the encoder)", found)
    # socket: write path (C01.R1 checks the full expression) and read path
    rd = sock_fn(ctx, "_read_one_message")
    m = rd.module
    vals = rd.calls("checksum_calculator.validate")
    ok = False
    found = "no validate call"
    exact = [(n, c) for n, c in rd.calls("readexactly")]
    exact.sort(key=lambda nc: len(rd.cfg.dominators().get(nc[0].id, ())))
    bufs = [n.ast.targets[0].id if isinstance(n.ast, ast.Assign) and isinstance(n.ast.targets[0], ast.Name) else None for n, c in exact]
    for n, c in vals:
        if len(c.args) == 2 and len(bufs) == 3:
            a0 = rd.expand(c.args[0], n, keep=set(b for b in bufs if b))
            terms = [norm_text(t) for t in flatten_add(a0)]
            want = [f"self._registry.header_decoder.decode({bufs[0]}).checksum_data", bufs[1]]
            ok = terms == want and dotted(c.args[1]) == bufs[2]
            found = f"validate({' + '.join(terms)}, {norm_text(c.args[1])})"
            if ok:
                for nm, (rn, _) in zip(bufs, exact):
                    ds = rd.defs_reaching(nm, n)
                    if ds != [rn]:
                        ok = False
                        other = [d for d in ds if d is not rn]
                        found = f"`{nm}` may have been rebound between the read and the validation (line {other[0].lineno}: {norm_text(other[0].ast)[:70]})" if other else f"`{nm}` is not the value read from the stream"
    ctx.check(ok, R, "_read_one_message:validated-span", m, rd.node, "validate(header_result.checksum_data + <payload bytes>, <the two bytes read last>)", found)
    w = sock_fn(ctx, "_write")
    cs = w.calls("checksum_calculator.calculate")
    ok = False
    found = "no calculate call"
    for n, c in cs:
        terms = [norm_text(t) for t in flatten_add(w.expand(c.args[0], n))] if c.args else []
        ok = terms == ["self._registry.header_encoder.encode(header).checksum_data", "self._registry.get_encoder(message.message_id).encode(header, message)"]
        found = " + ".join(terms)
    ctx.check(ok, R, "_write:summed-span", m, w.node, "calculate(encoded_header.checksum_data + message_bytes)", found)


def r5(ctx):
    R = "C06.R5"
    rd = sock_fn(ctx, "_read_one_message")
    m, g = rd.module, rd.cfg
    tests = rd.tests(lambda e: isinstance(e, ast.Call) and (dotted(e.func) or "").endswith("checksum_calculator.validate"))
    if len(tests) != 1:
        ctx.violation(R, "_read_one_message:validate-test", m, rd.node, "one branch on checksum_calculator.validate(...)", f"{len(tests)} tests")
        return
    t = tests[0]
    ok_b, bad_b = rd.branch(t, "true"), rd.branch(t, "false")
    decs = [n for n, c in rd.calls("message_decoder.decode")] + [n for n, c in rd.calls("get_decoder")]
    succ = [n for n in g.nodes if n.kind == "stmt" and isinstance(n.ast, ast.Return) and isinstance(n.ast.value, ast.Tuple)]
    ctx.check(bool(succ) and all(g.dominates(ok_b.id, n.id) for n in succ), R, "_read_one_message:success-needs-valid-crc", m, t.ast, "the (header, message) return is dominated by the passed validation", "a success return is reachable without a valid checksum")
    ctx.check(bool(decs) and all(g.dominates(ok_b.id, n.id) for n in decs), R, "_read_one_message:decode-needs-valid-crc", m, t.ast, "the payload is decoded only after the checksum was validated", "decode reachable without validation")
    reach = g.reachable(bad_b.id, labels=NONEXC)
    leaks = [n for n in decs + succ if n.id in reach]
    ctx.check(not leaks, R, "_read_one_message:failed-crc-returns-none", m, t.ast, "every path from a failed validation returns None; none continues to decode or to the success return", f"line {leaks[0].lineno} is reachable after a failed validation (e.g. the return sits under a logging guard)" if leaks else "")
    nones = [n for n in g.nodes if n.kind == "stmt" and isinstance(n.ast, ast.Return) and (n.ast.value is None or (isinstance(n.ast.value, ast.Constant) and n.ast.value.value is None)) and n.id in reach]
    ctx.check(bool(nones), R, "_read_one_message:failed-crc-result", m, t.ast, "the failed branch returns None (the read loop then resets the connection)", "no `return None` on the failed branch")
    f = sock_fn(ctx, "_read")
    reads = [n for n, c in f.calls("self._read_one_message")]
    a = reads[0].ast if reads else None
    var = a.targets[0].id if isinstance(a, ast.Assign) and isinstance(a.targets[0], ast.Name) else None
    ts = f.tests(lambda e: isinstance(e, ast.Name) and e.id == var)
    nots = [n for n, c in f.calls("self._notify_message_received")]
    resets = [n for n, c in f.calls("self.reset_connection")]
    ok = bool(ts) and bool(nots) and all(f.cfg.dominates(f.branch(x, "true").id, n.id) for x in ts for n in nots) and any(f.cfg.dominates(f.branch(x, "false").id, r.id) for x in ts for r in resets)
    ctx.check(ok, R, "_read:none-is-not-delivered", m, f.node, "a None result notifies nobody and resets the connection (later intact frames are delivered on the new connection)", "delivery or reset not tied to the result")
