"""C12 - subscribers hear about every change, and only about changes (structural clauses)."""
from __future__ import annotations

import ast

from ..model import AnalysisError, dotted, norm_text, unparse, walk_no_nested
from ..q import NONEXC, Fn, attr_uses, iter_functions, package_calls
from .common import AT4_API, AT5_API, SOCKET, SOCK_CLS, fn_of

LEVEL = "other"
EXPLANATION = (
    "Static analysis of both api.py and the socket: R1 in every update_* method and _process_console_version_update the old record is read before"
    " the new one is stored, every notification is control-dependent on `old != new`, every path on which they differ notifies exactly once (so "
    "identical reports notify nobody and changed ones always do); R2 the identifier passed is the entity's own id; R3 AC updates notify "
    "_subscribers | _subscribers_ac_state, zone forwarding notifies _subscribers only and goes through _notify_subscribers, each AC subscribes "
    "_zone_updated to exactly its own zones; subscribers are never awaited outside _notify_subscribers; R4 all subscriber containers are sets "
    "mutated only by add/discard of the parameter in the subscribe*/unsubscribe* methods; R6 stored records are never mutated in place (no "
    "attribute store or mutating call on a stored record or on the incoming one), which would defeat the old != new comparison; R5 per-callback "
    "exception isolation in the three _notify_subscribers (C07.R7 re-used). Ordering between concurrently completing callbacks is not decided."
    ' Added later: R3 also demands that a subscriber container is read when the notification is issued - no await between reading it and calling the subscribers (unsubscribing stops further calls).'
    ' Rounds 7-8: R1 also: the change test is reached on every normal path (no other condition decides first whether a change is reported).'
    ' Rounds 9-10: R9 (C07.R2/R7 re-used): a reset issued by another task cancels nothing, and nothing a subscriber raises - nor a collected gather() result - leaves the notifier.'
)
ASSUMPTIONS = ["dataclass __eq__ compares all fields (the records are @dataclass without eq=False)", "set.add is idempotent, set.discard removes"]
FLOORS = {"C12.R1": 27, "C12.R2": 9, "C12.R3": 8, "C12.R4": 20, "C12.R5": 3, "C12.R6": 1, "C12.R7": 1, "C12.R8": 1, "C12.R9": 1}

UPDATE_FUNCS = [
    (AT4_API, "At4Zone", "update_"),
    (AT4_API, "At4AirConditioner", "update_"),
    (AT4_API, "AirTouch4", "_process_console_version_update"),
    (AT5_API, "At5Zone", "update_"),
    (AT5_API, "At5AirConditioner", "update_"),
    (AT5_API, "AirTouch5", "_process_console_version_update"),
]
ID_EXPR = {"At4Zone": "self.zone_id", "At5Zone": "self.zone_id", "At4AirConditioner": "self.ac_id", "At5AirConditioner": "self.ac_id", "AirTouch4": "self._airtouch_id", "AirTouch5": "self._airtouch_id"}


def run(ctx):
    r1(ctx)
    r2(ctx)
    r3(ctx)
    r4(ctx)
    r5(ctx)
    r6(ctx)
    from . import c09
    from .common import reuse

    from . import c10

    from . import c07

    reuse(ctx, "C12.R9", [c07.r2, c07.r7], "a frame that is being delivered is delivered to the end: a connection reset issued by another task cancels nothing (the read loop finishes the frame, then finds its reader gone), and nothing a subscriber raises leaves the notifier (C07.R2/R7)",
          keep=lambda o: "cancels-nothing" in o.construct or "isolation" in o.construct or o.verdict != "HOLDS")
    reuse(ctx, "C12.R8", [c10.r4], "every record of a frame is dispatched to its own entity (unknown ids are skipped, the loop goes on), so every change reaches the subscribers of its entity (C10.R4)")
    reuse(ctx, "C12.R7", [lambda c: c09.r5(c, AT4_API), lambda c: c09.r5(c, AT5_API)], "each air-conditioner is given exactly the zones the console assigns to it, so zone changes reach the subscribers of the owning air-conditioner and of no other (C09.R5)")


RECORDS = ("_ac_status", "_ac_timer_status", "_group_status", "_zone_status", "_console_version", "_ac_ability", "_ac_error_info")


def r6(ctx):
    """The stored records are replaced, never modified: change detection compares the stored record with the new one, so an
    in-place write (directly or through a local alias) makes the next identical report look unchanged and shows unconfirmed values."""
    R = "C12.R6"
    n_fn = 0
    for modname in (AT4_API, AT5_API):
        m = ctx.repo.module(modname)
        for qual, fnode in iter_functions(m):
            if ".<locals>." in qual or "." not in qual:
                continue
            writes = []
            for st in walk_no_nested(fnode):
                tg = []
                if isinstance(st, ast.Assign):
                    tg = st.targets
                elif isinstance(st, (ast.AugAssign, ast.AnnAssign)):
                    tg = [st.target]
                for t in tg:
                    if isinstance(t, (ast.Attribute, ast.Subscript)) and not (isinstance(t, ast.Attribute) and isinstance(t.value, ast.Name) and t.value.id == "self"):
                        writes.append((st, t))
                if isinstance(st, ast.Call) and isinstance(st.func, ast.Attribute) and st.func.attr in ("append", "extend", "insert", "update", "clear", "pop", "remove", "__setattr__") and not isinstance(st.func.value, ast.Name):
                    pass
            if not writes:
                continue
            n_fn += 1
            f = Fn(ctx.repo, m, qual)
            for st, t in writes:
                node = next((n for n in f.cfg.nodes if n.ast is st), None)
                base = t.value
                txt = f.expand_text(base, node) if node is not None else norm_text(base)
                bad = any(txt == f"self.{r}" or txt.startswith(f"self.{r}.") or txt.startswith(f"self.{r}[") for r in RECORDS)
                ctx.check(not bad, R, f"{qual}:write({norm_text(t)})", m, st, "stored status records are replaced as a whole, never written in place (also not through a local alias)", f"`{norm_text(st)[:90]}` modifies {txt}")
    ctx.holds(R, "api:in-place-writes-census", ctx.repo.module(AT5_API), None, f"{n_fn} functions with attribute/item writes inspected")


def update_functions(ctx):
    out = []
    for modname, clsname, prefix in UPDATE_FUNCS:
        m = ctx.repo.module(modname)
        ci = m.get_class(clsname)
        names = [n for n in ci.methods if n.startswith(prefix)]
        ctx.require(names, f"{m.relpath}: no {clsname}.{prefix}* method")
        for n in names:
            out.append((modname, clsname, n))
    return out


def analyse_update(ctx, modname, clsname, name):
    """Returns dict with the pieces of the read-old / store-new / compare / notify structure."""
    f = fn_of(ctx, modname, f"{clsname}.{name}")
    g = f.cfg
    data_param = f.params[1] if len(f.params) > 1 else None
    # store: self.X = <data_param>
    stores = []
    for n in g.nodes:
        if n.kind == "stmt" and isinstance(n.ast, ast.Assign) and len(n.ast.targets) == 1:
            t, v = n.ast.targets[0], n.ast.value
            if isinstance(t, ast.Attribute) and isinstance(t.value, ast.Name) and t.value.id == "self" and isinstance(v, ast.Name) and v.id == data_param:
                stores.append((n, t.attr))
    olds = []
    for n in g.nodes:
        if n.kind == "stmt" and isinstance(n.ast, ast.Assign) and len(n.ast.targets) == 1 and isinstance(n.ast.targets[0], ast.Name):
            v = n.ast.value
            if isinstance(v, ast.Attribute) and isinstance(v.value, ast.Name) and v.value.id == "self" and any(v.attr == a for _, a in stores):
                olds.append((n, n.ast.targets[0].id, v.attr))
    notifies = [n for n, c in f.calls("_notify_subscribers") if n.awaits]
    changed = []  # branch nodes on which old != new
    for t in f.tests(lambda e: isinstance(e, ast.Compare) and len(e.ops) == 1 and isinstance(e.ops[0], (ast.NotEq, ast.Eq))):
        l, r = t.ast.left, t.ast.comparators[0]
        names = {x.id for x in (l, r) if isinstance(x, ast.Name)}
        for on, oname, attr in olds:
            if names == {oname, data_param}:
                # the old value compared must be the one read before the store
                if f.defs_reaching(oname, t) == [on]:
                    changed.append((t, f.branch(t, "true" if isinstance(t.ast.ops[0], ast.NotEq) else "false"), f.branch(t, "false" if isinstance(t.ast.ops[0], ast.NotEq) else "true")))
    # other spellings of "did the record change": comparing self.X with the new record before the store, directly in the
    # test or through a flag (`changed = self.X != new` ... `if changed:`)
    attrs = {a for _, a in stores}

    def prev_vs_new(e):
        """(attr, is_noteq) when e is `self.<attr> ==/!= <param>` (either order)"""
        if isinstance(e, ast.Compare) and len(e.ops) == 1 and isinstance(e.ops[0], (ast.NotEq, ast.Eq)):
            l, r = e.left, e.comparators[0]
            for x, y in ((l, r), (r, l)):
                if isinstance(x, ast.Attribute) and isinstance(x.value, ast.Name) and x.value.id == "self" and x.attr in attrs and isinstance(y, ast.Name) and y.id == data_param:
                    return x.attr, isinstance(e.ops[0], ast.NotEq)
        return None

    def before_store(n, attr):
        sn = [x for x, a_ in stores if a_ == attr]
        return bool(sn) and all(g.dominates(n.id, x.id) and not g.exists_path(x.id, n.id) for x in sn)

    for t in f.tests(lambda e: prev_vs_new(e) is not None):
        attr, ne = prev_vs_new(t.ast)
        if before_store(t, attr):
            olds.append((t, None, attr))
            changed.append((t, f.branch(t, "true" if ne else "false"), f.branch(t, "false" if ne else "true")))
    for n in g.nodes:
        if n.kind == "stmt" and isinstance(n.ast, ast.Assign) and len(n.ast.targets) == 1 and isinstance(n.ast.targets[0], ast.Name) and prev_vs_new(n.ast.value) is not None:
            attr, ne = prev_vs_new(n.ast.value)
            flag = n.ast.targets[0].id
            if not before_store(n, attr):
                continue
            olds.append((n, None, attr))
            for t in f.tests(lambda e: isinstance(e, ast.Name) and e.id == flag):
                if f.defs_reaching(flag, t) == [n]:
                    changed.append((t, f.branch(t, "true" if ne else "false"), f.branch(t, "false" if ne else "true")))
    return dict(fn=f, data_param=data_param, stores=stores, olds=olds, notifies=notifies, changed=changed)


def r1(ctx):
    R = "C12.R1"
    for modname, clsname, name in update_functions(ctx):
        a = analyse_update(ctx, modname, clsname, name)
        f, g, m = a["fn"], a["fn"].cfg, a["fn"].module
        lab = f"{clsname}.{name}"
        if not a["stores"] or not a["olds"]:
            ctx.violation(R, f"{lab}:old-then-store", m, f.node, "old = self.<record>; self.<record> = <new record>", f"stores: {len(a['stores'])}, old reads: {len(a['olds'])}")
            continue
        sn, attr = a["stores"][0]
        on = next((o for o in a["olds"] if o[2] == attr), None)
        ok = on is not None and g.dominates(on[0].id, sn.id) and not g.exists_path(sn.id, on[0].id)
        ctx.check(ok, R, f"{lab}:old-read-before-store", m, sn.ast, f"the previous self.{attr} is read before it is overwritten", "old value read after the store (always equal to the new one)")
        if not a["changed"]:
            ctx.violation(R, f"{lab}:compare", m, f.node, "notification is decided by `old != new`", "no comparison between the old record and the new one" + ("" if a["notifies"] else "; and no notification"))
            continue
        t, cb, sb = a["changed"][0]
        if not a["notifies"]:
            ctx.violation(R, f"{lab}:notifies", m, f.node, "a change notifies the subscribers", "no awaited _notify_subscribers call")
            continue
        ok = all(g.dominates(cb.id, n.id) for n in a["notifies"])
        ctx.check(ok, R, f"{lab}:only-on-change", m, a["notifies"][0].ast, "every notification is dominated by the `old != new` branch (an identical report notifies nobody)", "a notification is reachable when the record did not change")
        ok = g.all_paths_pass(cb.id, [g.exit.id], [n.id for n in a["notifies"]], NONEXC)
        ctx.check(ok, R, f"{lab}:always-on-change", m, t.ast, "every normal path on which the record changed awaits _notify_subscribers", "a changed record can leave the method without notifying (e.g. the notification sits in only one branch)")
        ok = g.all_paths_pass(g.entry.id, [g.exit.id], [t.id], NONEXC)
        ctx.check(ok, R, f"{lab}:change-test-always-evaluated", m, t.ast, "the `old != new` test is reached on every normal path (no other condition decides first whether a change is reported)", "a path returns before or around the change test: a changed record can go unreported")
        twice = any(g.exists_path(n1.id, n2.id, labels=NONEXC) for n1 in a["notifies"] for n2 in a["notifies"])
        ctx.check(not twice, R, f"{lab}:once", m, a["notifies"][0].ast, "at most one notification per update", "two notifications on one path")


def _notify_elements(ctx, f: Fn, call: ast.Call, at=None):
    """(iterated container expr text, list of arg texts of the subscriber call) of `_notify_subscribers([s(x) for s in C])`"""
    if not call.args:
        return None
    at = at if at is not None else next((n for n, c in f.calls("_notify_subscribers") if c is call), None)
    a = f.expand(call.args[0], at) if at is not None else call.args[0]
    if isinstance(a, (ast.ListComp, ast.GeneratorExp)) and len(a.generators) == 1 and isinstance(a.generators[0].target, ast.Name):
        v = a.generators[0].target.id
        if isinstance(a.elt, ast.Call) and isinstance(a.elt.func, ast.Name) and a.elt.func.id == v and not a.generators[0].ifs:
            return norm_text(f.expand(a.generators[0].iter, at) if at is not None else a.generators[0].iter), [norm_text(x) for x in a.elt.args] + [f"{k.arg}={norm_text(k.value)}" for k in a.elt.keywords]
    return None


def r2(ctx):
    R = "C12.R2"
    todo = list(update_functions(ctx)) + [(AT4_API, "At4AirConditioner", "_zone_updated"), (AT5_API, "At5AirConditioner", "_zone_updated")]
    for modname, clsname, name in todo:
        f = fn_of(ctx, modname, f"{clsname}.{name}")
        m = f.module
        for n, c in f.calls("_notify_subscribers"):
            el = _notify_elements(ctx, f, c)
            ok = el is not None and el[1] == [ID_EXPR[clsname]]
            ctx.check(ok, R, f"{clsname}.{name}:identifier", m, c, f"each subscriber is called with {ID_EXPR[clsname]}", (f"s({', '.join(el[1])})" if el else norm_text(c)[:100]))


def r3(ctx):
    R = "C12.R3"
    union = ("self._subscribers.union(self._subscribers_ac_state)", "self._subscribers_ac_state.union(self._subscribers)", "self._subscribers | self._subscribers_ac_state", "self._subscribers_ac_state | self._subscribers")
    for modname, clsname in ((AT4_API, "At4AirConditioner"), (AT5_API, "At5AirConditioner")):
        m = ctx.repo.module(modname)
        ci = m.get_class(clsname)
        for name in [n for n in ci.methods if n.startswith("update_")]:
            f = fn_of(ctx, modname, f"{clsname}.{name}")
            for n, c in f.calls("_notify_subscribers"):
                el = _notify_elements(ctx, f, c)
                ctx.check(el is not None and el[0] in union, R, f"{clsname}.{name}:audience", m, c, "AC changes reach general and AC-state-only subscribers (union of both sets)", el[0] if el else norm_text(c)[:80])
        zu = fn_of(ctx, modname, f"{clsname}._zone_updated")
        calls = zu.calls("_notify_subscribers")
        ok = len(calls) == 1 and calls[0][0].awaits
        el = _notify_elements(ctx, zu, calls[0][1]) if calls else None
        ctx.check(ok and el is not None and el[0] == "self._subscribers", R, f"{clsname}._zone_updated:audience", m, zu.node, "zone changes are forwarded through _notify_subscribers to the general subscribers only", (el[0] if el else "subscribers are not notified through _notify_subscribers"))
        init = fn_of(ctx, modname, f"{clsname}.__init__")
        subs = init.calls("subscribe")
        ok = False
        found = "no zone.subscribe(self._zone_updated) loop over self._zones"
        for lp in [x for x in ast.walk(init.node) if isinstance(x, ast.For)]:
            if dotted(lp.iter) in ("self._zones", "zones") and isinstance(lp.target, ast.Name):
                for x in ast.walk(lp):
                    if isinstance(x, ast.Call) and dotted(x.func) == f"{lp.target.id}.subscribe" and x.args and dotted(x.args[0]) == "self._zone_updated":
                        ok = True
        ctx.check(ok, R, f"{clsname}.__init__:subscribes-own-zones", m, init.node, "the AC subscribes _zone_updated to each of its own zones", found)
        zs = [v for n, v in init.assigns("self._zones")]
        ctx.check(len(zs) == 1 and dotted(zs[0]) == "zones", R, f"{clsname}.__init__:zones", m, init.node, "self._zones is the constructor argument", ", ".join(unparse(z) for z in zs))
    # the audience is read when the notification is issued: a snapshot of a subscriber set taken before an await would still
    # call a subscriber that unsubscribed while the coroutine was suspended
    for modname in (AT4_API, AT5_API, SOCKET):
        m = ctx.repo.module(modname)
        n_calls = 0
        stale = []
        for qual, fnode in iter_functions(m):
            if ".<locals>." in qual or "." not in qual:
                continue
            if not any(isinstance(x, ast.Call) and (dotted(x.func) or "").endswith("_notify_subscribers") for x in walk_no_nested(fnode)):
                continue
            f = Fn(ctx.repo, m, qual)
            for n, c in f.calls("_notify_subscribers"):
                n_calls += 1
                for x in ast.walk(c):
                    if isinstance(x, ast.Name) and isinstance(x.ctx, ast.Load):
                        for d in f.defs_reaching(x.id, n):
                            val = getattr(d.ast, "value", None) if d.kind == "stmt" else None
                            if val is not None and "subscribers" in norm_text(val) and "_notify" not in norm_text(val):
                                aw = [a_ for a_ in f.awaits_between(d, n) if a_.id != n.id]
                                if aw or d.awaits:
                                    stale.append((qual, x.id, d, aw[0] if aw else d))
        ctx.check(not stale, R, f"{modname.split('.', 1)[1]}:audience-read-at-notification", m, (stale[0][2].ast if stale else None), "the subscriber set is read when the notification is issued, not before an earlier await (unsubscribing stops further calls)",
                  "; ".join(f"{q}: `{v}` is taken at line {d.lineno}, the coroutine can suspend at line {a_.lineno} before the subscribers are called" for q, v, d, a_ in stale[:3]) or f"{n_calls} notification sites")
    # subscribers are only ever invoked inside the argument of _notify_subscribers
    for modname in (AT4_API, AT5_API, SOCKET):
        m = ctx.repo.module(modname)
        stray = []
        for qual, fnode in iter_functions(m):
            if ".<locals>." in qual:
                continue
            inside = set()
            for x in walk_no_nested(fnode):
                if isinstance(x, ast.Call) and (dotted(x.func) or "").endswith("_notify_subscribers"):
                    for y in ast.walk(x):
                        inside.add(id(y))
            for x in walk_no_nested(fnode):
                it = None
                if isinstance(x, (ast.For, ast.AsyncFor)):
                    it = x.iter
                elif isinstance(x, ast.comprehension):
                    it = x.iter
                if it is not None and "subscribers" in (norm_text(it)) and "_notify" not in norm_text(it) and id(x) not in inside:
                    stray.append((qual, x))
        ctx.check(not stray, R, f"{modname.split('.', 1)[1]}:subscribers-only-via-notify", m, (stray[0][1] if stray and hasattr(stray[0][1], "lineno") else None), "subscriber sets are iterated only to build the argument of _notify_subscribers (which isolates failures)", "; ".join(q for q, _ in stray))


def r4(ctx):
    R = "C12.R4"
    spec = [
        (AT4_API, "At4Zone", {"subscribe": ("_subscribers", "add"), "unsubscribe": ("_subscribers", "discard")}),
        (AT5_API, "At5Zone", {"subscribe": ("_subscribers", "add"), "unsubscribe": ("_subscribers", "discard")}),
        (AT4_API, "At4AirConditioner", {"subscribe": ("_subscribers", "add"), "unsubscribe": ("_subscribers", "discard"), "subscribe_ac_state": ("_subscribers_ac_state", "add"), "unsubscribe_ac_state": ("_subscribers_ac_state", "discard")}),
        (AT5_API, "At5AirConditioner", {"subscribe": ("_subscribers", "add"), "unsubscribe": ("_subscribers", "discard"), "subscribe_ac_state": ("_subscribers_ac_state", "add"), "unsubscribe_ac_state": ("_subscribers_ac_state", "discard")}),
        (AT4_API, "AirTouch4", {"subscribe": ("_subscribers", "add"), "unsubscribe": ("_subscribers", "discard")}),
        (AT5_API, "AirTouch5", {"subscribe": ("_subscribers", "add"), "unsubscribe": ("_subscribers", "discard")}),
        (SOCKET, SOCK_CLS, {"subscribe_on_connection_changed": ("_connection_subscribers", "add"), "unsubscribe_on_connection_changed": ("_connection_subscribers", "discard"), "subscribe_on_message_received": ("_message_subscribers", "add"), "unsubcribe_on_message_received": ("_message_subscribers", "discard")}),
    ]
    for modname, clsname, methods in spec:
        m = ctx.repo.module(modname)
        ci = m.get_class(clsname)
        containers = sorted({c for c, _ in methods.values()})
        init = ci.methods.get("__init__")
        ctx.require(init is not None, f"{m.relpath}: {clsname}.__init__ vanished")
        for cont in containers:
            vals = []
            for x in walk_no_nested(init):
                if isinstance(x, (ast.Assign, ast.AnnAssign)):
                    tg = x.targets[0] if isinstance(x, ast.Assign) else x.target
                    if dotted(tg) == f"self.{cont}" and x.value is not None:
                        vals.append(x.value)
            ok = len(vals) == 1 and isinstance(vals[0], ast.Call) and dotted(vals[0].func) == "set" and not vals[0].args
            ctx.check(ok, R, f"{clsname}.{cont}:is-a-set", m, init, "created as an empty set() (subscribing twice has no extra effect)", ", ".join(unparse(v) for v in vals) or "not created in __init__")
        for meth, (cont, op) in methods.items():
            fnode = ci.methods.get(meth)
            if fnode is None:
                ctx.violation(R, f"{clsname}.{meth}", m, ci.node, f"method exists and does self.{cont}.{op}(subscriber)", "method missing")
                continue
            p = fnode.args.args[1].arg if len(fnode.args.args) > 1 else None
            calls = [x for x in walk_no_nested(fnode) if isinstance(x, ast.Call)]
            ok = len(calls) == 1 and dotted(calls[0].func) == f"self.{cont}.{op}" and len(calls[0].args) == 1 and dotted(calls[0].args[0]) == p
            stmts = [s for s in fnode.body if not (isinstance(s, ast.Expr) and isinstance(s.value, ast.Constant))]
            ok = ok and len(stmts) == 1 and isinstance(stmts[0], ast.Expr)
            ctx.check(ok, R, f"{clsname}.{meth}", m, fnode, f"exactly self.{cont}.{op}({p})", "; ".join(norm_text(s)[:60] for s in stmts))
        # no other mutation of the containers anywhere
        for cont in containers:
            bad = []
            for mm, qual, node, parent in attr_uses(ctx.repo, cont):
                if mm is not m or not qual.startswith(clsname + "."):
                    continue
                if isinstance(parent, ast.Attribute) and parent.value is node and parent.attr in ("add", "discard", "remove", "clear", "pop", "update", "difference_update", "intersection_update", "symmetric_difference_update"):
                    if qual.split(".")[-1] not in methods:
                        bad.append(f"{qual}: .{parent.attr}")
                if isinstance(node.ctx, ast.Store) and not qual.endswith(".__init__"):
                    bad.append(f"{qual}: reassigned")
            ctx.check(not bad, R, f"{clsname}.{cont}:mutated-only-by-(un)subscribe", m, ci.node, "only the subscribe/unsubscribe methods change the set", "; ".join(bad))


def r5(ctx):
    from .c07 import check_notify_isolation

    check_notify_isolation(ctx, "C12.R5", SOCKET, f"{SOCK_CLS}._notify_subscribers")
    check_notify_isolation(ctx, "C12.R5", AT4_API, "_notify_subscribers")
    check_notify_isolation(ctx, "C12.R5", AT5_API, "_notify_subscribers")
