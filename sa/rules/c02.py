"""C02 - retry discipline (structural clauses)."""
from __future__ import annotations

import ast

from ..model import AnalysisError, DCVal, EnumVal, NotConst, dotted, norm_text, unparse, walk_no_nested
from ..q import NONEXC, Fn, bool_atoms, cmp_oriented, eval_bool, iter_functions, package_calls
from .common import AT4_API, AT5_API, HEARTBEAT, SOCKET, SOCK_CLS, fn_of, loop_time_call, sock_fn
from .c01 import popped_entry_var

LEVEL = "other"
EXPLANATION = (
    'Static analysis of socket.py, heartbeat.py and both api.py: R1 the retry budget strictly decreases and the re-queue is control-dependent on budget > 0 '
    '(branch dominance + constant folding); R2 an expiry comparison in strict normal form `now < entry.expiry`, with `now` read from the loop clock after '
    'the entry was popped, dominates every write, the expiry is fixed at acceptance and copied unchanged; R3 the retried entry goes to the head; R4 folded '
    'policy constants; R5 every request send site uses the 1 s policy; R6 for every private command sender the accumulating constructs (derived from the '
    'parameter types: members TOGGLE/CHANGE and *IncreaseDecrease classes that can reach the sender) force the no-retry policy, decided by three-valued '
    'evaluation of the selecting condition plus a value-set analysis of the call sites. Necessary conditions only; fault timing is not decided. R7 the '
    'pending queue is mutated only by its owner functions and only at the documented end (C01.R2 re-evaluated: a wipe of the queue in the disconnect path '
    'loses commands that are still within their lifetime).'
    ' Added later: R2 also demands that nothing suspends between the expiry test and the bytes reaching the stream (no await in the drain between test and _write, none in _write before the first write); R6 decides every accumulating construct the selecting condition names even when no caller passes it today.'
    ' Rounds 7-8: R2 also: _write raises of its own accord only when no writer is stored (a connection condition must surface as OSError so that the message is re-queued); R3 also: the failed entry is back in the queue before the handler first suspends; R5 also: commands keep their 30 s lifetime and a fixed-policy command is RETRY_IDEMPOTENT.'
    " Rounds 9-10: R1 also: the converse of the budget rule (a failed entry with budget left is given up only because the socket was closed) and the in-flight entry is a local of the drain call; R2 also: _write contains no try/suppress (write faults reach the drain's handler) and no statement of the package assigns max_lifetime/max_retries of a policy object; R10 (C01.R11/R12 re-used)."
)
ASSUMPTIONS = [
    "the event-loop clock is monotonic",
    "vendor protocol: toggle / +-1 step / control-method change accumulate when repeated (AirTouch 4 v1.6 p.4,7; AirTouch 5 v1.2 p.5,8)",
]
FLOORS = {"C02.R1": 3, "C02.R2": 4, "C02.R3": 1, "C02.R4": 5, "C02.R5": 20, "C02.R6": 8, "C02.R7": 1, "C02.R8": 1, "C02.R9": 1, "C02.R10": 1}

SENDERS = [
    (AT4_API, "At4Zone._send_group_control_message"),
    (AT4_API, "At4AirConditioner._send_ac_control_message"),
    (AT5_API, "At5Zone._send_zone_control_message"),
    (AT5_API, "At5AirConditioner._send_ac_control_message"),
]
ACCUMULATING_MEMBERS = {"TOGGLE", "CHANGE"}
POLICIES = {"RETRY_IDEMPOTENT", "RETRY_NON_IDEMPOTENT", "RETRY_CONNECTED"}


def run(ctx):
    r1_r3(ctx)
    r2(ctx)
    r4(ctx)
    r5(ctx)
    r6(ctx)
    from . import c01
    from .common import reuse

    reuse(ctx, "C02.R7", [c01.r2], "the pending queue is mutated only at its two ends by enqueue/drain (a failed idempotent command stays queued until it is re-sent)")
    reuse(ctx, "C02.R10", [c01.r11, c01.r12], "a held command leaves the queue only to be written on a standing connection: the flush re-tests the connection before every pop and survives an unencodable neighbour, so no idempotent command is lost without a write fault of its own (C01.R11/R12)")
    reuse(ctx, "C02.R9", [c01.r3], "a re-queued command is written again as soon as a connection exists: the queue is drained after every successful connect and after every enqueue (C01.R3)")
    from . import c07

    reuse(ctx, "C02.R8", [c07.r9], "while is_connected is True a writer is stored whenever another task can run: a command re-queued after a write failure is not popped by a concurrent send during the disconnect and then dropped because _write finds no stream (C07.R9)",
          keep=lambda o: o.construct.startswith("coherence:connected-implies-writer") or o.construct.startswith("coherence:__init__"))


def _entry_attr(e, var, attr):
    return isinstance(e, ast.Attribute) and e.attr == attr and isinstance(e.value, ast.Name) and e.value.id == var


def _path_requeues(stmts, lits) -> bool:
    """does the path through `stmts` selected by the literals (as produced by block_paths, in order) execute a queue insertion?"""
    from ..q import literal, subst_env

    want = list(lits)

    def walk(block, env, idx):
        for st in block:
            if isinstance(st, ast.Assign) and len(st.targets) == 1 and isinstance(st.targets[0], ast.Name):
                env = dict(env)
                env[st.targets[0].id] = subst_env(st.value, env)
            elif isinstance(st, ast.AnnAssign) and isinstance(st.target, ast.Name) and st.value is not None:
                env = dict(env)
                env[st.target.id] = subst_env(st.value, env)
            if isinstance(st, ast.If):
                if idx >= len(want):
                    return None, env, idx
                lt = literal(subst_env(st.test, env), True)
                take_true = (lt == want[idx])
                r, env, idx = walk(st.body if take_true else st.orelse, env, idx + 1)
                if r:
                    return True, env, idx
                continue
            for x in ast.walk(st):
                if isinstance(x, ast.Call) and (dotted(x.func) or "").split(".")[-1] in ("appendleft", "append", "insert", "extendleft", "extend") and "_message_queue" in (dotted(x.func) or ""):
                    return True, env, idx
            if isinstance(st, (ast.Return, ast.Raise)):
                return False, env, idx
        return False, env, idx

    return bool(walk(stmts, {}, 0)[0])


# ------------------------------------------------------------------------------------------ R1, R3
def r1_r3(ctx):
    R1, R3 = "C02.R1", "C02.R3"
    drain = sock_fn(ctx, "_drain_message_queue")
    m = drain.module
    var, popnode = popped_entry_var(ctx, drain)
    if var is None:
        # the entry being written belongs to THIS call of the drain: two drains overlap whenever two senders are suspended in
        # writer.drain(); an entry parked on the socket object is overwritten by the second and re-queued twice, the first is lost
        ctx.violation(R1, "_drain_message_queue:in-flight-entry-is-a-local", m, drain.node, "the popped entry is held in a local variable of the drain call until it is written or re-queued", "no local is bound by _message_queue.popleft(): the in-flight entry is shared between overlapping drains")
        return
    requeues = drain.calls("_message_queue.appendleft") + drain.calls("_message_queue.append") + drain.calls("_message_queue.insert")
    oserr = [h for h in drain.handlers() if any(t.split(".")[-1] == "OSError" for t in h.meta["types"])]
    if not oserr:
        ctx.violation(R1, "_drain_message_queue:OSError-handler", m, drain.node, "write faults (OSError) are handled in _drain_message_queue", "no OSError handler")
        return
    if not requeues:
        ctx.violation(R1, "_drain_message_queue:re-queue", m, oserr[0].ast, "a failed idempotent message is returned to the queue with one retry less", "no re-queue in _drain_message_queue")
    for n, call in requeues:
        head = (dotted(call.func) or "").endswith("appendleft")
        ctx.check(head, R3, "_drain_message_queue:re-queue-at-head", m, call, "the retried entry is put back at the head (appendleft)", f"{dotted(call.func)}")
        arg = call.args[-1] if call.args else None
        exp = drain.expand(arg, n, keep={var}) if arg is not None else None
        rr = None
        if isinstance(exp, ast.Call):
            for kw in exp.keywords:
                if kw.arg == "retries_remaining":
                    rr = kw.value
            if rr is None and len(exp.args) >= 3:
                rr = exp.args[2]
        dec = None
        if isinstance(rr, ast.BinOp) and isinstance(rr.op, ast.Sub) and _entry_attr(rr.left, var, "retries_remaining"):
            dec = ctx.repo.try_fold(m, rr.right)
        ctx.check(isinstance(dec, int) and dec >= 1, R1, "_drain_message_queue:budget-decreases", m, call, f"re-queued retries_remaining == {var}.retries_remaining - c with c >= 1", unparse(rr) if rr is not None else "retries_remaining not set")
        # control dependence on budget > 0
        ok = False
        found = "re-queue not guarded by the retry budget"
        for t in drain.tests(lambda e: True):
            texp = drain.expand(t.ast, t, keep={var})  # a local that holds entry.retries_remaining reads as that field
            for label in ("true", "false"):
                o = cmp_oriented(texp, lambda l: _entry_attr(l, var, "retries_remaining"), truth=(label == "true"))
                pos = None
                if o is not None:
                    c = ctx.repo.try_fold(m, o[2])
                    if isinstance(c, int):
                        pos = (o[1] == "!=" and c == 0) or (o[1] == ">" and c >= 0) or (o[1] == ">=" and c >= 1)
                        desc = f"{var}.retries_remaining {o[1]} {c}"
                elif _entry_attr(texp, var, "retries_remaining"):
                    pos = label == "true"
                    desc = f"bool({var}.retries_remaining) is {label}"
                if pos is None:
                    continue
                if drain.cfg.dominates(drain.branch(t, label).id, n.id):
                    if pos:
                        ok = True
                    else:
                        found = f"re-queue happens under '{desc}', which does not imply a remaining budget"
        ctx.check(ok, R1, "_drain_message_queue:requeue-only-with-budget", m, call, "the re-queue is control-dependent on retries_remaining > 0 (the zero branch queues nothing)", found)
        # the failed entry goes back before the handler first suspends: while it is neither queued nor written it is invisible
        # to the capacity test and to the order of the queue (a send accepted during the reset would overtake / overfill)
        for h in oserr:
            if drain.cfg.dominates(h.id, n.id):
                aw = [a_ for a_ in drain.awaits_between(h, n) if a_.id != n.id]
                ctx.check(not aw, R3, "_drain_message_queue:requeue-before-the-handler-suspends", m, call, "nothing is awaited in the OSError handler before the failed entry is back at the head of the queue", f"`{norm_text(aw[0].ast)[:70]}` (line {aw[0].lineno}) is awaited first: a send accepted meanwhile is not counted against the held entry and goes out ahead of it" if aw else "")
    # ... and the converse: a failed entry with budget left is given up only because the socket was closed (`not self.is_open`).
    # Any other condition on the way to the re-queue (connection state, queue length, message kind) loses an idempotent command
    # on a single transient fault, e.g. when another task has already torn the connection down when the error surfaces.
    from ..q import block_paths

    for h in oserr:
        hbody = h.ast.body if isinstance(h.ast, ast.ExceptHandler) else None
        if hbody is None:
            continue
        try:
            paths = block_paths(hbody)
        except AnalysisError:
            paths = None
        if paths is None:
            continue
        bad_path = None
        for lits, env, end in paths:
            # does this path contain the re-queue?  decided on the statements guarded by exactly these literals
            has = _path_requeues(hbody, lits)
            if has:
                continue
            gave_up_ok = False
            for t, pol in lits:
                if "retries_remaining" in t and ((pol and ("== 0" in t or "0 ==" in t or "<= 0" in t or "< 1" in t)) or (not pol and ("> 0" in t or "!= 0" in t or ">= 1" in t or t.strip().endswith("retries_remaining")))):
                    gave_up_ok = True
                if t.replace(" ", "") in ("self.is_open",) and not pol:
                    gave_up_ok = True
            if not gave_up_ok and end in ("fall", "return"):
                bad_path = "; ".join(f"{'' if pol else 'not '}({t})" for t, pol in lits) or "unconditionally"
                break
        ctx.check(bad_path is None, R1, "_drain_message_queue:requeue-whenever-budget-and-open", m, h.ast, "every way through the OSError handler that does not re-queue the failed entry passes `retries_remaining == 0` or `not self.is_open`", f"the entry is given up when {bad_path}" if bad_path else "")
    swh = sock_fn(ctx, "send_with_header")
    for n, call in swh.calls("_MessageQueueEntry"):
        v = next((k.value for k in call.keywords if k.arg == "retries_remaining"), call.args[2] if len(call.args) > 2 else None)
        ok = v is not None and swh.expand_text(v, n) == "retry_policy.max_retries" and swh.is_param("retry_policy", n)
        ctx.check(ok, R1, "send_with_header:initial-budget", m, call, "the initial budget is retry_policy.max_retries", unparse(v) if v is not None else "missing")


# ------------------------------------------------------------------------------------------ R2
def _now_source(fn: Fn, e: ast.expr, at):
    """Returns (kind, def node): kind 'call' if e is loop.time() itself, 'local' if a local whose unique def is loop.time()."""
    if loop_time_call(e):
        return "call", at
    if isinstance(e, ast.Name):
        u = fn.unique_def_value(e.id, at)
        if u is not None and u[1] is not None and loop_time_call(u[1]):
            return "local", u[0]
    return None, None


def r2(ctx):
    R = "C02.R2"
    drain = sock_fn(ctx, "_drain_message_queue")
    m = drain.module
    var, popnode = popped_entry_var(ctx, drain)
    writes = drain.calls("self._write")
    ctx.require(writes, "socket._drain_message_queue: no self._write call (see C01.R1)")
    # write faults reach the drain's handler: _write neither catches nor suppresses anything around write()/drain() (a fault
    # swallowed there leaves the popped command neither written nor re-queued)
    wfn = sock_fn(ctx, "_write")
    guards = [x for x in walk_no_nested(wfn.node) if isinstance(x, ast.Try) or (isinstance(x, (ast.With, ast.AsyncWith)) and any(isinstance(i_.context_expr, ast.Call) and (dotted(i_.context_expr.func) or "").split(".")[-1] == "suppress" for i_ in x.items))]
    ctx.check(not guards, R, "_write:write-faults-propagate", m, (guards[0] if guards else wfn.node), "_write contains no try / suppress: an OSError of write() or drain() always reaches the handler of the drain (retry, reset)", f"`{norm_text(guards[0])[:60]}` can swallow a write fault" if guards else "")
    # the retry policies are shared constants: nobody writes to their fields (a lifetime or budget changed through one call's
    # alias changes every later command of the process)
    pw = []
    for mm in ctx.repo.modules.values():
        for x in ast.walk(mm.tree):
            tg = x.targets if isinstance(x, ast.Assign) else ([x.target] if isinstance(x, (ast.AugAssign, ast.AnnAssign)) else [])
            for t_ in tg:
                if isinstance(t_, ast.Attribute) and t_.attr in ("max_lifetime", "max_retries") and not (isinstance(t_.value, ast.Name) and t_.value.id == "self" and False):
                    pw.append((mm, x))
    ctx.check(not pw, R, "RetryPolicy:fields-are-never-assigned", pw[0][0] if pw else m, pw[0][1] if pw else None, "no statement of the package assigns max_lifetime / max_retries of a policy object (the RETRY_* constants are shared)", f"{pw[0][0].relpath}: `{norm_text(pw[0][1])[:70]}`" if pw else "")
    for wn, wcall in writes:
        ok = False
        found = "no expiry test dominates the write"
        for t in drain.tests(lambda e: isinstance(e, ast.Compare)):
            for label in ("true", "false"):
                o = cmp_oriented(t.ast, lambda l: var is not None and _entry_attr(l, var, "expiry"), truth=(label == "true"))
                if o is None:
                    continue
                if not drain.cfg.dominates(drain.branch(t, label).id, wn.id):
                    continue
                kind, dnode = _now_source(drain, o[2], t)
                if kind is None:
                    found = f"expiry compared with {unparse(o[2])}, which is not the loop clock"
                    continue
                if o[1] != ">":
                    found = f"write permitted when {var}.expiry {o[1]} now (must be strictly '>': never at or after the lifetime)"
                    continue
                if kind == "local":
                    fresh = popnode is not None and drain.cfg.dominates(popnode.id, dnode.id) and not drain.awaits_between(dnode, t, fresh=True)
                    # the definition must be re-evaluated in every iteration: it must lie inside the loop, i.e. be reachable from the write
                    fresh = fresh and drain.cfg.exists_path(wn.id, dnode.id)
                    if not fresh:
                        found = f"the clock value '{unparse(o[2])}' (line {dnode.lineno}) is not re-read for each popped entry immediately before its write"
                        continue
                ok = True
        ctx.check(ok, R, "_drain_message_queue:expiry-before-write", m, wcall, f"every write is dominated by the true branch of `loop.time() < {var}.expiry`, the clock being read after the entry was popped", found)
    # nothing suspends between the expiry test and the bytes reaching the stream: the test is about the moment of the write
    wr = sock_fn(ctx, "_write")
    firsts = [n for n, c in wr.calls("self._writer.write")] + [n for n, c in wr.calls("self._writer.writelines")]
    ctx.require(firsts, "socket._write: no self._writer.write (see C01.R4)")
    early = [n for n in wr.cfg.nodes if n.awaits and any(wr.cfg.exists_path(n.id, f.id, labels=NONEXC) for f in firsts) and not any(wr.cfg.exists_path(f.id, n.id, labels=NONEXC) and not wr.cfg.exists_path(n.id, f.id, labels=NONEXC) for f in firsts)]
    ctx.check(not early, R, "_write:no-await-before-the-bytes-are-written", m, (early[0].ast if early else wr.node), "_write suspends only after the frame was handed to the stream (an await before the first write lets the lifetime run out between the expiry test and the transmission)", f"`{norm_text(early[0].ast)[:80]}` at line {early[0].lineno} can suspend before the first write" if early else "")
    for wn, wcall in writes:
        tests_ok = [t for t in drain.tests(lambda e: isinstance(e, ast.Compare)) if any(drain.cfg.dominates(drain.branch(t, lab).id, wn.id) for lab in ("true", "false")) and "expiry" in norm_text(t.ast)]
        for t in tests_ok:
            aw = [a for a in drain.awaits_between(t, wn) if a.id != wn.id]
            ctx.check(not aw, R, "_drain_message_queue:no-await-between-expiry-test-and-write", m, wcall, "nothing is awaited between the expiry test and the call of _write", f"await at line {aw[0].lineno}" if aw else "")
    # _write refuses with ValueError only when there is no writer at all: that exception means "cannot be encoded" to the caller,
    # which drops the message for good - a connection condition (writer closing) must surface as an OSError so that the
    # message is re-queued
    wr_raises = [n for n in wr.cfg.nodes if n.kind == "stmt" and isinstance(n.ast, ast.Raise) and n.ast.exc is not None]
    absent = [wr.branch(t, "false" if present == "true" else "true").id for t, present in wr.presence("self._writer")]
    loose = [n for n in wr_raises if not any(wr.cfg.dominates(b_, n.id) for b_ in absent)]
    ctx.check(not loose, R, "_write:refuses-only-without-a-writer", m, (loose[0].ast if loose else wr.node), "_write raises of its own accord only when no writer is stored", f"`{norm_text(loose[0].ast)[:70]}` (line {loose[0].lineno}) is also reached for a connection condition: the popped message is then discarded as unencodable instead of being retried" if loose else "")
    # expiry fixed at acceptance
    swh = sock_fn(ctx, "send_with_header")
    for n, call in swh.calls("_MessageQueueEntry"):
        v = next((k.value for k in call.keywords if k.arg == "expiry"), call.args[3] if len(call.args) > 3 else None)
        txt = swh.expand_text(v, n) if v is not None else ""
        ok = txt in ("self._loop.time() + retry_policy.max_lifetime", "retry_policy.max_lifetime + self._loop.time()")
        ctx.check(ok, R, "send_with_header:expiry-at-acceptance", m, call, "expiry = loop.time() + retry_policy.max_lifetime at acceptance", txt)
    # re-queue copies expiry
    for n, call in drain.calls("_MessageQueueEntry"):
        v = next((k.value for k in call.keywords if k.arg == "expiry"), call.args[3] if len(call.args) > 3 else None)
        ok = v is not None and var is not None and _entry_attr(v, var, "expiry")
        ctx.check(ok, R, "_drain_message_queue:requeue-keeps-expiry", m, call, f"the re-queued entry keeps {var}.expiry unchanged", unparse(v) if v is not None else "missing")
    # purge in enqueue deletes under now >= expiry (C16.R2 checks the scan shape)
    enq = sock_fn(ctx, "_enqueue_message")
    dels = [n for n in enq.cfg.nodes if n.kind == "stmt" and isinstance(n.ast, ast.Delete)]
    rem = enq.calls("_message_queue.remove") + enq.calls("_message_queue.popleft")
    for dn in dels + [n for n, _ in rem]:
        ok = False
        found = "deletion is not guarded by an expiry comparison"
        for t in enq.tests(lambda e: isinstance(e, ast.Compare)):
            for label in ("true", "false"):
                o = cmp_oriented(t.ast, lambda l: isinstance(l, ast.Attribute) and l.attr == "expiry", truth=(label == "true"))
                if o is None or not enq.cfg.dominates(enq.branch(t, label).id, dn.id):
                    continue
                kind, _ = _now_source(enq, o[2], t)
                if kind is None:
                    found = f"expiry compared with {unparse(o[2])}"
                elif o[1] != "<=":
                    found = f"entries are purged when expiry {o[1]} now (must be '<=': an entry is dead at its expiry instant)"
                else:
                    ok = True
        ctx.check(ok, R, "_enqueue_message:purge-at-expiry", m, dn.ast, "queued entries are purged exactly when now >= expiry", found)
    if not dels and not rem:
        # rebuilt by comprehension? handled by C16.R2; nothing to check here
        ctx.holds(R, "_enqueue_message:purge-at-expiry", m, enq.node, "no in-place deletion (shape checked by C16.R2)")


# ------------------------------------------------------------------------------------------ R4
def r4(ctx):
    R = "C02.R4"
    m = ctx.repo.module(SOCKET)
    want = {
        "RETRY_NON_IDEMPOTENT": lambda p: p["max_retries"] == 0 and p["max_lifetime"] == 30.0,
        "RETRY_CONNECTED": lambda p: p["max_retries"] == 0 and p["max_lifetime"] == 1.0,
        "RETRY_IDEMPOTENT": lambda p: isinstance(p["max_retries"], int) and p["max_retries"] >= 1 and p["max_lifetime"] == 30.0,
    }
    text = {
        "RETRY_NON_IDEMPOTENT": "max_retries == 0, max_lifetime == 30.0",
        "RETRY_CONNECTED": "max_retries == 0, max_lifetime == 1.0",
        "RETRY_IDEMPOTENT": "max_retries >= 1, max_lifetime == 30.0",
    }
    for name, pred in want.items():
        try:
            v = ctx.repo.fold(m, m.get_const_expr(name))
        except NotConst as ex:
            raise AnalysisError(f"{m.relpath}: {name} not foldable: {ex}")
        ok = isinstance(v, DCVal) and {"max_retries", "max_lifetime"} <= set(v.fields) and pred(v.fields)
        ctx.check(ok, R, f"const:{name}", m, m.assign_nodes[name], text[name], repr(v))
    rp = m.get_class("RetryPolicy")
    names = [n for n, _, _ in rp.fields]
    ctx.check(names[:2] == ["max_retries", "max_lifetime"], R, "RetryPolicy:field-order", m, rp.node, "RetryPolicy(max_retries, max_lifetime)", str(names))
    # policy constants are not mutated anywhere
    bad = []
    for mm in ctx.repo.modules.values():
        for n in ast.walk(mm.tree):
            if isinstance(n, (ast.Assign, ast.AugAssign)):
                tg = n.targets if isinstance(n, ast.Assign) else [n.target]
                for t in tg:
                    d = dotted(t) or ""
                    if any(p + "." in d + "." and d.split(".")[-1] in ("max_retries", "max_lifetime") for p in POLICIES):
                        bad.append((mm, n))
    ctx.check(not bad, R, "policies:immutable", m, bad[0][1] if bad else None, "policy objects are never modified", f"{bad[0][0].relpath}:{bad[0][1].lineno}" if bad else "")


# ------------------------------------------------------------------------------------------ R5
def _send_sites(ctx):
    out = []
    for modname in (AT4_API, AT5_API, HEARTBEAT):
        m = ctx.repo.module(modname)
        for qual, fnode in iter_functions(m):
            if ".<locals>." in qual:
                continue
            for n in walk_no_nested(fnode):
                if isinstance(n, ast.Call) and (dotted(n.func) or "") in ("self._socket.send", "self._socket.send_with_header"):
                    out.append((m, qual, n))
    return out


def _arg(call, pos, name):
    for k in call.keywords:
        if k.arg == name:
            return k.value
    return call.args[pos] if len(call.args) > pos else None


def _class_names(ctx, m, e):
    """Names of repo classes constructed anywhere inside expression e."""
    out = []
    for n in ast.walk(e):
        if isinstance(n, ast.Call):
            ci = ctx.repo.resolve_class(m, n.func) if dotted(n.func) else None
            if ci is not None:
                out.append(ci.name)
    return out


def r5(ctx):
    R = "C02.R5"
    sites = _send_sites(ctx)
    for m, qual, call in sites:
        fn = Fn(ctx.repo, m, qual)
        node = next((n for n, c in fn.calls("_socket.send") + fn.calls("_socket.send_with_header") if c is call), None)
        ctx.require(node is not None, f"{m.relpath}:{qual}: send call not in CFG")
        msg = _arg(call, 0, "message")
        pol = _arg(call, 1, "retry_policy")
        if msg is None or pol is None:
            ctx.violation(R, f"{qual}:send", m, call, "send(message, retry_policy)", norm_text(call)[:100])
            continue
        names = _class_names(ctx, m, fn.expand(msg, node))
        polq = ctx.repo.qual(m, fn.expand(pol, node)) if dotted(fn.expand(pol, node)) else None
        polname = polq.split(".")[-1] if polq else None
        is_request = any(n.endswith("Request") for n in names) or m.name == HEARTBEAT
        label = f"{qual}:send({'/'.join(names) or unparse(msg)})"
        if is_request and qual.split(".")[-1] != "check_for_updates":
            ctx.check(polname == "RETRY_CONNECTED" and polq.startswith(SOCKET), R, label, m, call, "handshake/heartbeat/refresh requests use RETRY_CONNECTED (dropped unless connected within 1 s)", polq or unparse(pol))
        else:
            local = isinstance(pol, ast.Name) and polq is None
            ok = (polname in POLICIES and polq.startswith(SOCKET)) or local
            ctx.check(ok, R, label, m, call, "a command is sent with one of the three socket policies (selection checked by R6)", polq or unparse(pol))
            if ok and not local and qual.split(".")[-1] != "check_for_updates":
                ctx.check(polname != "RETRY_NON_IDEMPOTENT", R, label + ":idempotent-command-keeps-retries", m, call, "a command sent with a fixed policy is an absolute one (timers, quick timers): it keeps RETRY_IDEMPOTENT, so a single transient write failure does not lose it (the no-retry policy is chosen per call by the four senders of R6)", polq)
                ctx.check(polname != "RETRY_CONNECTED", R, label + ":command-lifetime", m, call, "a command keeps its 30 s lifetime (RETRY_IDEMPOTENT / RETRY_NON_IDEMPOTENT): the 1 s connected-only policy is for requests whose answer would be stale - a command sent with it is silently dropped by one write failure or a short outage", polq)


# ------------------------------------------------------------------------------------------ R6
def _param_types(ctx, fn: Fn):
    """param name -> list of ClassInfo (Union alias members expanded)."""
    out = {}
    a = fn.node.args
    for arg in a.posonlyargs + a.args + a.kwonlyargs:
        if arg.arg == "self" or arg.annotation is None:
            continue
        out[arg.arg] = _type_classes(ctx, fn.module, arg.annotation, 0)
    return out


def _type_classes(ctx, module, ann, depth):
    if depth > 6:
        return []
    if isinstance(ann, ast.BinOp) and isinstance(ann.op, ast.BitOr):
        return _type_classes(ctx, module, ann.left, depth + 1) + _type_classes(ctx, module, ann.right, depth + 1)
    if isinstance(ann, ast.Subscript):
        base = dotted(ann.value) or ""
        if base.split(".")[-1] in ("Optional", "Union"):
            sl = ann.slice
            elts = sl.elts if isinstance(sl, ast.Tuple) else [sl]
            out = []
            for e in elts:
                out += _type_classes(ctx, module, e, depth + 1)
            return out
        return []
    if isinstance(ann, ast.Constant):
        return []
    ci = ctx.repo.resolve_class(module, ann)
    if ci is not None:
        return [ci]
    s = ctx.repo.resolve(module, ann)
    if s is not None and s.kind == "const":
        return _type_classes(ctx, s.module, s.node, depth + 1)
    return []


def _defaults(fn: Fn):
    a = fn.node.args
    pos = a.posonlyargs + a.args
    out = {}
    for arg, d in zip(pos[len(pos) - len(a.defaults):], a.defaults):
        out[arg.arg] = d
    for arg, d in zip(a.kwonlyargs, a.kw_defaults):
        if d is not None:
            out[arg.arg] = d
    return out


def _value_set(ctx, caller: Fn, node, expr, depth=0):
    """Finite set of folded values an argument expression may take, or None (unknown)."""
    m = caller.module
    v = ctx.repo.try_fold(m, expr, default=_NO)
    if v is not _NO:
        return {v} if _hashable(v) else None
    if isinstance(expr, ast.Subscript) and dotted(expr.value):
        s = ctx.repo.resolve(m, expr.value)
        if s is not None and s.kind == "const" and isinstance(s.node, ast.Dict):
            try:
                return {val for _, val, _, _ in ctx.repo.dict_table(s.module, s.name)}
            except Exception:
                return None
    if isinstance(expr, ast.Name) and depth < 4:
        ds = caller.defs_reaching(expr.id, node)
        out = set()
        for d in ds:
            if d.kind == "stmt" and isinstance(d.ast, ast.Assign) and len(d.ast.targets) == 1 and isinstance(d.ast.targets[0], ast.Name):
                sub = _value_set(ctx, caller, d, d.ast.value, depth + 1)
                if sub is None:
                    return None
                out |= sub
            else:
                return None
        return out or None
    if isinstance(expr, ast.IfExp):
        a, b = _value_set(ctx, caller, node, expr.body, depth + 1), _value_set(ctx, caller, node, expr.orelse, depth + 1)
        return None if a is None or b is None else a | b
    return None


_NO = object()


def _hashable(v):
    try:
        hash(v)
        return True
    except TypeError:
        return False


def r6(ctx):
    R = "C02.R6"
    for modname, qual in SENDERS:
        snd = fn_of(ctx, modname, qual)
        m = snd.module
        cls, meth = qual.split(".")
        sends = snd.calls("_socket.send")
        if len(sends) != 1:
            ctx.violation(R, f"{qual}:send", m, snd.node, "the sender transmits exactly one message", f"{len(sends)} send calls")
            continue
        sn, scall = sends[0]
        pol = _arg(scall, 1, "retry_policy")
        ctx.require(pol is not None, f"{m.relpath}:{qual}: send without retry_policy")
        # definitions of the policy variable
        if not isinstance(pol, ast.Name):
            polq = ctx.repo.qual(m, pol) or unparse(pol)
            defs_info = [("const", polq, None)]
            cond = None
        else:
            defs = snd.defs_reaching(pol.id, sn)
            defs_info = []
            for d in defs:
                v = d.ast.value if d.kind == "stmt" and isinstance(d.ast, ast.Assign) else None
                defs_info.append(("def", (ctx.repo.qual(m, v) or unparse(v)) if v is not None else d.kind, d))
        by_name = {}
        for kind, q, d in defs_info:
            by_name.setdefault(q.split(".")[-1], []).append(d)
        non = by_name.get("RETRY_NON_IDEMPOTENT", [])
        idem = by_name.get("RETRY_IDEMPOTENT", [])
        others = [k for k in by_name if k not in ("RETRY_NON_IDEMPOTENT", "RETRY_IDEMPOTENT")]
        ctx.check(not others and idem, R, f"{qual}:policies", m, scall, "the policy reaching send() is RETRY_IDEMPOTENT or RETRY_NON_IDEMPOTENT", ", ".join(sorted(by_name)))
        # the condition guarding the NON_IDEMPOTENT assignment
        cond_expr = None
        for d in non:
            if d is None:
                continue
            for t in snd.cfg.nodes:
                pass
            # find the ast.If whose body contains d.ast
            for ifn in ast.walk(snd.node):
                if isinstance(ifn, ast.If) and any(d.ast is s for s in ifn.body):
                    cond_expr = ifn.test
        params = _param_types(ctx, snd)
        defaults = _defaults(snd)
        # accumulating constructs derived from parameter types
        constructs = []  # (param, kind, ClassInfo, member|None)
        for p, classes in params.items():
            for ci in classes:
                if ci.is_enum():
                    for mem in ci.enum_members(ctx.repo):
                        if mem in ACCUMULATING_MEMBERS:
                            constructs.append((p, "member", ci, mem))
                elif ci.name.endswith("IncreaseDecrease"):
                    constructs.append((p, "isinstance", ci, None))
                if ci.is_enum() and ci.name.endswith("IncreaseDecrease"):
                    constructs.append((p, "isinstance", ci, None))
        # call sites and value sets per parameter
        callers = package_calls(ctx.repo, lambda d, meth=meth: d == f"self.{meth}")
        callers = [(mm, q, c) for mm, q, c in callers if mm is m and q.split(".")[0] == cls]
        ctx.require(callers, f"{m.relpath}: no caller of {qual}")
        reach = {}
        for p in params:
            vals = set()
            unknown = False
            if p in defaults:
                vs = _value_set(ctx, snd, snd.cfg.entry, defaults[p])
                if vs is None:
                    unknown = True
                else:
                    vals |= vs
            order = [a.arg for a in snd.node.args.args if a.arg != "self"]
            for mm, q, c in callers:
                cf = Fn(ctx.repo, mm, q)
                cn = next((n for n, cc in cf.calls(meth) if cc is c), None)
                arg = next((k.value for k in c.keywords if k.arg == p), None)
                if arg is None and p in order and order.index(p) < len(c.args):
                    arg = c.args[order.index(p)]
                if arg is None:
                    continue
                vs = _value_set(ctx, cf, cn, arg) if cn is not None else None
                if vs is None:
                    # constructor calls of repo classes: value is an instance of that class
                    ci = ctx.repo.resolve_class(mm, arg.func) if isinstance(arg, ast.Call) and dotted(arg.func) else None
                    if ci is not None:
                        vals.add(("instance", ci.qualname))
                    else:
                        unknown = True
                else:
                    vals |= vs
            reach[p] = None if unknown else vals

        def reachable(c):
            p, kind, ci, mem = c
            vs = reach.get(p)
            if vs is None:
                return True
            if kind == "member":
                return any(isinstance(v, EnumVal) and v.cls is ci and v.name == mem for v in vs)
            return any(v == ("instance", ci.qualname) or (isinstance(v, EnumVal) and v.cls is ci) for v in vs)

        def atom_matches(atom, c):
            p, kind, ci, mem = c
            if kind == "isinstance":
                if isinstance(atom, ast.Call) and dotted(atom.func) == "isinstance" and len(atom.args) == 2 and isinstance(atom.args[0], ast.Name) and atom.args[0].id == p:
                    t = atom.args[1]
                    ts = t.elts if isinstance(t, ast.Tuple) else [t]
                    return any(ctx.repo.resolve_class(m, x) is ci for x in ts)
                return False
            o = cmp_oriented(atom, lambda l: isinstance(l, ast.Name) and l.id == p)
            if o is None or o[1] not in ("==", "is"):
                if isinstance(atom, ast.Compare) and len(atom.ops) == 1 and isinstance(atom.ops[0], ast.In) and isinstance(atom.left, ast.Name) and atom.left.id == p and isinstance(atom.comparators[0], (ast.Tuple, ast.List, ast.Set)):
                    return any(_is_member(ctx, m, x, ci, mem) for x in atom.comparators[0].elts)
                return False
            return _is_member(ctx, m, o[2], ci, mem)

        for c in constructs:
            p, kind, ci, mem = c
            label = f"{qual}:{p}{'==' + ci.name + '.' + mem if kind == 'member' else ' isinstance ' + ci.name}"
            mentioned = cond_expr is not None and any(atom_matches(a_, c) for a_ in bool_atoms(cond_expr))
            if not reachable(c) and not mentioned:
                ctx.holds(R, label, m, snd.node, f"construct cannot reach the sender (value set of '{p}': {sorted(map(str, reach[p]))})")
                continue
            # a construct the condition names is decided even when no caller passes it today: the sender claims to handle it
            if cond_expr is None:
                ctx.violation(R, label, m, scall, "an accumulating command selects RETRY_NON_IDEMPOTENT", "no conditional RETRY_NON_IDEMPOTENT assignment")
                continue
            val = eval_bool(cond_expr, lambda a: atom_matches(a, c))
            # atoms that do not match are 'False' (construct alone present)
            ctx.check(val is True, R, label, m, cond_expr, f"the condition selecting RETRY_NON_IDEMPOTENT is true whenever {label.split(':')[1]}", f"condition `{norm_text(cond_expr)}` does not recognise it (operands resolved against the parameter's own type {ci.qualname})")
        if cond_expr is not None:
            # when no accumulating construct is present the condition must be false (idempotent commands keep their retries)
            val = eval_bool(cond_expr, lambda a: False if any(atom_matches(a, c) for c in constructs) else None)
            ctx.check(val is False, R, f"{qual}:idempotent-keeps-retries", m, cond_expr, "without an accumulating construct the sender keeps RETRY_IDEMPOTENT", f"condition `{norm_text(cond_expr)}` has atoms that are not accumulating constructs")
            # and the non-idempotent assignment is the only thing in that branch path: policy on the false path is idempotent
            for d in non:
                if d is not None:
                    ok = any(di is not None and snd.cfg.exists_path(di.id, sn.id, avoid=[d.id]) for di in idem)
                    ctx.check(ok, R, f"{qual}:idempotent-path", m, scall, "a path on which RETRY_IDEMPOTENT reaches send() exists", "RETRY_IDEMPOTENT never reaches send()")


def _is_member(ctx, m, expr, ci, mem):
    v = ctx.repo.try_fold(m, expr)
    return isinstance(v, EnumVal) and v.cls is ci and v.name == mem
