"""C04 - commands on the wire mean what the vendor protocol says (structural clauses)."""
from __future__ import annotations

import ast
import re
from fractions import Fraction

from .. import bits as B, codec
from ..model import AnalysisError, EnumVal, dotted, norm_text, unparse, walk_no_nested
from ..q import NONEXC, Fn, package_calls
from ..spec import tables as T
from .common import AT4_API, AT5_API, API, fn_of
from . import c02, c10

LEVEL = "other"
EXPLANATION = (
    "R1 bit-provenance abstract interpretation of the four control encoders (AT4 0x2A/0x2C, AT5 0xC020/0xC022), run forwards from the message "
    "attributes to the packed bytes: every attribute's bits land on the vendor's byte/bit positions (entity numbers compared under the vendor's valid "
    "range), every tagged setting writes the vendor's type code and value, the 'unchanged' values land in the vendor's keep codes, 'keep 0' bits are "
    "constant 0, and each control enum's members equal the vendor's code table. R2 value-set analysis of every public setter: only the named "
    "attribute is passed to the private sender, every other parameter keeps its default and each default is UNCHANGED/None; the sender passes each "
    "parameter to the message field of the same name for the entity's own id. R3 API->control tables are name-preserving (OFF->TURN_OFF, ON->TURN_ON), "
    "injective and key the public enum. R4 addressing: to-address folds to 0x90 exactly when message_id == 0x1F and 0x80 otherwise, from 0xB0, message "
    "ids equal the vendor's. R5 set-point arithmetic: AT5 raw = 10*t - 100, AT4 integer set-point in bits 5..0; limits follow the mode (C10.R5 re-used). "
    "R6 check value: C06 (same _write). Float truncation off the 0.1 grid is not decided."
    " R7 units are created with the number their own ability / names record carries (C09.R5 re-used); R8 the quick-timer duration (no vendor text; divmod arithmetic outside the bit domain) is evaluated by the checker's interpreter on all 1440 whole-minute durations (exact hours/minutes, decodes back), on wrap-around values and on 42 sub-minute witnesses (never later than requested, same in both generations); R9 the frame is written in one piece (C01.R4 re-used)."
    " Rounds 9-10: R14 (C11.R3 re-used): a setter suspends only to transmit (no settle time, no shared pending value); R15 (C11.R5 re-used): the stored records are replaced only from the handlers of received frames; R1 also: a clamp of an encoded value against a constant inside the field's valid range is reported (outside it, read through)."
)
ASSUMPTIONS = ["vendor tables transcribed in sa/spec/tables.py (DESIGN Appendix A) are the oracle", "values outside the vendor's valid ranges are outside the property's quantifier"]
FLOORS = {"C04.R1": 40, "C04.R2": 30, "C04.R3": 30, "C04.R4": 14, "C04.R5": 6, "C04.R6": 1, "C04.R7": 1, "C04.R8": 7, "C04.R9": 1, "C04.R10": 1, "C04.R11": 1, "C04.R12": 1, "C04.R13": 1, "C04.R14": 1, "C04.R15": 1}


def run(ctx):
    for key, spec in T.CONTROL.items():
        r1(ctx, key, spec)
    r2(ctx)
    r3(ctx)
    r4(ctx)
    r5(ctx)
    r6(ctx)
    quick_timer_duration(ctx)
    from . import c01
    from .common import reuse as _reuse

    from . import c03, c11

    _reuse(ctx, "C04.R10", [c03.r6], "the 0xC0 / 0x1F wrappers announce the lengths of the very message they carry (computed from that message in encode(), nothing remembered from an earlier size() call), so the console finds the record (C03.R6)")
    _reuse(ctx, "C04.R14", [c11.r3], "each control call puts exactly one frame on the wire, built from the arguments of that call: the setter does not wait before it transmits (no shared pending value, no coalescing) (C11.R3)",
           keep=lambda o: "one-frame" in o.construct or "suspends-only" in o.construct or o.verdict != "HOLDS")
    _reuse(ctx, "C04.R15", [c11.r5], "the 'other' quick timer sent along with a timer command is the one the console last reported: the stored timer record is written by update_ac_timer_status only, and update_* is called from the handlers of received frames only (C11.R5)",
           keep=lambda o: "who-may" in o.construct or o.verdict != "HOLDS")
    _reuse(ctx, "C04.R11", [c11.r4], "the set-point that reaches the wire is the rounded request clamped into [min, max] - the upper bound is the maximum (C11.R4)")
    from . import c14

    _reuse(ctx, "C04.R13", [c14.r1], "the limits a set-point is clamped into are those of the mode the console is in now: after a reconnection the AC status is requested again (C14.R1)",
           keep=lambda o: "refresh" in o.construct or o.verdict != "HOLDS")
    _reuse(ctx, "C04.R12", [c01.r5], "every accepted command is queued for transmission (no de-duplication or shortcut between acceptance and the queue) (C01.R5)")
    _reuse(ctx, "C04.R9", [c01.r4], "the frame reaches the wire in one piece (header, payload, check bytes written back to back with no suspension in between), so what the console reads is the frame that was built (C01.R4)")
    from . import c09
    from .common import AT4_API, AT5_API, reuse

    reuse(ctx, "C04.R7", [lambda c: c09.r5(c, AT4_API), lambda c: c09.r5(c, AT5_API)], "every air-conditioner / zone object is created with the number its own ability / names record carries (not its position in the message), so commands address the intended unit (C09.R5)",
          keep=lambda o: "ac-construction" in o.construct or "names_message" in o.construct or "every-record" in o.construct)


def quick_timer_duration(ctx, R="C04.R8"):
    """The quick-timer duration (no vendor text; the console's own hour/minute bytes): evaluated by the checker's interpreter
    (sa/minieval.py) on the source of both generations' _encode_duration/_decode_duration.  (a) every whole-minute duration
    below 24 h is encoded as exactly that many hours and minutes and decodes back to itself; (b) longer durations wrap modulo
    24 h; (c) between two minutes the encoded value is the same in both generations (sibling parity) and never later than the
    requested duration."""
    import datetime as _dt

    from ..minieval import Mini, Unsupported

    res = {}
    for gen, mod in (("at4", "x1FFF20_quick_timer"), ("at5", "x1FFF49_quick_timer")):
        m = ctx.repo.module(f"pyairtouch.{gen}.comms.{mod}")
        enc, dec = m.get_class("QuickTimerEncoder"), m.get_class("QuickTimerDecoder")
        ctx.require(enc is not None and dec is not None, f"{m.relpath}: QuickTimerEncoder/QuickTimerDecoder vanished")
        fe, fd = enc.methods.get("_encode_duration"), dec.methods.get("_decode_duration")
        whole = None
        if fe is None:
            # helper inlined or moved: evaluate encode() itself on a stand-in message; the hour and minute bytes are the last two
            # of the record (the same assumption the decoder fallback below makes)
            whole = enc.methods.get("encode")
            ctx.require(whole is not None and len(whole.args.args) >= 3, f"{m.relpath}: QuickTimerEncoder.encode vanished")
            fe = whole
        pe = fe.args.args[1].arg
        dur_expr = None
        if fd is not None:
            pd = [a.arg for a in fd.args.args[1:]]
        else:
            # helper inlined: evaluate the `duration=` argument of the decoded message over the two locals unpacked from the
            # hour and minute slots (the last two of the record)
            dn = dec.methods.get("decode")
            ctx.require(dn is not None, f"{m.relpath}: QuickTimerDecoder.decode vanished")
            for c_ in ast.walk(dn):
                if isinstance(c_, ast.Call) and (dotted(c_.func) or "").endswith("QuickTimerMessage"):
                    dur_expr = next((k.value for k in c_.keywords if k.arg == "duration"), None)
            for _ in range(3):
                # an explaining local: `duration = timedelta(...)` ... `duration=duration`
                if isinstance(dur_expr, ast.Name):
                    defs = [a_ for a_ in ast.walk(dn) if isinstance(a_, ast.Assign) and len(a_.targets) == 1 and isinstance(a_.targets[0], ast.Name) and a_.targets[0].id == dur_expr.id]
                    if len(defs) == 1:
                        dur_expr = defs[0].value
                        continue
                break
            unp = next((a_ for a_ in ast.walk(dn) if isinstance(a_, ast.Assign) and isinstance(a_.targets[0], ast.Tuple) and isinstance(a_.value, ast.Call) and (dotted(a_.value.func) or "").split(".")[-1] in ("unpack_from", "unpack")), None)
            if dur_expr is None or unp is None or len(unp.targets[0].elts) < 2 or not all(isinstance(e_, ast.Name) for e_ in unp.targets[0].elts[-2:]):
                raise AnalysisError(f"{m.relpath}: the decoded duration cannot be located in QuickTimerDecoder.decode")
            pd = [e_.id for e_ in unp.targets[0].elts[-2:]]

        def encode(sec, fe=fe, enc=enc, m=m, pe=pe, whole=whole):
            try:
                if whole is not None:
                    from ..minieval import FakeObj

                    mini = Mini(ctx.repo, m, {}, enc)
                    tci = m.get_class("TimerType")
                    member = next((k for k in (tci.attrs if tci is not None else {}) if not k.startswith("_")), None)
                    if member is None:
                        raise AnalysisError(f"{m.relpath}: TimerType has no members")
                    ttv = mini.ev(ast.parse(f"TimerType.{member}", mode="eval").body, {})
                    msg = FakeObj("QuickTimerMessage", ac_number=0, timer_type=ttv, duration=_dt.timedelta(seconds=sec))
                    raw = mini.function_value(whole, {whole.args.args[1].arg: None, whole.args.args[2].arg: msg})
                    if not (isinstance(raw, (bytes, bytearray)) and len(raw) >= 2):
                        raise AnalysisError(f"{m.relpath}: QuickTimerEncoder.encode does not give a byte record")
                    r = (raw[-2], raw[-1])
                else:
                    r = Mini(ctx.repo, m, {}, enc).function_value(fe, {pe: _dt.timedelta(seconds=sec)})
            except Unsupported as ex:
                raise AnalysisError(f"{m.relpath}: _encode_duration left the evaluable fragment: {ex}")
            if not (isinstance(r, tuple) and len(r) == 2 and all(isinstance(x, int) for x in r)):
                raise AnalysisError(f"{m.relpath}: _encode_duration does not return an (hours, minutes) pair of ints")
            return r

        def decode(h, mi, fd=fd, dec=dec, m=m, pd=pd, dur_expr=dur_expr):
            try:
                if fd is None:
                    return Mini(ctx.repo, m, {}, dec).ev(dur_expr, {pd[0]: h, pd[1]: mi})
                return Mini(ctx.repo, m, {}, dec).function_value(fd, {pd[0]: h, pd[1]: mi})
            except Unsupported as ex:
                raise AnalysisError(f"{m.relpath}: _decode_duration left the evaluable fragment: {ex}")

        bad = None
        for k in range(0, 24 * 60):
            h, mi = encode(60 * k)
            if (h, mi) != divmod(k, 60):
                bad = f"{k // 60}:{k % 60:02d}:00 is encoded as hours={h}, minutes={mi}"
                break
            back = decode(h, mi)
            if back != _dt.timedelta(minutes=k):
                bad = f"hours={h}, minutes={mi} decodes to {back}, not {k // 60}:{k % 60:02d}:00"
                break
        ctx.check(bad is None, R, f"{gen}.{mod}:duration:exact-on-the-minute-grid", m, fe, "every whole-minute duration below 24 h is sent as exactly its hours and minutes and decodes back to itself (1440 values evaluated)", bad or "")
        bad = None
        for k in (24 * 60, 24 * 60 + 1, 25 * 60 + 30, 48 * 60 + 59, 255 * 60, 300 * 60 + 7):
            h, mi = encode(60 * k)
            if (h, mi) != ((k // 60) % 24, k % 60) or not (0 <= h <= 255 and 0 <= mi <= 255):
                bad = f"{k // 60} h {k % 60} min is encoded as hours={h}, minutes={mi}"
                break
        ctx.check(bad is None, R, f"{gen}.{mod}:duration:wraps-at-24h", m, fe, "durations of a day or more wrap modulo 24 h and stay inside the one-byte slots", bad or "")
        res[gen] = {sec: encode(sec) for k in (0, 1, 59, 60, 61, 599, 1439) for sec in (60 * k + o for o in (0, 1, 29, 30, 31, 59))}
        late = next((sec for sec, (h, mi) in res[gen].items() if h * 3600 + mi * 60 > sec), None)
        ctx.check(late is None, R, f"{gen}.{mod}:duration:never-later-than-requested", m, fe, "between two minutes the timer is set to the minute that has been reached, not to a later one", f"{late} s is sent as {res[gen][late]}" if late is not None else "")
    diff = next((sec for sec in res["at4"] if res["at4"][sec] != res["at5"].get(sec)), None)
    ctx.check(diff is None, R, "quick-timer:duration:same-in-both-generations", ctx.repo.module("pyairtouch.at5.comms.x1FFF49_quick_timer"), None, "the same duration gives the same hours and minutes on both wire formats (42 sub-minute witnesses)", f"{diff} s: AirTouch 4 sends {res['at4'][diff]}, AirTouch 5 sends {res['at5'].get(diff)}" if diff is not None else "")


def r6(ctx):
    """The transmitted check value: same table, step function, span and write path as decided for C06."""
    from . import c06

    before = len(ctx.obligations)
    c06.qa_reference(ctx)
    c06.r1(ctx)
    c06.r2(ctx)
    c06.r4(ctx)
    new = ctx.obligations[before:]
    del ctx.obligations[before:]
    bad = [o for o in new if o.verdict != "HOLDS"]
    for o in bad:
        o.rule = "C04.R6"
        ctx.obligations.append(o)
    ctx.check(not bad, "C04.R6", "check-value:crc16-modbus", ctx.repo.module("pyairtouch.comms.crc16"), None, f"the frame's check bytes are CRC-16/MODBUS over address..payload ({len(new)} obligations of C06.R1/R2/R4 hold)", f"{len(bad)} obligations fail")


# ------------------------------------------------------------------------------------------ helpers
def pick(v, tag):
    """Value of a (possibly guarded) slot under 'the tagged attribute is an instance of <tag>' (tag None = none of the classes)."""
    if isinstance(v, B.Choice):
        for c, x in v.alts:
            lits = B._lits(c) if c[0] == "and" else [c]
            inst = [l for l in lits if l[0] == "isinst"]
            if inst:
                if tag is not None and any(l[2] == tag for l in inst):
                    return pick(x, tag)
                continue
            if c == B.TRUE:
                return pick(x, tag)
            # other guard kinds are handled by the caller
            return v
        return None
    return v


def layout(packed, tag=None, strict=True):
    """{(byte, bit): 0 | 1 | ('s', name, k)} for the whole record, or raises AnalysisError."""
    st = packed.struct
    out = {}
    for byte in range(st.size):
        for bit in range(8):
            out[(byte, bit)] = 0
    for sl, a in zip(st.slots, packed.args):
        if a is None:
            if strict:
                raise AnalysisError("a packed argument left the analysable fragment")
            for k in range(8 * sl.size):
                out[(sl.offset + sl.size - 1 - k // 8, k % 8)] = ("?", "not analysable", k)
            continue
        v = pick(a, tag)
        if isinstance(v, B.Lin) and v.trunc:
            v = B.BV.src(f"lin:{v.raw.name if isinstance(v.raw, B.Sym) else '?'}*{v.mul}+{v.add}", 8 * sl.size)
        if isinstance(v, B.Py) and isinstance(v.v, bytes):
            for i, by in enumerate(v.v):
                for bit in range(8):
                    out[(sl.offset + i, bit)] = (by >> bit) & 1
            continue
        if not isinstance(v, B.BV):
            for k in range(8 * sl.size):
                out[(sl.offset + sl.size - 1 - k // 8, k % 8)] = ("?", repr(v)[:40], k)
            continue
        for k in range(8 * sl.size):
            byte = sl.offset + (k // 8 if st.byteorder == "little" else sl.size - 1 - k // 8)
            out[(byte, k % 8)] = v.bit(k)
        extra = [b for b in v.bits[8 * sl.size:] if b != 0]
        if extra:
            out[("overflow", sl.index)] = extra
    return out


def fmt_pos(p):
    return f"B{p[0]}.{p[1]}"


def r1(ctx, key, spec):
    R = "C04.R1"
    gen, mod, cls = key
    m = ctx.repo.module(f"pyairtouch.{gen}.comms.{mod}")
    ctx.analysed["functions"].add(f"{m.name}.{cls}.encode")
    packed, problems = codec.encoder_slots(ctx.repo, m, cls)
    if problems:
        raise AnalysisError(f"{m.relpath}: {cls}.encode left the analysable fragment: {problems[0]}")
    enode = m.get_class(cls).methods["encode"]
    lab = f"{gen}.{mod}.{cls}"
    ctx.check(packed.struct.size == spec["size"], R, f"{lab}:record-size", m, enode, f"{spec['size']} bytes per record ({spec['page']})", str(packed.struct.size))
    base = layout(packed, None)
    rec = None
    # the record variable name is the common prefix of the sources
    for fname, fs in spec["fields"].items():
        kind = fs["kind"]
        if kind == "uint":
            want = fs["bits"]
            vb = fs.get("valid_bits", len(want))
            ok = True
            found = []
            for k in range(vb):
                got = base.get(want[k])
                if not (isinstance(got, tuple) and got[0] == "s" and got[1].endswith("." + fname) and got[2] == k):
                    ok = False
                    found.append(f"{fmt_pos(want[k])}={_fmt_src(got)}")
            # no bit of this attribute lands in another field's position
            stray = [fmt_pos(p) for p, b in base.items() if isinstance(p[0], int) and isinstance(b, tuple) and b[0] == "s" and b[1].endswith("." + fname) and p not in want]
            ctx.check(ok and not stray, R, f"{lab}:{fname}:layout", m, enode, f"bits {vb - 1}..0 of {fname} at {[fmt_pos(p) for p in want[:vb]]} (valid range needs {vb} bits)", "; ".join(found) + (" stray: " + ",".join(stray) if stray else ""))
        elif kind == "enum":
            want = fs["bits"]
            ok = True
            found = []
            for k, p in enumerate(want):
                got = base.get(p)
                if not (isinstance(got, tuple) and got[0] == "s" and got[1].endswith(f".{fname}.value") and got[2] == k):
                    # an enum whose members need fewer bits than the field leaves constant zeros above
                    if got == 0 and k >= _enum_width(ctx, m, fs["enum"]):
                        continue
                    ok = False
                    found.append(f"{fmt_pos(p)}={_fmt_src(got)}")
            stray = [fmt_pos(p) for p, b in base.items() if isinstance(p[0], int) and isinstance(b, tuple) and b[0] == "s" and b[1].endswith(f".{fname}.value") and p not in want]
            ctx.check(ok and not stray, R, f"{lab}:{fname}:layout", m, enode, f"{fname}.value bit k at {[fmt_pos(p) for p in want]}", "; ".join(found) + (" stray: " + ",".join(stray) if stray else ""))
            eci = m.classes.get(fs["enum"])
            ctx.require(eci is not None, f"{m.relpath}: enum {fs['enum']} vanished")
            mem = eci.enum_members(ctx.repo)
            want_codes = {n: c for c, n in fs["codes"].items()}
            ctx.check(mem == want_codes, R, f"{lab}:{fname}:codes", m, eci.node, f"{fs['enum']} members == vendor codes {dict(sorted(fs['codes'].items()))}", str(dict(sorted((v, k) for k, v in mem.items()))))
            unchanged = mem.get("UNCHANGED")
            if unchanged is not None:
                wire = unchanged & ((1 << len(want)) - 1)
                ctx.check(wire in fs["keep"], R, f"{lab}:{fname}:unchanged-is-keep", m, eci.node, f"UNCHANGED reaches the wire as one of the vendor's keep codes {sorted(fs['keep'])[:6]}", f"0x{wire:X}")
        elif kind == "tagged":
            code_bits = fs["bits"]
            for tag, ts in fs["tags"].items():
                lay = layout(packed, tag)
                tl = f"{lab}:{fname}:{tag or 'None'}"
                if "code" in ts:
                    got = [lay.get(p) for p in code_bits]
                    want = [(ts["code"] >> k) & 1 for k in range(len(code_bits))]
                    ctx.check(got == want, R, f"{tl}:type-code", m, enode, f"type code {ts['code']:0{len(code_bits)}b} at {[fmt_pos(p) for p in code_bits]}", str([_fmt_src(g) for g in got]))
                    if tag is None:
                        ctx.check(ts["code"] in fs["keep"], R, f"{tl}:is-keep", m, enode, "no setting = the vendor's keep code", str(ts["code"]))
                else:
                    ok = all(isinstance(lay.get(p), tuple) and lay[p][0] == "s" and lay[p][1].endswith(f".{fname}.value") and lay[p][2] == k for k, p in enumerate(code_bits[:2])) and all(lay.get(p) == 0 for p in code_bits[2:])
                    ctx.check(ok, R, f"{tl}:type-code", m, enode, f"{tag}.value in the low bits of the type field", str([_fmt_src(lay.get(p)) for p in code_bits]))
                    tci = m.classes.get(tag)
                    mem = tci.enum_members(ctx.repo) if tci else {}
                    ctx.check(mem == {n: c for c, n in ts["codes"].items()}, R, f"{tl}:codes", m, tci.node if tci else enode, f"{ts['codes']}", str(mem))
                if "value" in ts:
                    attr, vbits, width = ts["value"]
                    if width == "affine10-100":
                        got = [lay.get(p) for p in vbits]
                        from .common import harmless_clamp as _harmless

                        got = [(g[0], _harmless(g[1]), g[2]) if isinstance(g, tuple) and g[0] == "s" else g for g in got]
                        ok = all(isinstance(g, tuple) and g[0] == "s" and g[1].startswith("lin:") and g[1].endswith(f".{attr}*10+-100") and g[2] == k for k, g in enumerate(got))
                        ctx.check(ok, R, f"{tl}:value", m, enode, f"value byte = int({attr}*10 - 100)", str([_fmt_src(g) for g in got][:3]))
                    else:
                        ok = all(isinstance(lay.get(p), tuple) and lay[p][0] == "s" and lay[p][1].endswith(f".{fname}.{attr}") and lay[p][2] == k for k, p in enumerate(vbits[:width]))
                        ctx.check(ok, R, f"{tl}:value", m, enode, f"{attr} bit k at {[fmt_pos(p) for p in vbits[:width]]}", str([_fmt_src(lay.get(p)) for p in vbits[:width]]))
                if "fill" in ts:
                    fbits, fval = ts["fill"]
                    got = [lay.get(p) for p in fbits]
                    want = [(fval >> k) & 1 for k in range(len(fbits))]
                    ctx.check(got == want, R, f"{tl}:value-filler", m, enode, f"value field = 0x{fval:X} when no value is set (vendor example)", str([_fmt_src(g) for g in got]))
        elif kind == "optaffine":
            # AT5 AC control: byte 2 = 0x40 when a set-point is given else 0x00; byte 3 = int(t*10-100) / 0xFF
            sl_flag, sl_val = packed.args[2], packed.args[3]
            d_flag, d_val = codec.describe(sl_flag), codec.describe(sl_val)
            fbits, on, off = fs["flag"]
            flag_ok = isinstance(sl_flag, B.BV) and sl_flag.ones() == 0 and [(p, n) for p, n, k in sl_flag.sources()] == [(on.bit_length() - 1, f"{_rec_prefix(sl_flag)}")]
            ctx.check(flag_ok, R, f"{lab}:{fname}:change-flag", m, enode, f"control byte = 0x{on:02X} exactly when a set-point is given, else 0x{off:02X}", d_flag.brief())
            ok = d_val.kind == "cases" and len(d_val.cases) == 2 and d_val.cases[0][1].kind == "affine" and d_val.cases[0][1].mul == fs["mul"] and d_val.cases[0][1].add == fs["add"] and d_val.cases[1][1].kind == "const" and d_val.cases[1][1].const == fs["keep_value"]
            ctx.check(ok, R, f"{lab}:{fname}:value", m, enode, f"value byte = int(t*{fs['mul']}{fs['add']:+d}) when given, else 0x{fs['keep_value']:X}", d_val.brief()[:160])
    zero_bad = [fmt_pos(p) for p in spec.get("zero", []) if any(layout(packed, t).get(p) != 0 for t in _tags(spec))]
    ctx.check(not zero_bad, R, f"{lab}:keep-zero-bits", m, enode, f"vendor 'keep 0' bits {[fmt_pos(p) for p in spec.get('zero', [])][:4]}.. are constant 0", ", ".join(zero_bad))
    ov = [k for k in base if k[0] == "overflow"]
    # unmasked entity numbers wider than the slot are outside the valid range; only report when a *masked* field overflows
    # every non-zero bit of the record belongs to some field
    claimed = set()
    for fs in spec["fields"].values():
        for p in fs.get("bits") or []:
            claimed.add(p)
        for ts in (fs.get("tags") or {}).values():
            for key in ("value", "fill"):
                if key in ts:
                    for p in (ts[key][1] if key == "value" else ts[key][0]):
                        claimed.add(p)
        if fs["kind"] == "optaffine":
            claimed |= set(fs["flag"][0])
    unclaimed = [fmt_pos(p) for t in _tags(spec) for p, b in layout(packed, t).items() if isinstance(p[0], int) and b != 0 and p not in claimed]
    ctx.check(not unclaimed, R, f"{lab}:no-unspecified-bits", m, enode, "nothing is written outside the vendor's fields", ", ".join(sorted(set(unclaimed))))


def _tags(spec):
    tags = {None}
    for fs in spec["fields"].values():
        for t in (fs.get("tags") or {}):
            tags.add(t)
    return tags


def _rec_prefix(bv):
    srcs = bv.sources()
    return srcs[0][1] if srcs else ""


def _enum_width(ctx, m, name):
    ci = m.classes.get(name)
    vals = [v for v in ci.enum_members(ctx.repo).values() if isinstance(v, int)] if ci else [0]
    return max(v.bit_length() for v in vals) if vals else 0


def _fmt_src(b):
    if isinstance(b, tuple) and b[0] == "s":
        return f"{b[1]}[{b[2]}]"
    return str(b)


# ------------------------------------------------------------------------------------------ R2
SETTERS = {
    # class -> setter -> parameters of the private sender it may set
    "At4Zone": ("_send_group_control_message", {"set_power": {"power"}, "set_target_temperature": {"control_method", "setting"}, "set_damper_percentage": {"control_method", "setting"}}),
    "At5Zone": ("_send_zone_control_message", {"set_power": {"zone_power"}, "set_target_temperature": {"zone_setting"}, "set_damper_percentage": {"zone_setting"}}),
    "At4AirConditioner": ("_send_ac_control_message", {"set_power": {"power"}, "set_mode": {"power", "mode"}, "set_fan_speed": {"fan_speed"}, "set_target_temperature": {"set_point_control"}}),
    "At5AirConditioner": ("_send_ac_control_message", {"set_power": {"power"}, "set_mode": {"power", "mode"}, "set_fan_speed": {"fan_speed"}, "set_target_temperature": {"set_point"}}),
}
EXPECT_ARG = {
    ("At4Zone", "set_power", "power"): "_API_ZONE_POWER_MAPPING[power_control]",
    ("At5Zone", "set_power", "zone_power"): "_API_ZONE_POWER_MAPPING[power_control]",
    ("At4Zone", "set_target_temperature", "control_method"): "group_ctrl_msg.GroupControlMethod.TEMPERATURE",
    ("At4Zone", "set_damper_percentage", "control_method"): "group_ctrl_msg.GroupControlMethod.DAMPER",
    ("At4Zone", "set_damper_percentage", "setting"): "group_ctrl_msg.GroupDamperControl(open_percentage=open_percentage)",
    ("At5Zone", "set_damper_percentage", "zone_setting"): "zone_ctrl_msg.ZoneDamperControl(open_percentage=open_percentage)",
    ("At4AirConditioner", "set_power", "power"): "_API_POWER_CONTROL_MAPPING[power_control]",
    ("At5AirConditioner", "set_power", "power"): "_API_POWER_CONTROL_MAPPING[power_control]",
    ("At4AirConditioner", "set_mode", "mode"): "_API_MODE_CONTROL_MAPPING[mode]",
    ("At5AirConditioner", "set_mode", "mode"): "_API_MODE_CONTROL_MAPPING[mode]",
    ("At4AirConditioner", "set_fan_speed", "fan_speed"): "_API_FAN_SPEED_CONTROL_MAPPING[fan_speed]",
    ("At5AirConditioner", "set_fan_speed", "fan_speed"): "_API_FAN_SPEED_CONTROL_MAPPING[fan_speed]",
}


def r2(ctx):
    R = "C04.R2"
    for clsname, (sender, setters) in SETTERS.items():
        modname = AT4_API if clsname.startswith("At4") else AT5_API
        snd = fn_of(ctx, modname, f"{clsname}.{sender}")
        m = snd.module
        defaults = c02._defaults(snd)
        for p, d in defaults.items():
            v = ctx.repo.try_fold(m, d)
            ok = (isinstance(v, EnumVal) and v.name == "UNCHANGED") or (isinstance(d, ast.Constant) and d.value is None)
            ctx.check(ok, R, f"{clsname}.{sender}:default({p})", m, d, "parameter defaults to UNCHANGED / None (keep)", norm_text(d))
        for setter, allowed in setters.items():
            f = fn_of(ctx, modname, f"{clsname}.{setter}")
            calls = f.calls(sender)
            if len(calls) != 1:
                ctx.violation(R, f"{clsname}.{setter}:sender-call", m, f.node, f"one call of {sender}", f"{len(calls)} calls")
                continue
            n, c = calls[0]
            passed = {k.arg for k in c.keywords}
            order = [a.arg for a in snd.node.args.args if a.arg != "self"]
            passed |= {order[i] for i in range(len(c.args)) if i < len(order)}
            ctx.check(passed <= allowed and (passed or not allowed), R, f"{clsname}.{setter}:only-requested-attribute", m, c, f"sets only {sorted(allowed)}; everything else stays at its keep default", f"passes {sorted(passed)}")
            for p in sorted(passed):
                key = (clsname, setter, p)
                if key in EXPECT_ARG:
                    a = next((k.value for k in c.keywords if k.arg == p), None)
                    if a is None and p in order and order.index(p) < len(c.args):
                        a = c.args[order.index(p)]
                    if isinstance(a, ast.Name) and not f.is_param(a.id, n):
                        u_ = f.unique_def_value(a.id, n)  # an explaining local bound once to the mapped value
                        if u_ is not None and u_[1] is not None:
                            a = u_[1]
                    ctx.check(a is not None and norm_text(a) == EXPECT_ARG[key], R, f"{clsname}.{setter}:{p}", m, c, EXPECT_ARG[key], norm_text(a) if a is not None else "missing")
            if setter == "set_mode":
                # power is TURN_ON iff power_on else UNCHANGED
                a = next((k.value for k in c.keywords if k.arg == "power"), None)
                vs = c02._value_set(ctx, f, n, a) if a is not None else None
                names = sorted(v.name for v in vs) if vs and all(isinstance(v, EnumVal) for v in vs) else None
                ctx.check(names == ["TURN_ON", "UNCHANGED"], R, f"{clsname}.set_mode:power", m, c, "power is UNCHANGED unless power_on, then TURN_ON", str(names))
                # evaluated for both values of power_on (sa/minieval.py): the power argument that reaches the sender
                from ..minieval import Mini, Unsupported

                def stop(st, c=c):
                    if any(x is c for x in ast.walk(st)):
                        return next((k.value for k in c.keywords if k.arg == "power"), ast.Constant(value="<no power argument>"))
                    return None

                api_mode = ctx.repo.try_fold(ctx.repo.module(API), ast.parse("AcMode.HEAT", mode="eval").body)
                got = {}
                for flag in (False, True):
                    try:
                        kind, v = Mini(ctx.repo, m, {"self._supported_modes": [api_mode], "self.supported_modes": [api_mode]}, f.cls).value_at(f.node, {"mode": api_mode, "power_on": flag}, stop)
                    except Unsupported as ex:
                        if "is not an atom" in str(ex) and "self." in str(ex):
                            # the power argument is computed from object state the rule does not supply: it does not depend on
                            # power_on alone
                            got[flag] = f"<depends on object state: {ex}>"
                            continue
                        raise AnalysisError(f"{m.relpath}: {clsname}.set_mode left the evaluable fragment: {ex}")
                    got[flag] = getattr(v, "name", repr(v)) if kind == "value" else f"<{kind}>"
                ok = got == {False: "UNCHANGED", True: "TURN_ON"}
                ctx.check(ok, R, f"{clsname}.set_mode:power_on-guard", m, f.node, "power=TURN_ON exactly when power_on is true, UNCHANGED otherwise", f"power_on=False -> {got[False]}, power_on=True -> {got[True]}")
        # the sender: fields <- parameters of the same name, entity = own id
        ctor = {"_send_group_control_message": "GroupControlMessage", "_send_zone_control_message": "ZoneControlData"}.get(sender) or ("AcControlMessage" if clsname.startswith("At4") else "AcControlData")
        cons = snd.calls(ctor)
        ok = False
        got = {}
        if len(cons) == 1:
            got = {k.arg: norm_text(k.value) for k in cons[0][1].keywords}
            idf = {"GroupControlMessage": ("group_number", {"self._group_status.group_number", "self.zone_id"}), "ZoneControlData": ("zone_number", {"self.zone_id", "self._zone_status.zone_number"})}.get(ctor, ("ac_number", {"self.ac_id", "self._ac_status.ac_number"}))
            ok = got.get(idf[0]) in idf[1] and all(got.get(p) == p for p in defaults)
        ctx.check(ok, R, f"{clsname}.{sender}:message-fields", m, snd.node, f"{ctor}(<own id>, " + ", ".join(f"{p}={p}" for p in defaults) + ")", str(got))
    # quick timers and update check
    for modname, clsname in ((AT4_API, "At4AirConditioner"), (AT5_API, "At5AirConditioner")):
        f = fn_of(ctx, modname, f"{clsname}.set_quick_timer")
        m = f.module
        cons = f.calls("QuickTimerMessage")
        got = {k.arg: norm_text(k.value) for k in cons[0][1].keywords} if len(cons) == 1 else {}
        ok = got == {"ac_number": "self.ac_id", "timer_type": "_API_TIMER_TYPE_MAPPING[timer_type]", "duration": "value"}
        ctx.check(ok, R, f"{clsname}.set_quick_timer:duration", m, f.node, "QuickTimerMessage(ac_number=self.ac_id, timer_type=table[timer_type], duration=value)", str(got))
    for modname, clsname in ((AT4_API, "AirTouch4"), (AT5_API, "AirTouch5")):
        f = fn_of(ctx, modname, f"{clsname}.check_for_updates")
        sends = f.calls("self._socket.send")
        names = []
        for n, c in sends:
            msg = next((k.value for k in c.keywords if k.arg == "message"), c.args[0] if c.args else None)
            names = [ctx.repo.resolve_class(f.module, x.func).name for x in ast.walk(msg) if isinstance(x, ast.Call) and ctx.repo.resolve_class(f.module, x.func) is not None]
        ctx.check(names == ["ExtendedMessage", "ConsoleVersionRequest"], R, f"{clsname}.check_for_updates", f.module, f.node, "sends ExtendedMessage(ConsoleVersionRequest())", "/".join(names))


# ------------------------------------------------------------------------------------------ R3
SYNONYM = {"OFF": "TURN_OFF", "ON": "TURN_ON"}


def r3(ctx):
    R = "C04.R3"
    api = ctx.repo.module(API)
    for modname in (AT4_API, AT5_API):
        m = ctx.repo.module(modname)
        gen = modname.split(".")[1]
        for t, keyenum in (("_API_POWER_CONTROL_MAPPING", "AcPowerControl"), ("_API_MODE_CONTROL_MAPPING", "AcMode"), ("_API_FAN_SPEED_CONTROL_MAPPING", "AcFanSpeed"), ("_API_ZONE_POWER_MAPPING", "ZonePowerState"), ("_API_TIMER_TYPE_MAPPING", "AcTimerType")):
            rows = ctx.repo.dict_table(m, t)
            vals = []
            for k, v, kn, vn in rows:
                ok = isinstance(k, EnumVal) and k.cls.module is api and k.cls.name == keyenum and isinstance(v, EnumVal) and v.name == SYNONYM.get(k.name, k.name) and v.cls.module.name.startswith(f"pyairtouch.{gen}.comms")
                ctx.check(ok, R, f"{gen}:{t}[{getattr(k, 'name', k)}]", m, vn, f"api.{keyenum}.{getattr(k, 'name', '?')} -> control member {SYNONYM.get(getattr(k, 'name', ''), getattr(k, 'name', '?'))}", repr(v))
                vals.append(repr(v))
            ctx.check(len(set(vals)) == len(vals), R, f"{gen}:{t}:injective", m, m.assign_nodes[t], "no two API values map to the same control code", str(vals))
            # mapped control values are never the keep code
            ctx.check(not any(isinstance(v, EnumVal) and v.name == "UNCHANGED" for _, v, _, _ in rows), R, f"{gen}:{t}:never-keep", m, m.assign_nodes[t], "a requested value never maps to UNCHANGED", "maps to UNCHANGED")


# ------------------------------------------------------------------------------------------ R4
def _to_address_choice(ctx, rm, gen):
    ci = rm.get_class("HeaderFactory")
    fn = ci.methods["create_from_message"]
    ev = B.Ev(ctx.repo, rm, ci)
    ev.opaque_fields = True
    params = [a.arg for a in fn.args.args]
    env = {"self": B.Sym("self"), params[1]: B.Sym("message"), params[2]: B.Sym("message_length", "int")}
    try:
        out = ev.run(fn.body, env, rm, B.TRUE)
    except B.Unsupported as ex:
        raise AnalysisError(f"{rm.relpath}: HeaderFactory.create_from_message left the analysable fragment: {ex}")
    alts = []
    for cond, val in out["returns"]:
        if not isinstance(val, B.Obj) or "to_address" not in val.fields:
            return False, f"returns {val!r}"
        ta = val.fields["to_address"]
        for c2, v2 in (ta.alts if isinstance(ta, B.Choice) else [(B.TRUE, ta)]):
            alts.append((B.c_and(cond, c2), v2))
    # first-match semantics: evaluate under id == 0x1F and id != 0x1F
    def pick(is_ext: bool):
        for c, v in alts:
            r = _cond_under(c, is_ext)
            if r is True:
                return v
            if r is None:
                return None
        return None

    ext, base = pick(True), pick(False)
    okv = lambda v, n: isinstance(v, B.BV) and v.is_const() and v.value() == n
    ok = okv(ext, 0x90) and okv(base, 0x80)
    return ok, f"extended -> {ext!r}, otherwise -> {base!r} (alternatives: {alts!r})"[:300]


def _cond_under(c, is_ext: bool):
    """Three-valued evaluation of an engine condition when `message.message_id == 0x1F` is known to be is_ext."""
    if c == B.TRUE:
        return True
    if c == B.FALSE:
        return False
    if isinstance(c, tuple):
        if c[0] == "and":
            vals = [_cond_under(x, is_ext) for x in c[1:]]
            if any(v is False for v in vals):
                return False
            return True if all(v is True for v in vals) else None
        if c[0] == "or":
            vals = [_cond_under(x, is_ext) for x in c[1:]]
            if any(v is True for v in vals):
                return True
            return False if all(v is False for v in vals) else None
        if c[0] == "not":
            v = _cond_under(c[1], is_ext)
            return None if v is None else (not v)
        if c[0] == "symeq" and len(c) == 3 and {c[1], c[2]} == {"message.message_id", "31"}:
            return is_ext
    return None


def _header_fields(ctx, R, rm, gen):
    """create_from_message evaluated by the checker's interpreter on a small grid (message id 0x1F and three others x three payload
    lengths, consecutive calls on one factory): each header must carry to = 0x90 exactly for the extended id and 0x80 otherwise,
    from = 0xB0, the message's own id and the given length - and keep them after the next header has been created (a factory that
    hands out one re-used object lets a later message overwrite the header of one that is still queued)."""
    from ..minieval import FakeObj, Mini, Unsupported

    ci = rm.get_class("HeaderFactory")
    init, cfm = ci.methods.get("__init__"), ci.methods.get("create_from_message")
    ctx.require(init is not None and cfm is not None, f"{rm.relpath}: HeaderFactory.__init__/create_from_message vanished")
    params = [a.arg for a in cfm.args.args][1:]
    mini = Mini(ctx.repo, rm, {}, ci)
    grid = [(0x1F, 6), (0x2A, 4), (0xC0, 0), (0x1F, 0), (0x2B, 300), (0x2C, 4)]
    made = []
    try:
        mini.run(init.body, {})
        for mid, ln in grid:
            h = mini.function_value(cfm, {params[0]: FakeObj("Message", message_id=mid), params[1]: ln})
            made.append((mid, ln, h, dict(h.__dict__) if isinstance(h, FakeObj) else None))
    except Unsupported as ex:
        raise AnalysisError(f"{rm.relpath}: HeaderFactory left the evaluable fragment: {ex}")
    bad = {"to_address": [], "from_address": [], "message_id": [], "message_length": []}
    for mid, ln, h, snap in made:
        if snap is None:
            for k in bad:
                bad[k].append(f"id 0x{mid:X}: returns {h!r}")
            continue
        want = {"to_address": 0x90 if mid == 0x1F else 0x80, "from_address": 0xB0, "message_id": mid, "message_length": ln}
        for k, w in want.items():
            if snap.get(k) != w:
                bad[k].append(f"message id 0x{mid:X}, length {ln}: {k} = {snap.get(k)!r}")
    labels = {"to_address": "0x90 exactly when message.message_id == 0x1F (extended), otherwise 0x80", "from_address": "0xB0 (client)", "message_id": "message.message_id", "message_length": "message_length"}
    for k in ("from_address", "to_address", "message_id", "message_length"):
        ctx.check(not bad[k], R, f"{gen}:header:{k}", rm, cfm, labels[k], "; ".join(bad[k][:3]))
    stale = [f"header of message 0x{mid:X} now reads {({k: v for k, v in h.__dict__.items() if k != '_cls'})}" for mid, ln, h, snap in made if snap is not None and dict(h.__dict__) != snap]
    ctx.check(not stale, R, f"{gen}:header:own-object", rm, cfm, "a header keeps its own address, id and length after later headers were created (it is held by the pending queue until written)", "; ".join(stale[:2]))


def r4(ctx):
    R = "C04.R4"
    for gen in ("at4", "at5"):
        hm = ctx.repo.module(f"pyairtouch.{gen}.comms.hdr")
        for name, want in T.ADDRESSES.items():
            v = ctx.repo.try_fold(hm, hm.get_const_expr(name))
            ctx.check(v == want, R, f"{gen}:{name}", hm, hm.assign_nodes[name], f"0x{want:02X}", repr(v))
        for mod, want in T.IDS[gen].items():
            mm = ctx.repo.module(f"pyairtouch.{gen}.comms.{mod}")
            v = ctx.repo.try_fold(mm, mm.get_const_expr("MESSAGE_ID"))
            ctx.check(v == want, R, f"{gen}:{mod}.MESSAGE_ID", mm, mm.assign_nodes["MESSAGE_ID"], f"0x{want:X}", f"0x{v:X}" if isinstance(v, int) else repr(v))
        rm = ctx.repo.module(f"pyairtouch.{gen}.comms.registry")
        ctx.fn(rm, "HeaderFactory.create_from_message")
        _header_fields(ctx, R, rm, gen)
    # wrapper ids on the wire
    for gen in ("at4", "at5"):
        xm = ctx.repo.module(f"pyairtouch.{gen}.comms.x1F_ext")
        ci = xm.get_class("ExtendedMessage")
        fn = ci.methods.get("message_id")
        rets = [x for x in ast.walk(fn) if isinstance(x, ast.Return)]
        ctx.check(len(rets) == 1 and ctx.repo.try_fold(xm, rets[0].value) == 0x1F, R, f"{gen}:ExtendedMessage.message_id", xm, fn, "0x1F", norm_text(rets[0].value) if rets else "")


# ------------------------------------------------------------------------------------------ R5
def r5(ctx):
    R = "C04.R5"
    um = ctx.repo.module("pyairtouch.at5.comms.utils")
    ev = B.Ev(ctx.repo, um, None)
    for fn, want in (("encode_set_point", (Fraction(10), Fraction(-100), True)), ("encode_temperature", (Fraction(10), Fraction(500), True))):
        f = um.get_function(fn)
        p = f.args.args[0].arg
        try:
            v = ev.invoke(f, um, [B.Sym(p, "float")], {}, skip_self=False)
        except B.Unsupported as ex:
            raise AnalysisError(f"{um.relpath}: {fn} left the analysable fragment: {ex}")
        ok = isinstance(v, B.Lin) and (v.mul, v.add, v.trunc) == want
        ctx.check(ok, R, f"at5.utils.{fn}", um, f, f"int({p}*{want[0]}+({want[1]}))", repr(v))
    # exactness on the 0.1 degC grid: the factor 10.0 must be applied to the input itself (t*10.0 is correctly rounded to the
    # integer grid value; (t - 10.0)*10.0 or t/0.1 are not), then an integer constant is added/subtracted, then int()
    for gm, fnames in ((um, ("encode_set_point", "encode_temperature")), (ctx.repo.module("pyairtouch.at4.comms.utils"), ("encode_temperature",))):
        for fn in fnames:
            f = gm.get_function(fn)
            p = f.args.args[0].arg
            from ..minieval import Mini, Unsupported

            offset = -100 if fn == "encode_set_point" else 500
            bad = []
            tried = 0
            for k in range(-400, 1001):  # every 0.1 degC grid value from -40.0 to 100.0
                t = k / 10
                try:
                    got = Mini(ctx.repo, gm).function_value(f, {p: t})
                except Unsupported as ex:
                    raise AnalysisError(f"{gm.relpath}: {fn} left the evaluable fragment: {ex}")
                tried += 1
                want_v = k + offset
                if gm.name.split(".")[1] == "at4":
                    want_v = ((k + offset) << 5) & 0xFFE0  # the 11-bit field sits in bits 15..5 of the two bytes (vendor layout, C04.R1/C05.R1)
                if got != want_v:
                    bad.append((t, got, want_v))
            ok = not bad
            found = f"{tried} grid values evaluated" if ok else f"{len(bad)} of {tried} grid values are off, e.g. {fn}({bad[0][0]}) = {bad[0][1]!r}, expected {bad[0][2]}"
            ctx.check(ok, R, f"{gm.name.split('.')[1]}.utils.{fn}:exact-on-grid", gm, f, f"{fn}(k/10) == k {offset:+d} for every 0.1 degC grid value k/10 (evaluated with the checker's own interpreter in binary floating point)", found)
    for fn, want in (("decode_set_point", (Fraction(1, 10), Fraction(10))), ("decode_temperature", (Fraction(1, 10), Fraction(-50)))):
        f = um.get_function(fn)
        p = f.args.args[0].arg
        v = ev.invoke(f, um, [B.BV.src(p, 11)], {}, skip_self=False)
        ok = isinstance(v, B.Lin) and (v.mul, v.add) == want and not v.trunc
        ctx.check(ok, R, f"at5.utils.{fn}", um, f, f"raw*{want[0]}+({want[1]})", repr(v))
    before = len(ctx.obligations)
    c10.r5(ctx)
    new = ctx.obligations[before:]
    del ctx.obligations[before:]
    for o in new:
        o.rule = R
        o.expected = "the clamp applied to a requested set-point uses the limits of the current mode: " + o.expected
        ctx.obligations.append(o)
